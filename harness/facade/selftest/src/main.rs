//! Self-test of verif_facade (std facade + deterministic scheduling runtime) against the real,
//! instrumented another-rxrust crate.  Exits 0 iff every test passes; prints one line per test.
//! In this crate `std` is the real std; the facade is reached through `another_rxrust::verif_facade`.
use another_rxrust::prelude::*;
use another_rxrust::verif_facade::rt::{self, Config, Outcome, Status, Strategy};
use another_rxrust::verif_facade::{sync as fsync, thread as fthread};
use scheduler::IScheduler;
use std::collections::BTreeSet;
use std::sync::{Arc, Mutex};
use std::time::{Duration, Instant};

type Log<T> = Arc<Mutex<Vec<T>>>;
fn new_log<T>() -> Log<T> {
  Arc::new(Mutex::new(Vec::new()))
}
fn snapshot<T: Clone>(l: &Log<T>) -> Vec<T> {
  l.lock().unwrap().clone()
}
macro_rules! check {
  ($cond:expr, $($arg:tt)*) => { if !($cond) { return Err(format!($($arg)*)); } };
}
type TestResult = Result<String, String>;

fn os_thread_count() -> usize {
  std::fs::read_to_string("/proc/self/status")
    .ok()
    .and_then(|s| s.lines().find(|l| l.starts_with("Threads:")).and_then(|l| l[8..].trim().parse().ok()))
    .unwrap_or(0)
}

// ------------------------------------------------------------------------------------------- 1
fn t1_passive_transparent() -> TestResult {
  check!(!rt::active() && rt::thread_id() == u32::MAX && rt::now() == 0, "rt reports active in passive mode");
  // a) plain pipeline
  let log = new_log::<String>();
  let (l1, l2) = (log.clone(), log.clone());
  observables::from_iter(0..10).map(|x| x * 2).take(3).subscribe(
    move |x| l1.lock().unwrap().push(format!("n{}", x)),
    |_| {},
    move || l2.lock().unwrap().push("c".into()),
  );
  check!(snapshot(&log) == ["n0", "n2", "n4", "c"], "pipeline gave {:?}", snapshot(&log));
  // b) subject with two subscribers and unsubscribe
  let log = new_log::<String>();
  let sbj = subjects::Subject::<i32>::new();
  let (l1, l2, l3) = (log.clone(), log.clone(), log.clone());
  let sub1 = sbj.observable().subscribe(move |x| l1.lock().unwrap().push(format!("a{}", x)), |_| {}, || {});
  sbj.observable().subscribe(move |x| l2.lock().unwrap().push(format!("b{}", x)), |_| {}, move || l3.lock().unwrap().push("bc".into()));
  sbj.next(1);
  #[cfg(rx_verif)]
  check!(sbj.verif_observer_count() == 2, "observer count {}", sbj.verif_observer_count());
  sub1.unsubscribe();
  #[cfg(rx_verif)]
  check!(sbj.verif_observer_count() == 1, "observer count after unsubscribe {}", sbj.verif_observer_count());
  sbj.next(2);
  sbj.complete();
  let mut got = snapshot(&log);
  got[..2].sort(); // HashMap iteration order of the two observers
  check!(got == ["a1", "b1", "b2", "bc"], "subject gave {:?}", got);
  // c) real threads + real sleep through the facade
  let log = new_log::<(i32, bool)>();
  let done = Arc::new(Mutex::new(false));
  let (l1, d1) = (log.clone(), done.clone());
  let main_id = std::thread::current().id();
  let t0 = Instant::now();
  observables::from_iter(0..4).delay(Duration::from_millis(5)).observe_on(schedulers::new_thread_scheduler()).subscribe(
    move |x| l1.lock().unwrap().push((x, std::thread::current().id() != main_id)),
    |_| {},
    move || *d1.lock().unwrap() = true,
  );
  while !*done.lock().unwrap() && t0.elapsed() < Duration::from_secs(5) {
    std::thread::sleep(Duration::from_millis(2));
  }
  let real = t0.elapsed();
  check!(*done.lock().unwrap(), "observe_on pipeline did not complete: {:?}", snapshot(&log));
  check!(snapshot(&log) == [(0, true), (1, true), (2, true), (3, true)], "observe_on gave {:?}", snapshot(&log));
  check!(real >= Duration::from_millis(20), "real sleep was skipped ({:?})", real);
  Ok(format!("pipeline, subject, delay+observe_on on real threads ({} ms real)", real.as_millis()))
}

// ------------------------------------------------------------------------------------------- 2
fn behavior_subject_reentrancy() {
  let s = subjects::BehaviorSubject::new(0);
  let s2 = s.clone();
  s.observable().subscribe(
    move |x| {
      if x < 3 {
        s2.next(x + 1);
      }
    },
    |_| {},
    || {},
  );
}
/// Facade-only variant (independent of the crate): read guard held, then write on the same thread.
fn raw_reentrancy() {
  let l = fsync::RwLock::new(0);
  let r = l.read().unwrap();
  *l.write().unwrap() += *r;
}
fn catch_on_thread(f: fn()) -> Result<Option<String>, String> {
  let r = std::thread::spawn(move || std::panic::catch_unwind(f)).join().map_err(|_| "thread died".to_string())?;
  Ok(r.err().map(|p| p.downcast_ref::<String>().cloned().or_else(|| p.downcast_ref::<&str>().map(|s| s.to_string())).unwrap_or_default()))
}
fn t2_passive_self_deadlock() -> TestResult {
  let msg = catch_on_thread(raw_reentrancy)?.ok_or("read-then-write on one thread did not panic")?;
  check!(msg.starts_with("VERIF_SELF_DEADLOCK") && msg.contains("main.rs") && msg.contains("read mode") && msg.contains("write mode"), "raw: unexpected message: {}", msg);
  let m = fsync::Mutex::new(0);
  let _g = m.lock().unwrap();
  // (same thread would hang on std::sync::Mutex)
  let again = std::panic::catch_unwind(std::panic::AssertUnwindSafe(|| drop(m.lock())));
  check!(again.is_err(), "Mutex double lock not detected");
  // recursive read of the same lock must stay allowed
  let l = fsync::RwLock::new(1);
  let (a, b) = (l.read().unwrap(), l.read().unwrap());
  check!(*a + *b == 2, "recursive read broken");
  // the crate scenario of the spec: BehaviorSubject::next from inside its own subscriber (hangs on plain std)
  let msg = match catch_on_thread(behavior_subject_reentrancy)? {
    Some(m) => m,
    // only possible if the crate under test no longer holds the lock across the callback (i.e. was fixed)
    None if std::env::var("SELFTEST_ALLOW_FIXED_CRATE").is_ok() => return Ok("facade detection ok; crate scenario no longer re-enters its lock".into()),
    None => return Err("no panic: re-entrant BehaviorSubject::next went through (crate fixed? set SELFTEST_ALLOW_FIXED_CRATE=1)".into()),
  };
  check!(msg.starts_with("VERIF_SELF_DEADLOCK"), "unexpected panic message: {}", msg);
  check!(msg.contains("behavior_subject.rs") && msg.contains("read mode") && msg.contains("write mode"), "message lacks sites/modes: {}", msg);
  Ok(msg)
}

// ------------------------------------------------------------------------------------------- 3
/// `threads` emitter threads push `items` values each into one Subject observed by a logging subscriber.
fn emitters(threads: i32, items: i32, log: Log<String>) -> impl FnOnce() + Send + 'static {
  move || {
    let sbj = subjects::Subject::<i32>::new();
    let l = log.clone();
    sbj.observable().subscribe(move |x| l.lock().unwrap().push(format!("{}@t{}", x, rt::thread_id())), |_| {}, || {});
    let hs: Vec<_> = (0..threads)
      .map(|t| {
        let s = sbj.clone();
        fthread::spawn(move || {
          for i in 0..items {
            s.next((t + 1) * 10 + i);
          }
        })
      })
      .collect();
    for h in hs {
      h.join().unwrap();
    }
    log.lock().unwrap().push("joined".into());
  }
}
fn run_emitters(cfg: Config, threads: i32, items: i32) -> (Outcome, Vec<String>) {
  let log = new_log();
  let out = rt::run(cfg, emitters(threads, items, log.clone()));
  (out, snapshot(&log))
}
fn clean(out: &Outcome) -> Result<(), String> {
  check!(out.status == Status::Ok, "status {:?}", out.status);
  check!(out.live_threads.is_empty() && out.panics.is_empty() && !out.replay_diverged, "live={:?} panics={:?}", out.live_threads, out.panics);
  check!(out.steps == out.choices.len() as u64, "steps {} != choices {}", out.steps, out.choices.len());
  Ok(())
}
fn t3_determinism() -> TestResult {
  let mut distinct = BTreeSet::new();
  for strategy in [Strategy::Random, Strategy::Pct { depth: 3 }, Strategy::RoundRobin] {
    for seed in 0..50u64 {
      let cfg = Config { seed, strategy, ..Config::default() };
      let (o1, l1) = run_emitters(cfg.clone(), 2, 3);
      let (o2, l2) = run_emitters(cfg.clone(), 2, 3);
      clean(&o1)?;
      check!(o1.choices == o2.choices && l1 == l2, "{:?} seed {}: two runs differ", strategy, seed);
      check!(l1.len() == 7 && o1.threads_spawned == 2, "log {:?}", l1);
      // replaying the recorded choices under another strategy reproduces the run exactly
      let replay = o1.choices.iter().map(|c| c.chosen).collect();
      let (o3, l3) = run_emitters(Config { seed: seed + 1000, strategy: Strategy::Dfs, replay, ..Config::default() }, 2, 3);
      check!(o3.choices == o1.choices && l3 == l1 && !o3.replay_diverged, "{:?} seed {}: replay differs", strategy, seed);
      if strategy == Strategy::Random {
        distinct.insert(l1);
      }
    }
  }
  check!(distinct.len() >= 2, "50 random seeds produced a single interleaving");
  Ok(format!("same (seed, replay) => same choices+log for Random/Pct/RoundRobin; {} distinct logs among 50 random seeds", distinct.len()))
}

// ------------------------------------------------------------------------------------------- 4
fn t4_dfs() -> TestResult {
  // Depth-first enumeration of ALL schedules on top of `replay` + `choices`.  One frame per decision:
  // the index taken and the indices not yet tried.  (The default policy after the prefix does not
  // necessarily pick index 0, hence the explicit "untried" lists.)
  let mut logs = BTreeSet::new();
  let mut stack: Vec<(u32, Vec<u32>)> = Vec::new();
  let (mut runs, mut max_len) = (0u64, 0usize);
  loop {
    let prefix: Vec<u32> = stack.iter().map(|f| f.0).collect();
    let (out, log) = run_emitters(Config { strategy: Strategy::Dfs, replay: prefix.clone(), ..Config::default() }, 2, 2);
    clean(&out)?;
    runs += 1;
    max_len = max_len.max(out.choices.len());
    check!(out.choices.len() >= prefix.len() && out.choices.iter().zip(&prefix).all(|(c, p)| c.chosen == *p), "replay prefix not honoured");
    logs.insert(log[..4].to_vec());
    for c in &out.choices[prefix.len()..] {
      stack.push((c.chosen, (0..c.n_enabled).filter(|i| *i != c.chosen).collect()));
    }
    // backtrack to the deepest decision that still has an untried alternative
    while matches!(stack.last(), Some(f) if f.1.is_empty()) {
      stack.pop();
    }
    match stack.last_mut() {
      None => break,
      Some(f) => f.0 = f.1.pop().unwrap(),
    }
    check!(runs < 5_000_000, "DFS does not terminate");
  }
  check!(logs.len() == 6, "expected 6 distinct logs, got {}: {:?}", logs.len(), logs);
  for l in &logs {
    let pos = |s: &str| l.iter().position(|x| x.starts_with(s)).unwrap();
    check!(pos("10@") < pos("11@") && pos("20@") < pos("21@"), "per-thread order violated in {:?}", l);
  }
  Ok(format!("{} schedules enumerated (max {} decisions), 6 distinct logs", runs, max_len))
}

// ------------------------------------------------------------------------------------------- 5
fn t5_virtual_time() -> TestResult {
  let log = new_log::<(u64, u64, u32)>();
  let l = log.clone();
  let t0 = Instant::now();
  let out = rt::run(Config { seed: 7, ..Config::default() }, move || {
    let (l1, l2) = (l.clone(), l.clone());
    observables::interval(Duration::from_millis(100), schedulers::new_thread_scheduler()).take(3).subscribe(
      move |x| l1.lock().unwrap().push((x, rt::now(), rt::thread_id())),
      |_| {},
      move || l2.lock().unwrap().push((99, rt::now(), rt::thread_id())),
    );
  });
  let real = t0.elapsed();
  const MS: u64 = 1_000_000;
  check!(out.status == Status::Ok && out.panics.is_empty(), "status {:?} panics {:?}", out.status, out.panics);
  check!(snapshot(&log) == [(0, 100 * MS, 1), (1, 200 * MS, 1), (2, 300 * MS, 1), (99, 300 * MS, 1)], "log {:?}", snapshot(&log));
  check!(out.live_threads.is_empty(), "worker leaked: {:?}", out.live_threads);
  check!(out.end_time == 400 * MS && !out.time_limit_hit, "end_time {}", out.end_time);
  check!(real < Duration::from_millis(100), "took {:?} of real time", real);
  let steps = out.steps;
  // max_virtual_time: an endless interval is cut off, the sleeper is reported
  let out = rt::run(Config { max_virtual_time: 1000 * MS, ..Config::default() }, || {
    observables::interval(Duration::from_millis(300), schedulers::new_thread_scheduler()).subscribe(|_| {}, |_| {}, || {});
  });
  check!(out.status == Status::Ok && out.time_limit_hit && out.end_time == 900 * MS, "time limit: {:?} end {}", out.status, out.end_time);
  check!(out.live_threads.len() == 1 && out.live_threads[0].state.starts_with("Sleeping"), "time limit live {:?}", out.live_threads);
  Ok(format!("items at 100/200/300 ms virtual, end_time {} ms, {} steps, {:.1} ms real; max_virtual_time cut-off ok", out_ms(400 * MS), steps, real.as_secs_f64() * 1e3))
}
fn out_ms(ns: u64) -> u64 {
  ns / 1_000_000
}

// ------------------------------------------------------------------------------------------- 6
fn t6_deadlock_and_steplimit() -> TestResult {
  let (mut deadlocks, mut oks, mut sample) = (0, 0, String::new());
  for seed in 0..50 {
    let out = rt::run(Config { seed, ..Config::default() }, || {
      let a = Arc::new(fsync::RwLock::new(0));
      let b = Arc::new(fsync::RwLock::new(0));
      let (a2, b2) = (a.clone(), b.clone());
      let h1 = rt::spawn_named("ab", move || {
        let _ga = a.write().unwrap();
        rt::yield_point("between");
        let _gb = b.write().unwrap();
      });
      let h2 = rt::spawn_named("ba", move || {
        let _gb = b2.read().unwrap();
        rt::yield_point("between");
        let _ga = a2.write().unwrap();
      });
      h1.join().unwrap();
      h2.join().unwrap();
    });
    match out.status {
      Status::Deadlock(d) => {
        deadlocks += 1;
        check!(out.live_threads.len() == 3, "deadlock live threads {:?}", out.live_threads);
        check!(d.contains("'ab'") && d.contains("'ba'") && d.contains("BlockedOnJoin(t1)") && d.contains("main.rs"), "description: {}", d);
        sample = d;
      }
      Status::Ok => {
        oks += 1;
        check!(out.live_threads.is_empty(), "ok run leaked {:?}", out.live_threads);
      }
      s => return Err(format!("unexpected status {:?}", s)),
    }
  }
  check!(deadlocks > 0 && oks > 0, "deadlocks={} oks={}", deadlocks, oks);
  // livelock
  let out = rt::run(Config { max_steps: 1000, strategy: Strategy::RoundRobin, ..Config::default() }, || {
    fthread::spawn(|| loop {
      rt::yield_point("spin");
    });
  });
  check!(out.status == Status::StepLimit && out.steps == 1000, "StepLimit: {:?} steps {}", out.status, out.steps);
  check!(out.live_threads.len() == 1 && out.live_threads[0].id == 1, "StepLimit live {:?}", out.live_threads);
  // main blocked on a condvar nobody notifies => Deadlock, not quiescence
  let out = rt::run(Config::default(), || {
    let m = fsync::Mutex::new(false);
    let cv = fsync::Condvar::new();
    let _g = cv.wait_while(m.lock().unwrap(), |ready| !*ready).unwrap();
  });
  check!(matches!(out.status, Status::Deadlock(_)), "main waiting forever: {:?}", out.status);
  Ok(format!("{} deadlocks / {} ok among 50 seeds; StepLimit ok; main-waits-forever is Deadlock; sample:\n{}", deadlocks, oks, sample.trim_end().replace('\n', "\n      ")))
}

// ------------------------------------------------------------------------------------------- 7
fn t7_condvar_scheduler() -> TestResult {
  let mut total_steps = 0;
  for abort in [true, false] {
    for (seed, strategy) in [(1, Strategy::Random), (2, Strategy::Random), (3, Strategy::Random), (4, Strategy::Pct { depth: 3 }), (5, Strategy::RoundRobin)] {
      let log = new_log::<(i32, u32)>();
      let l = log.clone();
      let out = rt::run(Config { seed, strategy, ..Config::default() }, move || {
        let s = schedulers::new_thread_scheduler()();
        for i in 1..=3 {
          let l = l.clone();
          s.post(move || l.lock().unwrap().push((i, rt::thread_id())));
        }
        fthread::sleep(Duration::from_millis(1)); // virtual: elapses only once the worker has drained the queue
        if abort {
          s.abort();
        }
      });
      total_steps += out.steps;
      check!(out.status == Status::Ok && out.panics.is_empty(), "abort={} seed {}: {:?} {:?}", abort, seed, out.status, out.panics);
      check!(snapshot(&log) == [(1, 1), (2, 1), (3, 1)], "abort={} seed {}: log {:?}", abort, seed, snapshot(&log));
      check!(out.threads_spawned == 1 && out.end_time == 1_000_000, "spawned {} end {}", out.threads_spawned, out.end_time);
      if abort {
        check!(out.live_threads.is_empty(), "worker not finished after abort: {:?}", out.live_threads);
      } else {
        check!(out.live_threads.len() == 1 && out.live_threads[0].id == 1 && out.live_threads[0].state.starts_with("WaitingCondvar"), "expected one condvar waiter: {:?}", out.live_threads);
      }
    }
  }
  Ok(format!("tasks ran in order on t1; abort => worker Finished; no abort => 1 leaked WaitingCondvar thread ({} steps total)", total_steps))
}

// ------------------------------------------------------------------------------------------- 8
fn t8_many_runs() -> TestResult {
  let before = os_thread_count();
  let t0 = Instant::now();
  let n = 2000u64;
  let mut distinct = BTreeSet::new();
  let mut peak = before;
  for seed in 0..n {
    let (out, log) = run_emitters(Config { seed, ..Config::default() }, 2, 3);
    clean(&out)?;
    distinct.insert(log);
    if seed % 100 == 0 {
      peak = peak.max(os_thread_count());
    }
  }
  let secs = t0.elapsed().as_secs_f64();
  let after = os_thread_count();
  check!(distinct.len() == 20, "expected all C(6,3)=20 interleavings over 2000 seeds, got {}", distinct.len());
  check!(after <= before + 1 && peak <= before + 4, "threads accumulate: before {} peak {} after {}", before, peak, after);
  check!(secs < 120.0, "too slow: {:.1}s", secs);
  Ok(format!("{} runs in {:.2}s = {:.0} runs/s; OS threads before/peak/after = {}/{}/{}; {} distinct logs", n, secs, n as f64 / secs, before, peak, after, distinct.len()))
}

// ------------------------------------------------------------------------------------------- 9 (extras)
fn t9_controlled_misc() -> TestResult {
  // a) the test-2 scenario in controlled mode => Status::SelfDeadlock, run returns promptly
  let scenario: fn() = if std::env::var("SELFTEST_ALLOW_FIXED_CRATE").is_ok() { raw_reentrancy } else { behavior_subject_reentrancy };
  let out = rt::run(Config::default(), scenario);
  let msg = match &out.status {
    Status::SelfDeadlock(m) => m.clone(),
    s => return Err(format!("expected SelfDeadlock, got {:?}", s)),
  };
  check!(msg.starts_with("VERIF_SELF_DEADLOCK") && (msg.contains("behavior_subject.rs") || msg.contains("main.rs")), "msg {}", msg);
  check!(out.live_threads.len() == 1 && out.live_threads[0].id == 0, "live {:?}", out.live_threads);
  // b) a panicking thread is recorded, its guard is released during unwinding (poisoning as in std), run goes on
  let out = rt::run(Config { strategy: Strategy::RoundRobin, ..Config::default() }, || {
    let l = Arc::new(fsync::RwLock::new(5));
    let l2 = l.clone();
    let h = fthread::spawn(move || {
      let _g = l2.write().unwrap();
      panic!("boom");
    });
    assert!(h.join().is_err());
    assert!(l.is_poisoned());
    assert_eq!(*l.read().unwrap_or_else(|e| e.into_inner()), 5);
  });
  check!(out.status == Status::Ok && out.panics == [(1, "boom".to_string())] && out.live_threads.is_empty(), "panic handling: {:?} {:?} {:?}", out.status, out.panics, out.live_threads);
  // c) notify_one with two waiters is a recorded decision; notify with no waiter is lost; spurious wake-ups
  for spurious in [false, true] {
    let mut woken = BTreeSet::new();
    for seed in 0..40 {
      let log = new_log::<u32>();
      let l = log.clone();
      let out = rt::run(Config { seed, spurious_wakeups: spurious, ..Config::default() }, move || {
        let pair = Arc::new((fsync::Mutex::new(0u32), fsync::Condvar::new()));
        pair.1.notify_one(); // lost
        for _ in 0..2 {
          let (p, l) = (pair.clone(), l.clone());
          fthread::spawn(move || {
            let mut g = p.1.wait_while(p.0.lock().unwrap(), |tokens| *tokens == 0).unwrap();
            *g -= 1;
            l.lock().unwrap().push(rt::thread_id());
          });
        }
        fthread::sleep(Duration::from_nanos(1)); // both are waiting now
        *pair.0.lock().unwrap() += 1;
        pair.1.notify_one();
      });
      check!(out.status == Status::Ok, "cv status {:?}", out.status);
      let got = snapshot(&log);
      check!(got.len() == 1 && out.live_threads.len() == 1 && out.live_threads[0].state.starts_with("WaitingCondvar"), "cv: woken {:?} live {:?}", got, out.live_threads);
      check!(out.live_threads[0].id != got[0], "woken thread also reported live");
      if !spurious {
        check!(out.choices.iter().filter(|c| c.n_enabled == 2 && !c.current_enabled && !c.chosen_is_current).count() >= 1, "notify_one decision not recorded");
      }
      woken.insert(got[0]);
    }
    check!(woken.len() == 2, "notify_one always woke the same waiter (spurious={}): {:?}", spurious, woken);
  }
  // d) writer-preference extension: recursive read with a writer queued in between
  let scenario = || {
    let l = Arc::new(fsync::RwLock::new(0));
    let l2 = l.clone();
    let r1 = l.read().unwrap();
    let h = fthread::spawn(move || {
      *l2.write().unwrap() += 1;
    });
    rt::yield_point("let the writer queue up");
    let r2 = l.read().unwrap();
    drop((r1, r2));
    h.join().unwrap();
  };
  let all_ok = (0..20).all(|seed| rt::run(Config { seed, ..Config::default() }, scenario).status == Status::Ok);
  rt::set_writer_preference(true);
  let some_deadlock = (0..20).any(|seed| matches!(rt::run(Config { seed, ..Config::default() }, scenario).status, Status::Deadlock(_)));
  rt::set_writer_preference(false);
  check!(all_ok && some_deadlock, "writer preference: default all ok = {}, with preference some deadlock = {}", all_ok, some_deadlock);
  // e) several subscribers on one Subject: HashMap iteration order is a function of the seed (replayable)
  let fanout = |seed: u64| {
    let log = new_log::<String>();
    let l = log.clone();
    let out = rt::run(Config { seed, ..Config::default() }, move || {
      let sbj = subjects::Subject::<i32>::new();
      for name in ["a", "b", "c", "d"] {
        let l = l.clone();
        sbj.observable().subscribe(move |x| l.lock().unwrap().push(format!("{}{}", name, x)), |_| {}, || {});
      }
      let s2 = sbj.clone();
      let h = fthread::spawn(move || s2.next(1));
      sbj.next(2);
      h.join().unwrap();
    });
    (out.choices, snapshot(&log))
  };
  let mut orders = BTreeSet::new();
  for seed in 0..20 {
    let (a, b) = (fanout(seed), fanout(seed));
    check!(a == b, "fan-out to 4 subscribers is not reproducible for seed {}: {:?} vs {:?}", seed, a.1, b.1);
    let mut first: Vec<_> = a.1.iter().filter(|x| x.ends_with('1')).cloned().collect();
    check!(first.len() == 4, "fan-out log {:?}", a.1);
    first.iter_mut().for_each(|x| x.truncate(1));
    orders.insert(first);
  }
  check!(orders.len() >= 2, "subscriber order does not vary with the seed");
  // f) trace
  let (out, _) = run_emitters(Config { trace: true, ..Config::default() }, 2, 1);
  check!(out.trace.iter().any(|l| l.contains("req-read") && l.contains("subject.rs")) && out.trace.iter().any(|l| l.contains("acquired")), "trace lacks events: {:?}", out.trace);
  Ok(format!("SelfDeadlock status, panic+poison, notify_one decision, lost notify, spurious wake-ups, writer preference, reproducible HashMap order ({} orders / 20 seeds), trace ({} lines)", orders.len(), out.trace.len()))
}

fn main() {
  // expected panics (tests 2 and 9b) would clutter the output
  std::panic::set_hook(Box::new(|info| {
    let msg = info.to_string();
    if !(msg.contains("VERIF_SELF_DEADLOCK") || msg.contains("boom")) {
      eprintln!("{}", msg);
    }
  }));
  let tests: Vec<(&str, fn() -> TestResult)> = vec![
    ("1 passive transparency", t1_passive_transparent),
    ("2 passive self-deadlock detection", t2_passive_self_deadlock),
    ("3 controlled determinism", t3_determinism),
    ("4 controlled exhaustive DFS", t4_dfs),
    ("5 controlled virtual time", t5_virtual_time),
    ("6 controlled deadlock / step limit", t6_deadlock_and_steplimit),
    ("7 controlled condvar (new_thread_scheduler)", t7_condvar_scheduler),
    ("8 2000 sequential runs", t8_many_runs),
    ("9 controlled misc (extras)", t9_controlled_misc),
  ];
  let only: Vec<String> = std::env::args().skip(1).collect();
  let mut failed = 0;
  for (name, f) in tests {
    if !only.is_empty() && !only.iter().any(|o| name.starts_with(o.as_str())) {
      continue;
    }
    let t0 = Instant::now();
    match f() {
      Ok(info) => println!("PASS {} [{:.2}s]: {}", name, t0.elapsed().as_secs_f64(), info),
      Err(e) => {
        failed += 1;
        println!("FAIL {} [{:.2}s]: {}", name, t0.elapsed().as_secs_f64(), e);
      }
    }
  }
  println!("{}", if failed == 0 { "SELFTEST OK".to_string() } else { format!("SELFTEST FAILED ({} tests)", failed) });
  std::process::exit(if failed == 0 { 0 } else { 1 });
}
