//! verif_facade: a drop-in `std` facade plus a deterministic scheduling runtime.
//!
//! The instrumented copy of the crate does `use crate::verif_facade as std;` in every non-test
//! module, so `std::sync::{RwLock, Mutex, Condvar}` and `std::thread::{spawn, sleep, JoinHandle}`
//! resolve to the types below; everything else is re-exported from the real `std`.
//!
//! Two modes, fixed per OS thread:
//!  * passive  (thread does not belong to an `rt::run`): real std primitives + a per-thread list of
//!    held facade locks, used only to turn a same-thread conflicting re-acquisition (which would
//!    hang or panic on std) into an immediate `VERIF_SELF_DEADLOCK` panic.
//!  * controlled (thread was created by `rt::run` / by `thread::spawn` from a controlled thread):
//!    real OS threads, but exactly one holds the "baton" at any time.  The runtime keeps the
//!    *logical* state of every lock/condvar/thread; the real std lock inside each facade lock is
//!    still taken (with `try_*`, it is always uncontended) so data access and poisoning are std's.
//!
//! Baton protocol (see `Runtime::schedule`): all logical state lives in one `Mutex<State>`.  The
//! running thread records what it wants to do next in `threads[me].state`, then -- still under the
//! state mutex -- computes the enabled set, lets the strategy pick, APPLIES the picked thread's
//! pending operation (lock grant etc.), releases the state mutex, sets the picked thread's private
//! `go` flag and parks on its own.  A `go` flag is a `Mutex<bool>` + `Condvar`, so a hand-off that
//! happens before the receiver has actually parked is not lost.  When a run ends, the thread that
//! noticed it wakes the caller of `run` and parks forever; every other unfinished thread is already
//! parked on a `go` flag that only its own (now dead) run could set.  Each run owns a fresh
//! `Runtime`, so leaked threads of earlier runs can never be woken by later runs.
#![allow(dead_code, unused_imports, unused_variables, unused_mut, unreachable_code)]

pub use ::std::*; // everything not declared below is plain std

// =====================================================================================================
pub mod rt {
  use ::std::cell::RefCell;
  use ::std::collections::HashMap;
  use ::std::panic::Location;
  use ::std::sync::atomic::{AtomicBool, AtomicU32, AtomicU64, Ordering::SeqCst};
  use ::std::sync::{Arc, Condvar, Mutex, MutexGuard};

  pub(super) type Site = &'static Location<'static>;
  pub(super) type Slot<T> = Arc<Mutex<Option<::std::thread::Result<T>>>>;

  // ------------------------------------------------------------------------------ public API types
  #[derive(Clone, Copy, Debug, PartialEq, Eq)]
  pub enum Strategy {
    Random,
    Pct { depth: u32 },
    RoundRobin,
    /// Same default policy as `RoundRobin` once `Config.replay` is exhausted; the harness drives the
    /// depth-first enumeration itself through `replay` + `Outcome.choices`.
    Dfs,
  }

  #[derive(Clone, Debug)]
  pub struct Config {
    pub seed: u64,
    pub strategy: Strategy,
    pub max_steps: u64,
    /// virtual nanoseconds
    pub max_virtual_time: u64,
    /// Forced prefix of decisions: `replay[i]` is the index taken at decision `i` (see `Choice`).
    pub replay: Vec<u32>,
    pub spurious_wakeups: bool,
    pub trace: bool,
    /// (extension) record, at every lock request, one edge (class of a lock the thread holds -> class of the
    /// lock it requests); a lock's class is its creation site.  See `Outcome.lock_edges`.
    pub lockdep: bool,
  }
  impl Default for Config {
    fn default() -> Self {
      Config {
        seed: 0,
        strategy: Strategy::Random,
        max_steps: 200_000,
        max_virtual_time: 3_600_000_000_000,
        replay: Vec::new(),
        spurious_wakeups: false,
        trace: false,
        lockdep: false,
      }
    }
  }

  #[derive(Clone, Debug, PartialEq, Eq)]
  pub enum Status {
    Ok,
    Deadlock(String),
    SelfDeadlock(String),
    StepLimit,
  }

  /// One decision.  Normally a scheduling step: `chosen` indexes the ascending list of enabled thread
  /// ids.  A `notify_one` with >= 2 waiters records one extra decision (index into the ascending list
  /// of waiter ids) with `current_enabled == chosen_is_current == false`.
  #[derive(Clone, Copy, Debug, PartialEq, Eq)]
  pub struct Choice {
    pub chosen: u32,
    pub n_enabled: u32,
    pub current_enabled: bool,
    pub chosen_is_current: bool,
  }

  #[derive(Clone, Debug, PartialEq, Eq)]
  pub struct ThreadInfo {
    pub id: u32,
    pub name: String,
    pub state: String,
  }

  #[derive(Clone, Debug)]
  pub struct Outcome {
    pub status: Status,
    pub choices: Vec<Choice>,
    /// number of decisions taken (== `choices.len()`)
    pub steps: u64,
    pub end_time: u64,
    pub time_limit_hit: bool,
    pub live_threads: Vec<ThreadInfo>,
    /// threads created by `thread::spawn`/`spawn_named` (main, id 0, not counted)
    pub threads_spawned: u32,
    pub panics: Vec<(u32, String)>,
    pub trace: Vec<String>,
    /// (extension, `Config.lockdep`) nested acquisitions seen in this run: ("site mode" held, its creation number in
    /// this run, "site mode" requested, its creation number)
    pub lock_edges: Vec<(String, u64, String, u64)>,
    /// (extension) a `Config.replay` entry was out of range for the decision it was applied to (it was
    /// then taken modulo n), or the run ended normally before the prefix was used up: the replayed
    /// program did not behave like the recorded one.
    pub replay_diverged: bool,
  }

  // ------------------------------------------------------------------------------------ internals
  #[derive(Clone, Copy, Debug, PartialEq, Eq)]
  pub(super) enum Mode {
    Read,
    Write,
    Mutex,
  }
  impl Mode {
    fn name(self) -> &'static str {
      match self {
        Mode::Read => "read",
        Mode::Write => "write",
        Mode::Mutex => "mutex",
      }
    }
  }

  /// Private "go" flag of one thread (also used for the caller of `run`).
  struct Parker {
    go: Mutex<bool>,
    cv: Condvar,
  }
  impl Parker {
    fn new() -> Arc<Parker> {
      Arc::new(Parker { go: Mutex::new(false), cv: Condvar::new() })
    }
    fn unpark(&self) {
      *self.go.lock().unwrap_or_else(|e| e.into_inner()) = true;
      self.cv.notify_one();
    }
    fn park(&self) {
      let mut g = self.go.lock().unwrap_or_else(|e| e.into_inner());
      while !*g {
        g = self.cv.wait(g).unwrap_or_else(|e| e.into_inner());
      }
      *g = false;
    }
  }

  #[derive(Clone, Copy)]
  enum TState {
    Runnable,
    /// wants `lock` in `mode`; enabled iff the acquisition would succeed now
    Lock { lock: u64, mode: Mode, site: Site },
    /// inside Condvar::wait; `mutex` is the (logically released) mutex to re-acquire on wake-up
    /// `until`: virtual deadline of a wait_timeout (None = plain wait)
    Cv { cv: u64, mutex: u64, site: Site, until: Option<u64> },
    Sleeping(u64),
    Join(u32),
    Finished,
  }

  struct Th {
    name: String,
    state: TState,
    parker: Arc<Parker>,
    prio: u64,
    spurious_left: u32,
    timed_out: bool,
    os: Option<::std::thread::JoinHandle<()>>,
  }

  struct LockSt {
    created: Site,
    writer: Option<(u32, Site)>, // RwLock writer or Mutex owner
    readers: Vec<(u32, Site)>,   // multiset: a thread may hold several read guards
  }

  struct State {
    threads: Vec<Th>,
    locks: HashMap<u64, LockSt>,
    now: u64,
    steps: u64,
    choices: Vec<Choice>,
    trace: Vec<String>,
    lock_edges: ::std::collections::BTreeSet<(String, u64, String, u64)>,
    panics: Vec<(u32, String)>,
    rng: u64,
    pct_points: Vec<u64>,
    pct_low: u64,
    scratch: Vec<u32>,
    done: Option<Status>,
    time_limit_hit: bool,
    replay_diverged: bool,
  }

  pub(super) struct Runtime {
    run_id: u64,
    cfg: Config,
    writer_pref: bool,
    st: Mutex<State>,
    caller: Arc<Parker>,
    next_lock: AtomicU32,
    next_map: AtomicU64,
    steps: AtomicU64, // mirrors of State.steps / State.now for lock-free reads
    now: AtomicU64,
  }

  static TRY_SEEN: ::std::sync::atomic::AtomicBool = ::std::sync::atomic::AtomicBool::new(false);
  static RUN_IDS: AtomicU64 = AtomicU64::new(0);
  static PASSIVE_IDS: AtomicU64 = AtomicU64::new(0);
  static WRITER_PREF: AtomicBool = AtomicBool::new(false);
  const PCT_LEN: usize = 1000;
  /// Budget of spurious wake-ups per thread and run.  Without a bound a waiter would stay enabled
  /// forever, virtual time could never advance and every run with a waiter would end in StepLimit.
  const SPURIOUS_PER_THREAD: u32 = 2;

  pub(super) struct Held {
    id: u64,
    mode: Mode,
    site: Site,
  }
  struct Tls {
    ctx: RefCell<Option<(Arc<Runtime>, u32)>>,
    held: RefCell<Vec<Held>>, // passive mode only
  }
  thread_local! {
    static TLS: Tls = const { Tls { ctx: RefCell::new(None), held: RefCell::new(Vec::new()) } };
  }

  /// Controlled-mode handle of the calling thread.  `None` in passive mode and also while the
  /// thread-local is being destroyed (`try_with` fails), which degrades to passive behaviour.
  pub(super) fn ctx() -> Option<(Arc<Runtime>, u32)> { TLS.try_with(|t| t.ctx.borrow().clone()).ok().flatten() }
  fn with_ctx<R>(f: impl FnOnce(Option<&(Arc<Runtime>, u32)>) -> R) -> R {
    let mut f = Some(f);
    match TLS.try_with(|t| (f.take().unwrap())(t.ctx.borrow().as_ref())) {
      Ok(r) => r,
      Err(_) => (f.take().unwrap())(None),
    }
  }

  fn splitmix(s: &mut u64) -> u64 {
    *s = s.wrapping_add(0x9E37_79B9_7F4A_7C15);
    let mut z = *s;
    z = (z ^ (z >> 30)).wrapping_mul(0xBF58_476D_1CE4_E5B9);
    z = (z ^ (z >> 27)).wrapping_mul(0x94D0_49BB_1331_11EB);
    z ^ (z >> 31)
  }
  fn below(s: &mut u64, n: usize) -> usize { (((splitmix(s) >> 32) * n as u64) >> 32) as usize }

  fn lock_name(run_id: u64, id: u64) -> String {
    let (r, n) = (id >> 32, id & 0xffff_ffff);
    if r == 0 {
      format!("G{}", n) // created in passive mode
    } else if r == run_id {
      format!("L{}", n)
    } else {
      format!("R{}.L{}", r, n)
    }
  }

  fn self_deadlock_msg(lock: String, created: Site, who: String, held: &str, held_at: Site, want: Mode, at: Site) -> String {
    format!(
      "VERIF_SELF_DEADLOCK lock {} (created at {}): {} already holds it in {} mode (acquired at {}) and requests {} mode at {}",
      lock, created, who, held, held_at, want.name(), at
    )
  }

  pub(super) fn payload_msg(p: &(dyn ::std::any::Any + Send)) -> String {
    if let Some(s) = p.downcast_ref::<&'static str>() {
      s.to_string()
    } else if let Some(s) = p.downcast_ref::<String>() {
      s.clone()
    } else {
      "<non-string panic payload>".to_string()
    }
  }

  /// Unique id for a new lock/condvar: per-run creation order in controlled mode, global otherwise.
  pub(super) fn new_id() -> u64 {
    with_ctx(|c| match c {
      Some((rt, _)) => (rt.run_id << 32) | (rt.next_lock.fetch_add(1, SeqCst) as u64 + 1),
      None => (PASSIVE_IDS.fetch_add(1, SeqCst) + 1) & 0xffff_ffff,
    })
  }

  /// Hash key for a new facade `collections::HashMap`: a function of (seed, creation index) inside a
  /// run, constant in passive mode -- iteration order is reproducible, never RandomState's.
  pub(super) fn map_key() -> u64 {
    with_ctx(|c| match c {
      Some((rt, _)) => {
        let mut s = rt.cfg.seed ^ rt.next_map.fetch_add(1, SeqCst).wrapping_mul(0xA24B_AED4_963E_E407);
        splitmix(&mut s)
      }
      None => 0,
    })
  }

  // ------------------------------------------------------------------ acquire / release (both modes)
  /// Token stored in every guard; dropping it performs the logical release.  It never blocks and
  /// never enters the scheduler, so it is safe during unwinding.
  pub(super) struct Release {
    pub(super) id: u64,
    mode: Mode,
    pub(super) ctl: Option<(Arc<Runtime>, u32)>,
  }
  impl Drop for Release {
    fn drop(&mut self) {
      match &self.ctl {
        Some((rt, tid)) => rt.release(*tid, self.id, self.mode),
        None => {
          let (id, mode) = (self.id, self.mode);
          let _ = TLS.try_with(|t| {
            if let Ok(mut h) = t.held.try_borrow_mut() {
              if let Some(i) = h.iter().rposition(|e| e.id == id && e.mode == mode) {
                h.swap_remove(i);
              }
            }
          });
        }
      }
    }
  }

  /// Logical acquisition.  Passive: self-deadlock check + bookkeeping (the caller then takes the real
  /// lock, blocking).  Controlled: scheduling point; returns once the lock has been granted logically
  /// (the caller then takes the real lock with `try_*`).
  pub(super) fn acquire(id: u64, created: Site, mode: Mode, site: Site) -> Release {
    match ctx() {
      Some((rt, tid)) => {
        rt.ctl_acquire(tid, id, created, mode, site);
        Release { id, mode, ctl: Some((rt, tid)) }
      }
      None => {
        let _ = TLS.try_with(|t| {
          let mut h = t.held.borrow_mut();
          if let Some(e) = h.iter().find(|e| e.id == id && (mode != Mode::Read || e.mode != Mode::Read)) {
            let msg = self_deadlock_msg(lock_name(0, id), created, "this thread".into(), e.mode.name(), e.site, mode, site);
            drop(h);
            panic!("{}", msg);
          }
          h.push(Held { id, mode, site });
        });
        Release { id, mode, ctl: None }
      }
    }
  }

  /// Some(release) iff the logical lock was granted (controlled) / None in passive mode: the caller uses the real try_*.
  pub(super) fn try_acquire(id: u64, created: Site, mode: Mode, site: Site) -> Option<Option<Release>> {
    match ctx() {
      Some((rt, tid)) => {
        if rt.ctl_try_acquire(tid, id, created, mode, site) {
          Some(Some(Release { id, mode, ctl: Some((rt, tid)) }))
        } else {
          Some(None)
        }
      }
      None => None,
    }
  }
  pub(super) fn passive_release(id: u64, mode: Mode, site: Site) -> Release {
    let _ = TLS.try_with(|t| t.held.borrow_mut().push(Held { id, mode, site }));
    Release { id, mode, ctl: None }
  }

  /// The real lock was not free although the logical state said so: it is held by a thread outside
  /// this run (passive thread or leaked thread of an earlier run).  Not modelled -> loud failure.
  pub(super) fn foreign(rel: Release, site: Site) -> ! {
    let id = rel.id;
    drop(rel);
    panic!("VERIF_FOREIGN_LOCK lock id {:#x} requested at {} is really held by a thread outside the current run", id, site);
  }

  impl Runtime {
    fn lock(&self) -> MutexGuard<'_, State> { self.st.lock().unwrap_or_else(|e| e.into_inner()) }
    fn lname(&self, id: u64) -> String { lock_name(self.run_id, id) }
    fn tr(&self, st: &mut State, tid: u32, op: &str, obj: Option<u64>, site: Option<Site>) {
      if self.cfg.trace {
        let o = obj.map(|i| self.lname(i)).unwrap_or_else(|| "-".into());
        let s = site.map(|s| s.to_string()).unwrap_or_else(|| "-".into());
        let line = format!("{:>6} t{} {} {} {} now={}", st.steps, tid, op, o, s, st.now);
        st.trace.push(line);
      }
    }

    fn can_acquire(&self, st: &State, lock: u64, mode: Mode) -> bool {
      match st.locks.get(&lock) {
        None => true,
        Some(l) => match mode {
          // Optional model of std's writer-preferring futex RwLock: a new reader is refused while a
          // writer is blocked behind existing readers.  Off by default (spec: no fairness assumed).
          Mode::Read => {
            l.writer.is_none()
              && !(self.writer_pref
                && !l.readers.is_empty()
                && st.threads.iter().any(|t| matches!(t.state, TState::Lock { lock: k, mode: Mode::Write, .. } if k == lock)))
          }
          _ => l.writer.is_none() && l.readers.is_empty(),
        },
      }
    }
    fn is_enabled(&self, st: &State, t: &Th) -> bool {
      match t.state {
        TState::Runnable => true,
        TState::Lock { lock, mode, .. } => self.can_acquire(st, lock, mode),
        TState::Cv { .. } => self.cfg.spurious_wakeups && t.spurious_left > 0,
        TState::Sleeping(_) => false,
        TState::Join(x) => matches!(st.threads[x as usize].state, TState::Finished),
        TState::Finished => false,
      }
    }

    fn state_desc(&self, st: &State, t: &Th) -> String {
      match t.state {
        TState::Runnable => "Runnable".into(),
        TState::Lock { lock, mode, site } => {
          let mut s = format!("BlockedOnLock({} {}) at {}", self.lname(lock), mode.name(), site);
          if let Some(l) = st.locks.get(&lock) {
            s += &format!(" [lock created at {}]", l.created);
            if let Some((w, ws)) = l.writer {
              s += &format!("; exclusively held by t{} since {}", w, ws);
            }
            for (r, rs) in &l.readers {
              s += &format!("; read-held by t{} since {}", r, rs);
            }
          }
          s
        }
        TState::Cv { cv, mutex, site, .. } => format!("WaitingCondvar(cv {} mutex {}) at {}", self.lname(cv), self.lname(mutex), site),
        TState::Sleeping(u) => format!("Sleeping(until {}ns)", u),
        TState::Join(x) => format!("BlockedOnJoin(t{})", x),
        TState::Finished => "Finished".into(),
      }
    }
    fn live(&self, st: &State) -> Vec<ThreadInfo> {
      let mut v = Vec::new();
      for (i, t) in st.threads.iter().enumerate() {
        if !matches!(t.state, TState::Finished) {
          v.push(ThreadInfo { id: i as u32, name: t.name.clone(), state: self.state_desc(st, t) });
        }
      }
      v
    }
    fn describe(&self, st: &State) -> String {
      let mut s = String::new();
      for ti in self.live(st) {
        s += &format!("t{} '{}': {}", ti.id, ti.name, ti.state);
        let mut held = Vec::new();
        for (id, l) in &st.locks {
          if let Some((w, ws)) = l.writer {
            if w == ti.id {
              held.push((*id, format!("{}(exclusive)@{}", self.lname(*id), ws)));
            }
          }
          for (r, rs) in &l.readers {
            if *r == ti.id {
              held.push((*id, format!("{}(read)@{}", self.lname(*id), rs)));
            }
          }
        }
        held.sort();
        if !held.is_empty() {
          s += &format!("; holds {}", held.into_iter().map(|h| h.1).collect::<Vec<_>>().join(", "));
        }
        s.push('\n');
      }
      s
    }

    /// Records one decision among `n` alternatives.  `cur` = position of the current thread among
    /// the alternatives (scheduling decisions only).  `policy` is consulted after the replay prefix.
    fn decide(&self, st: &mut State, n: usize, cur: Option<usize>, policy: impl FnOnce(&mut State) -> usize) -> usize {
      let i = st.steps as usize;
      let idx = if i < self.cfg.replay.len() {
        let r = self.cfg.replay[i] as usize;
        if r >= n {
          st.replay_diverged = true;
        }
        r % n
      } else {
        policy(st)
      };
      st.choices.push(Choice { chosen: idx as u32, n_enabled: n as u32, current_enabled: cur.is_some(), chosen_is_current: cur == Some(idx) });
      st.steps += 1;
      self.steps.store(st.steps, SeqCst);
      idx
    }

    /// Ends the run: publishes the status, wakes the caller of `run`.  If `me` still has crate code
    /// on its stack it parks forever here (it must never run again); a finishing thread returns and
    /// lets its OS thread exit.  Everybody else is already parked and nobody is left to wake them.
    fn stop(&self, mut st: MutexGuard<'_, State>, me: u32, status: Status) {
      st.done = Some(status);
      let finished = matches!(st.threads[me as usize].state, TState::Finished);
      drop(st);
      self.caller.unpark();
      if !finished {
        loop {
          ::std::thread::park();
        }
      }
    }

    /// Scheduling point.  Precondition: caller is the running thread, holds the state mutex and has
    /// stored its pending operation in `threads[me].state`.  Returns when `me` has been chosen and
    /// its pending operation applied (never, if the run ends first and `me` is not finished;
    /// immediately after the hand-off, if `me` is finished).
    fn schedule(&self, mut st: MutexGuard<'_, State>, me: u32) {
      loop {
        let mut en = ::std::mem::take(&mut st.scratch);
        en.clear();
        for (i, t) in st.threads.iter().enumerate() {
          if self.is_enabled(&st, t) {
            en.push(i as u32);
          }
        }
        if en.is_empty() {
          st.scratch = en;
          // Nobody can run: the only thing that can happen is the passage of (virtual) time.
          let tmin = st
            .threads
            .iter()
            .filter_map(|t| match t.state {
              TState::Sleeping(u) => Some(u),
              TState::Cv { until: Some(u), .. } => Some(u),
              _ => None,
            })
            .min();
          if let Some(tmin) = tmin {
            if tmin > self.cfg.max_virtual_time {
              st.time_limit_hit = true;
              return self.stop(st, me, Status::Ok);
            }
            st.now = tmin;
            self.now.store(tmin, SeqCst);
            for i in 0..st.threads.len() {
              if matches!(st.threads[i].state, TState::Sleeping(u) if u == tmin) {
                st.threads[i].state = TState::Runnable;
                self.tr(&mut st, i as u32, "wake", None, None);
              }
              if let TState::Cv { mutex, site, until: Some(u), .. } = st.threads[i].state {
                if u == tmin {
                  // the timed wait is over: leave the condvar and contend for the mutex
                  st.threads[i].state = TState::Lock { lock: mutex, mode: Mode::Mutex, site };
                  st.threads[i].timed_out = true;
                  self.tr(&mut st, i as u32, "wait-timeout", None, None);
                }
              }
            }
            continue;
          }
          // Permanently stuck.  Only condvar waiters left and main done => normal quiescence.
          let stuck = st.threads.iter().any(|t| matches!(t.state, TState::Lock { .. } | TState::Join(_)));
          let main_live = !matches!(st.threads[0].state, TState::Finished);
          let status = if stuck || main_live { Status::Deadlock(self.describe(&st)) } else { Status::Ok };
          return self.stop(st, me, status);
        }

        if st.steps >= self.cfg.max_steps {
          st.scratch = en;
          return self.stop(st, me, Status::StepLimit);
        }
        let cur = en.iter().position(|&t| t == me);
        let idx = self.decide(&mut st, en.len(), cur, |st| match self.cfg.strategy {
          Strategy::Random => {
            if en.len() == 1 {
              0
            } else {
              below(&mut st.rng, en.len())
            }
          }
          Strategy::RoundRobin | Strategy::Dfs => cur.unwrap_or(0),
          Strategy::Pct { .. } => {
            // st.steps is the 0-based index of this decision; change points are 1-based.
            if st.pct_points.contains(&(st.steps + 1)) && !matches!(st.threads[me as usize].state, TState::Finished) {
              st.pct_low -= 1;
              st.threads[me as usize].prio = st.pct_low;
            }
            let mut best = 0;
            for (k, &t) in en.iter().enumerate() {
              if st.threads[t as usize].prio > st.threads[en[best] as usize].prio {
                best = k;
              }
            }
            best
          }
        });
        let t = en[idx];
        st.scratch = en;
        let ti = t as usize;

        // Apply the pending operation of the chosen thread.
        if let TState::Cv { mutex, site, .. } = st.threads[ti].state {
          // only reachable with cfg.spurious_wakeups: the waiter leaves the condvar and contends for
          // its mutex; if the mutex is taken that was the whole step.
          st.threads[ti].state = TState::Lock { lock: mutex, mode: Mode::Mutex, site };
          st.threads[ti].spurious_left -= 1;
          self.tr(&mut st, t, "spurious-wake", Some(mutex), Some(site));
        }
        if let TState::Lock { lock, mode, site } = st.threads[ti].state {
          if !self.can_acquire(&st, lock, mode) {
            continue;
          }
          if let Some(l) = st.locks.get_mut(&lock) {
            match mode {
              Mode::Read => l.readers.push((t, site)),
              _ => l.writer = Some((t, site)),
            }
          }
          self.tr(&mut st, t, "acquired", Some(lock), Some(site));
        }
        st.threads[ti].state = TState::Runnable;
        if t == me {
          return;
        }
        // Hand the baton over.  After dropping `st` this thread touches nothing but its own parker.
        let next = st.threads[ti].parker.clone();
        let mine = st.threads[me as usize].parker.clone();
        let me_finished = matches!(st.threads[me as usize].state, TState::Finished);
        drop(st);
        next.unpark();
        if !me_finished {
          mine.park();
        }
        return;
      }
    }

    fn ctl_acquire(&self, me: u32, id: u64, created: Site, mode: Mode, site: Site) {
      let mut st = self.lock();
      self.tr(&mut st, me, if mode == Mode::Read { "req-read" } else if mode == Mode::Write { "req-write" } else { "req-lock" }, Some(id), Some(site));
      st.threads[me as usize].state = TState::Lock { lock: id, mode, site };
      if self.cfg.lockdep {
        let want = format!("{} {}", created, mode.name());
        let held: Vec<(String, u64)> = st
          .locks
          .iter()
          .filter(|(k, _)| **k != id)
          .flat_map(|(k, l)| {
            let mut v = Vec::new();
            if matches!(l.writer, Some((w, _)) if w == me) {
              v.push((format!("{} exclusive", l.created), *k & 0xffff_ffff));
            }
            if l.readers.iter().any(|r| r.0 == me) {
              v.push((format!("{} read", l.created), *k & 0xffff_ffff));
            }
            v
          })
          .collect();
        for (h, hid) in held {
          st.lock_edges.insert((h, hid, want.clone(), id & 0xffff_ffff));
        }
      }
      let l = st.locks.entry(id).or_insert_with(|| LockSt { created, writer: None, readers: Vec::new() });
      let mut conflict = l.writer.filter(|w| w.0 == me).map(|w| (w.1, "exclusive"));
      if mode != Mode::Read && conflict.is_none() {
        conflict = l.readers.iter().find(|r| r.0 == me).map(|r| (r.1, "read"));
      }
      if let Some((held_at, held)) = conflict {
        let who = format!("thread t{} '{}'", me, st.threads[me as usize].name);
        let msg = self_deadlock_msg(self.lname(id), created, who, held, held_at, mode, site);
        self.tr(&mut st, me, "SELF-DEADLOCK", Some(id), Some(site));
        return self.stop(st, me, Status::SelfDeadlock(msg));
      }
      self.schedule(st, me);
    }

    /// Logical release; not a scheduling point (blocked threads simply become enabled).
    fn release(&self, me: u32, id: u64, mode: Mode) {
      // A release is invisible to blocking acquisitions (switching threads only before acquisitions loses no behaviour),
      // but try_read / try_write / try_lock OBSERVE whether a lock is held: once the program under test has used one of
      // them, a thread may be descheduled while it still holds the lock - a scheduling point just BEFORE the logical release.
      {
        let mut st = self.lock();
        if TRY_SEEN.load(SeqCst) && !::std::thread::panicking() && !matches!(st.threads[me as usize].state, TState::Finished) && st.done.is_none() {
          self.tr(&mut st, me, "pre-release", Some(id), None);
          self.schedule(st, me);
        }
      }
      let mut st = self.lock();
      if let Some(l) = st.locks.get_mut(&id) {
        match mode {
          Mode::Read => {
            if let Some(i) = l.readers.iter().rposition(|r| r.0 == me) {
              l.readers.remove(i);
            }
          }
          _ => {
            if matches!(l.writer, Some((w, _)) if w == me) {
              l.writer = None;
            }
          }
        }
      }
      self.tr(&mut st, me, "release", Some(id), None);
      // ... and one just after it (the lock is observably free before the releasing thread goes on)
      if TRY_SEEN.load(SeqCst) && !::std::thread::panicking() && !matches!(st.threads[me as usize].state, TState::Finished) && st.done.is_none() {
        self.schedule(st, me);
      }
    }

    /// Condvar::wait: atomically release `mutex` and wait; returns with `mutex` granted again.
    pub(super) fn cv_wait(&self, me: u32, cv: u64, mutex: u64, site: Site) {
      let mut st = self.lock();
      if let Some(l) = st.locks.get_mut(&mutex) {
        l.writer = None;
      }
      st.threads[me as usize].state = TState::Cv { cv, mutex, site, until: None };
      self.tr(&mut st, me, "cv-wait", Some(cv), Some(site));
      self.schedule(st, me);
    }

    /// Condvar::wait_timeout: as cv_wait, but the waiter also leaves when virtual time reaches now + nanos;
    /// returns whether it left because of the timeout.
    pub(super) fn cv_wait_timeout(&self, me: u32, cv: u64, mutex: u64, nanos: u64, site: Site) -> bool {
      {
        let mut st = self.lock();
        if let Some(l) = st.locks.get_mut(&mutex) {
          l.writer = None;
        }
        let until = st.now.saturating_add(nanos);
        st.threads[me as usize].timed_out = false;
        st.threads[me as usize].state = TState::Cv { cv, mutex, site, until: Some(until) };
        self.tr(&mut st, me, "cv-wait-timeout", Some(cv), Some(site));
        self.schedule(st, me);
      }
      let st = self.lock();
      st.threads[me as usize].timed_out
    }

    pub(super) fn cv_notify(&self, me: u32, cv: u64, all: bool, site: Site) {
      let mut st = self.lock();
      let mut waiters: Vec<u32> = Vec::new();
      for (i, t) in st.threads.iter().enumerate() {
        if matches!(t.state, TState::Cv { cv: c, .. } if c == cv) {
          waiters.push(i as u32);
        }
      }
      self.tr(&mut st, me, if all { "notify-all" } else { "notify-one" }, Some(cv), Some(site));
      if !all && waiters.len() > 1 {
        if st.steps >= self.cfg.max_steps {
          return self.stop(st, me, Status::StepLimit);
        }
        let n = waiters.len();
        let strategy = self.cfg.strategy;
        let k = self.decide(&mut st, n, None, |st| match strategy {
          Strategy::Random | Strategy::Pct { .. } => below(&mut st.rng, n),
          _ => 0,
        });
        waiters = vec![waiters[k]];
      }
      for w in waiters {
        if let TState::Cv { mutex, site: ws, .. } = st.threads[w as usize].state {
          st.threads[w as usize].state = TState::Lock { lock: mutex, mode: Mode::Mutex, site: ws };
          self.tr(&mut st, w, "notified", Some(cv), None);
        }
      }
      self.schedule(st, me); // `me` stays Runnable
    }

    /// try_read / try_write / try_lock: a scheduling point, then the attempt; never blocks.
    pub(super) fn ctl_try_acquire(&self, me: u32, id: u64, created: Site, mode: Mode, site: Site) -> bool {
      TRY_SEEN.store(true, SeqCst);
      {
        let mut st = self.lock();
        self.tr(&mut st, me, "try-acquire", Some(id), Some(site));
        st.locks.entry(id).or_insert_with(|| LockSt { created, writer: None, readers: Vec::new() });
        self.schedule(st, me);
      }
      let mut st = self.lock();
      let mine = st.locks.get(&id).map_or(false, |l| {
        matches!(l.writer, Some((w, _)) if w == me) || (mode != Mode::Read && l.readers.iter().any(|r| r.0 == me))
      });
      let ok = !mine && self.can_acquire(&st, id, mode);
      if ok {
        if let Some(l) = st.locks.get_mut(&id) {
          match mode {
            Mode::Read => l.readers.push((me, site)),
            _ => l.writer = Some((me, site)),
          }
        }
      }
      self.tr(&mut st, me, if ok { "try-ok" } else { "try-would-block" }, Some(id), Some(site));
      ok
    }

    pub(super) fn yield_now(&self, me: u32, label: &str) {
      let mut st = self.lock();
      self.tr(&mut st, me, label, None, None);
      self.schedule(st, me);
    }

    pub(super) fn sleep(&self, me: u32, nanos: u64, site: Site) {
      let mut st = self.lock();
      if nanos > 0 {
        let until = st.now.saturating_add(nanos);
        st.threads[me as usize].state = TState::Sleeping(until);
      }
      self.tr(&mut st, me, "sleep", None, Some(site));
      self.schedule(st, me);
    }

    pub(super) fn join(self: &Arc<Self>, target: u32, site: Site) {
      match ctx() {
        Some((r, me)) if Arc::ptr_eq(&r, self) => {
          let mut st = self.lock();
          st.threads[me as usize].state = TState::Join(target);
          self.tr(&mut st, me, &format!("join-t{}", target), None, Some(site));
          self.schedule(st, me);
        }
        _ => {
          let fin = matches!(self.lock().threads[target as usize].state, TState::Finished);
          assert!(fin, "VERIF: JoinHandle of a controlled thread joined from outside its run before the thread finished");
        }
      }
    }

    /// Registers a new controlled thread (Runnable) and starts its OS thread, which immediately parks
    /// until the scheduler picks it for the first time.
    fn register<F, T>(self: &Arc<Self>, st: &mut State, name: Option<&str>, f: F) -> (u32, Slot<T>, ::std::thread::Thread)
    where
      F: FnOnce() -> T + Send + 'static,
      T: Send + 'static,
    {
      let tid = st.threads.len() as u32;
      let parker = Parker::new();
      // PCT: random distinct initial priorities, all above every lowered priority (pct_low counts down)
      let prio = if let Strategy::Pct { .. } = self.cfg.strategy { (splitmix(&mut st.rng) | (1 << 63)) & !0xffff | tid as u64 } else { 0 };
      let slot: Slot<T> = Arc::new(Mutex::new(None));
      let (rt, p, slot2) = (self.clone(), parker.clone(), slot.clone());
      let os = ::std::thread::Builder::new()
        .name(format!("verif-r{}-t{}", self.run_id, tid))
        .spawn(move || {
          let _ = TLS.try_with(|t| *t.ctx.borrow_mut() = Some((rt.clone(), tid)));
          p.park(); // first baton
          let r = ::std::panic::catch_unwind(::std::panic::AssertUnwindSafe(f));
          let msg = r.as_ref().err().map(|e| payload_msg(&**e));
          // The result must not be dropped by this thread after it gave the baton away: store it for
          // the JoinHandle, or drop it right now if the handle is already gone.
          *slot2.lock().unwrap_or_else(|e| e.into_inner()) = Some(r);
          if Arc::strong_count(&slot2) == 1 {
            let v = slot2.lock().unwrap_or_else(|e| e.into_inner()).take();
            let _ = ::std::panic::catch_unwind(::std::panic::AssertUnwindSafe(move || drop(v)));
          }
          drop(slot2);
          rt.thread_exit(tid, msg);
          let _ = TLS.try_with(|t| *t.ctx.borrow_mut() = None);
        })
        .expect("VERIF: cannot spawn OS thread");
      let thread = os.thread().clone();
      let name = name.map(|s| s.to_string()).unwrap_or_else(|| format!("t{}", tid));
      st.threads.push(Th { name, state: TState::Runnable, parker, prio, spurious_left: SPURIOUS_PER_THREAD, timed_out: false, os: Some(os) });
      (tid, slot, thread)
    }

    fn thread_exit(&self, me: u32, panic_msg: Option<String>) {
      let mut st = self.lock();
      st.threads[me as usize].state = TState::Finished;
      self.tr(&mut st, me, if panic_msg.is_some() { "exit-panic" } else { "exit" }, None, None);
      if let Some(m) = panic_msg {
        st.panics.push((me, m.clone()));
        if m.starts_with("VERIF_SELF_DEADLOCK") {
          return self.stop(st, me, Status::SelfDeadlock(m));
        }
      }
      self.schedule(st, me);
    }
  }

  pub(super) fn spawn_ctl<F, T>(rt: &Arc<Runtime>, me: u32, name: Option<&str>, f: F, site: Site) -> (u32, Slot<T>, ::std::thread::Thread)
  where
    F: FnOnce() -> T + Send + 'static,
    T: Send + 'static,
  {
    let mut st = rt.lock();
    let r = rt.register(&mut st, name, f);
    rt.tr(&mut st, me, &format!("spawn-t{}", r.0), None, Some(site));
    rt.schedule(st, me); // parent stays Runnable
    r
  }

  // ---------------------------------------------------------------------------------- public API
  /// Runs `main` as controlled thread 0 on a fresh OS thread; blocks until the run is over.
  pub fn run<F: FnOnce() + Send + 'static>(cfg: Config, main: F) -> Outcome {
    assert!(!active(), "VERIF: rt::run must not be called from a controlled thread");
    let run_id = RUN_IDS.fetch_add(1, SeqCst) + 1;
    let mut rng = cfg.seed ^ 0xD1B5_4A32_D192_ED03;
    let mut pct_points = Vec::new();
    if let Strategy::Pct { depth } = cfg.strategy {
      for _ in 1..depth {
        pct_points.push(1 + below(&mut rng, PCT_LEN) as u64);
      }
    }
    let state = State {
      threads: Vec::new(),
      locks: HashMap::new(),
      now: 0,
      steps: 0,
      choices: Vec::new(),
      trace: Vec::new(),
      lock_edges: ::std::collections::BTreeSet::new(),
      panics: Vec::new(),
      rng,
      pct_points,
      pct_low: 1 << 32,
      scratch: Vec::new(),
      done: None,
      time_limit_hit: false,
      replay_diverged: false,
    };
    let rt = Arc::new(Runtime {
      run_id,
      cfg,
      writer_pref: WRITER_PREF.load(SeqCst),
      st: Mutex::new(state),
      caller: Parker::new(),
      next_lock: AtomicU32::new(0),
      next_map: AtomicU64::new(0),
      steps: AtomicU64::new(0),
      now: AtomicU64::new(0),
    });
    let first = {
      let mut st = rt.lock();
      let _ = rt.register(&mut st, Some("main"), main);
      st.threads[0].parker.clone()
    };
    first.unpark();
    rt.caller.park();

    let mut st = rt.lock();
    let status = st.done.take().unwrap_or(Status::Ok);
    let status_is_ok = status == Status::Ok; // a replay prefix longer than a run that ended normally = divergence
    let live_threads = rt.live(&st);
    // Finished threads are past their last scheduling point: their OS threads exit promptly; reap them
    // so that sequences of runs do not accumulate threads.  Unfinished ones stay parked forever.
    let mut reap = Vec::new();
    for t in st.threads.iter_mut() {
      if matches!(t.state, TState::Finished) {
        reap.extend(t.os.take());
      }
    }
    let out = Outcome {
      status,
      choices: ::std::mem::take(&mut st.choices),
      steps: st.steps,
      end_time: st.now,
      time_limit_hit: st.time_limit_hit,
      live_threads,
      threads_spawned: st.threads.len() as u32 - 1,
      panics: ::std::mem::take(&mut st.panics),
      trace: ::std::mem::take(&mut st.trace),
      lock_edges: ::std::mem::take(&mut st.lock_edges).into_iter().collect(),
      replay_diverged: st.replay_diverged || (rt.cfg.replay.len() as u64 > st.steps && status_is_ok),
    };
    drop(st);
    for h in reap {
      let _ = h.join();
    }
    out
  }

  pub fn active() -> bool { with_ctx(|c| c.is_some()) }
  pub fn thread_id() -> u32 { with_ctx(|c| c.map(|c| c.1).unwrap_or(u32::MAX)) }
  pub fn now() -> u64 { with_ctx(|c| c.map(|c| c.0.now.load(SeqCst)).unwrap_or(0)) }
  pub fn step() -> u64 { with_ctx(|c| c.map(|c| c.0.steps.load(SeqCst)).unwrap_or(0)) }
  pub fn yield_point(label: &'static str) {
    if let Some((rt, me)) = ctx() {
      rt.yield_now(me, label);
    }
  }
  pub fn set_thread_name(name: &str) {
    if let Some((rt, me)) = ctx() {
      rt.lock().threads[me as usize].name = name.to_string();
    }
  }
  #[track_caller]
  pub fn spawn_named<F: FnOnce() + Send + 'static>(name: &str, f: F) -> super::thread::JoinHandle<()> {
    super::thread::spawn_impl(Some(name), f, Location::caller())
  }
  /// (extension, process-global, sampled at the start of each run) model std's writer-preferring
  /// RwLock: a read request is refused while a writer is blocked behind existing readers, so a
  /// recursive read with a writer queued in between is reported as `Deadlock`.  Default: false.
  pub fn set_writer_preference(on: bool) { WRITER_PREF.store(on, SeqCst); }
}

// =====================================================================================================
pub mod collections {
  //! `HashMap` with a reproducible hasher.  std's `RandomState` draws fresh random keys per thread, so
  //! the iteration order of e.g. `Subject.observers` would differ between two runs of the same schedule
  //! and break replay.  Here the hash key is a function of (Config.seed, creation index in the run), or a
  //! constant in passive mode.  Everything else goes through Deref to the real std map.
  pub use ::std::collections::*;
  use ::std::collections::HashMap as StdMap;
  use ::std::hash::{BuildHasher, DefaultHasher, Hash, Hasher};
  use ::std::ops::{Deref, DerefMut};

  #[derive(Clone, Copy, Debug, Default)]
  pub struct VerifState(u64);
  impl BuildHasher for VerifState {
    type Hasher = DefaultHasher;
    fn build_hasher(&self) -> DefaultHasher {
      let mut h = DefaultHasher::new(); // fixed SipHash keys
      h.write_u64(self.0);
      h
    }
  }

  pub struct HashMap<K, V>(StdMap<K, V, VerifState>);
  impl<K, V> HashMap<K, V> {
    pub fn new() -> Self { HashMap(StdMap::with_hasher(VerifState(super::rt::map_key()))) }
    pub fn with_capacity(n: usize) -> Self { HashMap(StdMap::with_capacity_and_hasher(n, VerifState(super::rt::map_key()))) }
  }
  impl<K, V> Deref for HashMap<K, V> {
    type Target = StdMap<K, V, VerifState>;
    fn deref(&self) -> &Self::Target { &self.0 }
  }
  impl<K, V> DerefMut for HashMap<K, V> {
    fn deref_mut(&mut self) -> &mut Self::Target { &mut self.0 }
  }
  impl<K, V> Default for HashMap<K, V> {
    fn default() -> Self { Self::new() }
  }
  impl<K: Clone, V: Clone> Clone for HashMap<K, V> {
    fn clone(&self) -> Self { HashMap(self.0.clone()) }
  }
  impl<K: ::std::fmt::Debug, V: ::std::fmt::Debug> ::std::fmt::Debug for HashMap<K, V> {
    fn fmt(&self, f: &mut ::std::fmt::Formatter<'_>) -> ::std::fmt::Result { self.0.fmt(f) }
  }
  impl<K: Eq + Hash, V: PartialEq> PartialEq for HashMap<K, V> {
    fn eq(&self, o: &Self) -> bool { self.0 == o.0 }
  }
  impl<K: Eq + Hash, V: Eq> Eq for HashMap<K, V> {}
  impl<K: Eq + Hash, V> FromIterator<(K, V)> for HashMap<K, V> {
    fn from_iter<I: IntoIterator<Item = (K, V)>>(it: I) -> Self {
      let mut m = Self::new();
      m.0.extend(it);
      m
    }
  }
  impl<K: Eq + Hash, V> Extend<(K, V)> for HashMap<K, V> {
    fn extend<I: IntoIterator<Item = (K, V)>>(&mut self, it: I) { self.0.extend(it) }
  }
  impl<K: Eq + Hash, V, const N: usize> From<[(K, V); N]> for HashMap<K, V> {
    fn from(a: [(K, V); N]) -> Self { a.into_iter().collect() }
  }
  impl<K, V> IntoIterator for HashMap<K, V> {
    type Item = (K, V);
    type IntoIter = ::std::collections::hash_map::IntoIter<K, V>;
    fn into_iter(self) -> Self::IntoIter { self.0.into_iter() }
  }
  impl<'a, K, V> IntoIterator for &'a HashMap<K, V> {
    type Item = (&'a K, &'a V);
    type IntoIter = ::std::collections::hash_map::Iter<'a, K, V>;
    fn into_iter(self) -> Self::IntoIter { self.0.iter() }
  }
  impl<'a, K, V> IntoIterator for &'a mut HashMap<K, V> {
    type Item = (&'a K, &'a mut V);
    type IntoIter = ::std::collections::hash_map::IterMut<'a, K, V>;
    fn into_iter(self) -> Self::IntoIter { self.0.iter_mut() }
  }
}

// =====================================================================================================
pub mod sync {
  pub use ::std::sync::*; // Arc, Weak, atomic, mpsc, PoisonError, LockResult, ... stay std

  use super::rt::{self, Mode, Release, Site};
  use ::std::fmt;
  use ::std::ops::{Deref, DerefMut};
  use ::std::panic::Location;
  use ::std::sync as ss;

  fn wrap<G, F>(r: ss::LockResult<G>, mk: impl FnOnce(G) -> F) -> ss::LockResult<F> {
    match r {
      Ok(g) => Ok(mk(g)),
      Err(p) => Err(ss::PoisonError::new(mk(p.into_inner()))),
    }
  }
  /// Controlled mode: the logical grant guarantees that the real lock is free.
  fn wrap_try<G, F>(r: ss::TryLockResult<G>, rel: Release, site: Site, mk: impl FnOnce(G, Release) -> F) -> ss::LockResult<F> {
    match r {
      Ok(g) => Ok(mk(g, rel)),
      Err(ss::TryLockError::Poisoned(p)) => Err(ss::PoisonError::new(mk(p.into_inner(), rel))),
      Err(ss::TryLockError::WouldBlock) => rt::foreign(rel, site),
    }
  }

  // -------------------------------------------------------------------------------------- RwLock
  pub struct RwLock<T: ?Sized> {
    id: u64,
    site: Site,
    inner: ss::RwLock<T>,
  }
  // field order matters: the real guard is dropped (real unlock) before the logical release
  pub struct RwLockReadGuard<'a, T: ?Sized + 'a> {
    inner: ss::RwLockReadGuard<'a, T>,
    rel: Release,
  }
  pub struct RwLockWriteGuard<'a, T: ?Sized + 'a> {
    inner: ss::RwLockWriteGuard<'a, T>,
    rel: Release,
  }

  impl<T> RwLock<T> {
    #[track_caller]
    pub fn new(t: T) -> RwLock<T> {
      RwLock { id: rt::new_id(), site: Location::caller(), inner: ss::RwLock::new(t) }
    }
    pub fn into_inner(self) -> ss::LockResult<T> { self.inner.into_inner() }
  }
  impl<T: ?Sized> RwLock<T> {
    #[track_caller]
    pub fn read(&self) -> ss::LockResult<RwLockReadGuard<'_, T>> {
      let site = Location::caller();
      let rel = rt::acquire(self.id, self.site, Mode::Read, site);
      if rel.ctl.is_none() {
        wrap(self.inner.read(), |inner| RwLockReadGuard { inner, rel })
      } else {
        wrap_try(self.inner.try_read(), rel, site, |inner, rel| RwLockReadGuard { inner, rel })
      }
    }
    #[track_caller]
    pub fn write(&self) -> ss::LockResult<RwLockWriteGuard<'_, T>> {
      let site = Location::caller();
      let rel = rt::acquire(self.id, self.site, Mode::Write, site);
      if rel.ctl.is_none() {
        wrap(self.inner.write(), |inner| RwLockWriteGuard { inner, rel })
      } else {
        wrap_try(self.inner.try_write(), rel, site, |inner, rel| RwLockWriteGuard { inner, rel })
      }
    }
    #[track_caller]
    pub fn try_read(&self) -> ss::TryLockResult<RwLockReadGuard<'_, T>> {
      let site = Location::caller();
      match rt::try_acquire(self.id, self.site, Mode::Read, site) {
        Some(Some(rel)) => wrap_try(self.inner.try_read(), rel, site, |inner, rel| RwLockReadGuard { inner, rel }).map_err(ss::TryLockError::Poisoned),
        Some(None) => Err(ss::TryLockError::WouldBlock),
        None => match self.inner.try_read() {
          Ok(inner) => Ok(RwLockReadGuard { inner, rel: rt::passive_release(self.id, Mode::Read, site) }),
          Err(ss::TryLockError::Poisoned(p)) => Err(ss::TryLockError::Poisoned(ss::PoisonError::new(RwLockReadGuard { inner: p.into_inner(), rel: rt::passive_release(self.id, Mode::Read, site) }))),
          Err(ss::TryLockError::WouldBlock) => Err(ss::TryLockError::WouldBlock),
        },
      }
    }
    #[track_caller]
    pub fn try_write(&self) -> ss::TryLockResult<RwLockWriteGuard<'_, T>> {
      let site = Location::caller();
      match rt::try_acquire(self.id, self.site, Mode::Write, site) {
        Some(Some(rel)) => wrap_try(self.inner.try_write(), rel, site, |inner, rel| RwLockWriteGuard { inner, rel }).map_err(ss::TryLockError::Poisoned),
        Some(None) => Err(ss::TryLockError::WouldBlock),
        None => match self.inner.try_write() {
          Ok(inner) => Ok(RwLockWriteGuard { inner, rel: rt::passive_release(self.id, Mode::Write, site) }),
          Err(ss::TryLockError::Poisoned(p)) => Err(ss::TryLockError::Poisoned(ss::PoisonError::new(RwLockWriteGuard { inner: p.into_inner(), rel: rt::passive_release(self.id, Mode::Write, site) }))),
          Err(ss::TryLockError::WouldBlock) => Err(ss::TryLockError::WouldBlock),
        },
      }
    }
    pub fn get_mut(&mut self) -> ss::LockResult<&mut T> { self.inner.get_mut() }
    pub fn is_poisoned(&self) -> bool { self.inner.is_poisoned() }
    pub fn clear_poison(&self) { self.inner.clear_poison() }
    pub fn verif_id(&self) -> u64 { self.id }
  }
  impl<T: Default> Default for RwLock<T> {
    #[track_caller]
    fn default() -> Self { RwLock::new(T::default()) }
  }
  impl<T> From<T> for RwLock<T> {
    #[track_caller]
    fn from(t: T) -> Self { RwLock::new(t) }
  }
  impl<T: ?Sized + fmt::Debug> fmt::Debug for RwLock<T> {
    fn fmt(&self, f: &mut fmt::Formatter<'_>) -> fmt::Result { self.inner.fmt(f) }
  }
  impl<T: ?Sized> Deref for RwLockReadGuard<'_, T> {
    type Target = T;
    fn deref(&self) -> &T { &self.inner }
  }
  impl<T: ?Sized> Deref for RwLockWriteGuard<'_, T> {
    type Target = T;
    fn deref(&self) -> &T { &self.inner }
  }
  impl<T: ?Sized> DerefMut for RwLockWriteGuard<'_, T> {
    fn deref_mut(&mut self) -> &mut T { &mut self.inner }
  }
  impl<T: ?Sized + fmt::Debug> fmt::Debug for RwLockReadGuard<'_, T> {
    fn fmt(&self, f: &mut fmt::Formatter<'_>) -> fmt::Result { (**self).fmt(f) }
  }
  impl<T: ?Sized + fmt::Debug> fmt::Debug for RwLockWriteGuard<'_, T> {
    fn fmt(&self, f: &mut fmt::Formatter<'_>) -> fmt::Result { (**self).fmt(f) }
  }

  // --------------------------------------------------------------------------------------- Mutex
  pub struct Mutex<T: ?Sized> {
    id: u64,
    site: Site,
    inner: ss::Mutex<T>,
  }
  pub struct MutexGuard<'a, T: ?Sized + 'a> {
    inner: ss::MutexGuard<'a, T>,
    rel: Release,
    lock: &'a Mutex<T>, // for Condvar::wait (re-acquisition)
  }
  // std: MutexGuard<T>: Sync iff T: Sync (the `lock` field alone would also demand T: Send); !Send
  // comes from the inner std guard.
  unsafe impl<T: ?Sized + Sync> Sync for MutexGuard<'_, T> {}

  impl<T> Mutex<T> {
    #[track_caller]
    pub fn new(t: T) -> Mutex<T> {
      Mutex { id: rt::new_id(), site: Location::caller(), inner: ss::Mutex::new(t) }
    }
    pub fn into_inner(self) -> ss::LockResult<T> { self.inner.into_inner() }
  }
  impl<T: ?Sized> Mutex<T> {
    #[track_caller]
    pub fn lock(&self) -> ss::LockResult<MutexGuard<'_, T>> {
      let site = Location::caller();
      let rel = rt::acquire(self.id, self.site, Mode::Mutex, site);
      if rel.ctl.is_none() {
        wrap(self.inner.lock(), |inner| MutexGuard { inner, rel, lock: self })
      } else {
        wrap_try(self.inner.try_lock(), rel, site, |inner, rel| MutexGuard { inner, rel, lock: self })
      }
    }
    #[track_caller]
    pub fn try_lock(&self) -> ss::TryLockResult<MutexGuard<'_, T>> {
      let site = Location::caller();
      match rt::try_acquire(self.id, self.site, Mode::Mutex, site) {
        Some(Some(rel)) => wrap_try(self.inner.try_lock(), rel, site, |inner, rel| MutexGuard { inner, rel, lock: self }).map_err(ss::TryLockError::Poisoned),
        Some(None) => Err(ss::TryLockError::WouldBlock),
        None => match self.inner.try_lock() {
          Ok(inner) => Ok(MutexGuard { inner, rel: rt::passive_release(self.id, Mode::Mutex, site), lock: self }),
          Err(ss::TryLockError::Poisoned(p)) => Err(ss::TryLockError::Poisoned(ss::PoisonError::new(MutexGuard { inner: p.into_inner(), rel: rt::passive_release(self.id, Mode::Mutex, site), lock: self }))),
          Err(ss::TryLockError::WouldBlock) => Err(ss::TryLockError::WouldBlock),
        },
      }
    }
    pub fn get_mut(&mut self) -> ss::LockResult<&mut T> { self.inner.get_mut() }
    pub fn is_poisoned(&self) -> bool { self.inner.is_poisoned() }
    pub fn clear_poison(&self) { self.inner.clear_poison() }
    pub fn verif_id(&self) -> u64 { self.id }
  }
  impl<T: Default> Default for Mutex<T> {
    #[track_caller]
    fn default() -> Self { Mutex::new(T::default()) }
  }
  impl<T> From<T> for Mutex<T> {
    #[track_caller]
    fn from(t: T) -> Self { Mutex::new(t) }
  }
  impl<T: ?Sized + fmt::Debug> fmt::Debug for Mutex<T> {
    fn fmt(&self, f: &mut fmt::Formatter<'_>) -> fmt::Result { self.inner.fmt(f) }
  }
  impl<T: ?Sized> Deref for MutexGuard<'_, T> {
    type Target = T;
    fn deref(&self) -> &T { &self.inner }
  }
  impl<T: ?Sized> DerefMut for MutexGuard<'_, T> {
    fn deref_mut(&mut self) -> &mut T { &mut self.inner }
  }
  impl<T: ?Sized + fmt::Debug> fmt::Debug for MutexGuard<'_, T> {
    fn fmt(&self, f: &mut fmt::Formatter<'_>) -> fmt::Result { (**self).fmt(f) }
  }

  // ------------------------------------------------------------------------------------- Condvar
  #[derive(Debug, PartialEq, Eq, Copy, Clone)]
  pub struct WaitTimeoutResult(bool);
  impl WaitTimeoutResult {
    pub fn timed_out(&self) -> bool { self.0 }
  }
  pub struct Condvar {
    id: u64,
    site: Site,
    inner: ss::Condvar,
  }
  impl Condvar {
    #[track_caller]
    pub fn new() -> Condvar {
      Condvar { id: rt::new_id(), site: Location::caller(), inner: ss::Condvar::new() }
    }
    fn wait_at<'a, T>(&self, guard: MutexGuard<'a, T>, site: Site) -> ss::LockResult<MutexGuard<'a, T>> {
      let MutexGuard { inner, rel, lock } = guard; // the facade guard has no Drop of its own
      match rel.ctl.clone() {
        // passive: the thread keeps its "held" entry while it is blocked inside the real wait
        None => wrap(self.inner.wait(inner), |inner| MutexGuard { inner, rel, lock }),
        Some((rt, me)) => {
          drop(inner); // real unlock; nobody else runs before the logical release below
          rt.cv_wait(me, self.id, lock.id, site); // returns with the mutex logically re-granted
          wrap_try(lock.inner.try_lock(), rel, site, |inner, rel| MutexGuard { inner, rel, lock })
        }
      }
    }
    #[track_caller]
    pub fn wait<'a, T>(&self, guard: MutexGuard<'a, T>) -> ss::LockResult<MutexGuard<'a, T>> { self.wait_at(guard, Location::caller()) }
    #[track_caller]
    pub fn wait_while<'a, T, F>(&self, mut guard: MutexGuard<'a, T>, mut condition: F) -> ss::LockResult<MutexGuard<'a, T>>
    where
      F: FnMut(&mut T) -> bool,
    {
      let site = Location::caller();
      while condition(&mut *guard) {
        guard = self.wait_at(guard, site)?;
      }
      Ok(guard)
    }
    /// std's `WaitTimeoutResult` cannot be constructed outside std: the facade has its own (same method).
    #[track_caller]
    pub fn wait_timeout<'a, T>(&self, guard: MutexGuard<'a, T>, dur: ::std::time::Duration) -> ss::LockResult<(MutexGuard<'a, T>, WaitTimeoutResult)> {
      let site = Location::caller();
      let MutexGuard { inner, rel, lock } = guard;
      match rel.ctl.clone() {
        None => match self.inner.wait_timeout(inner, dur) {
          Ok((inner, r)) => Ok((MutexGuard { inner, rel, lock }, WaitTimeoutResult(r.timed_out()))),
          Err(p) => {
            let (inner, r) = p.into_inner();
            Err(ss::PoisonError::new((MutexGuard { inner, rel, lock }, WaitTimeoutResult(r.timed_out()))))
          }
        },
        Some((rt, me)) => {
          drop(inner);
          let timed_out = rt.cv_wait_timeout(me, self.id, lock.id, dur.as_nanos() as u64, site);
          match wrap_try(lock.inner.try_lock(), rel, site, |inner, rel| MutexGuard { inner, rel, lock }) {
            Ok(g) => Ok((g, WaitTimeoutResult(timed_out))),
            Err(p) => Err(ss::PoisonError::new((p.into_inner(), WaitTimeoutResult(timed_out)))),
          }
        }
      }
    }
    #[track_caller]
    pub fn wait_timeout_while<'a, T, F>(&self, mut guard: MutexGuard<'a, T>, dur: ::std::time::Duration, mut condition: F) -> ss::LockResult<(MutexGuard<'a, T>, WaitTimeoutResult)>
    where
      F: FnMut(&mut T) -> bool,
    {
      // the deadline is taken on the controlled clock when a run is active, on the real one otherwise
      let start_v = rt::now();
      let start_r = ::std::time::Instant::now();
      let controlled = rt::ctx().is_some();
      loop {
        if !condition(&mut *guard) {
          return Ok((guard, WaitTimeoutResult(false)));
        }
        let elapsed = if controlled { ::std::time::Duration::from_nanos(rt::now().saturating_sub(start_v)) } else { start_r.elapsed() };
        if elapsed >= dur {
          return Ok((guard, WaitTimeoutResult(true)));
        }
        let (g, _) = self.wait_timeout(guard, dur - elapsed)?;
        guard = g;
      }
    }
    #[track_caller]
    pub fn notify_one(&self) {
      match rt::ctx() {
        None => self.inner.notify_one(),
        Some((rt, me)) => rt.cv_notify(me, self.id, false, Location::caller()),
      }
    }
    #[track_caller]
    pub fn notify_all(&self) {
      match rt::ctx() {
        None => self.inner.notify_all(),
        Some((rt, me)) => rt.cv_notify(me, self.id, true, Location::caller()),
      }
    }
  }
  impl Default for Condvar {
    #[track_caller]
    fn default() -> Self { Condvar::new() }
  }
  impl fmt::Debug for Condvar {
    fn fmt(&self, f: &mut fmt::Formatter<'_>) -> fmt::Result { self.inner.fmt(f) }
  }
}

// =====================================================================================================
pub mod thread {
  pub use ::std::thread::*; // current, Thread, ThreadId, Result, ... stay std (see README: park/scope/Builder)

  use super::rt::{self, Site, Slot};
  use ::std::panic::Location;
  use ::std::sync::Arc;
  use ::std::time::Duration;

  pub struct JoinHandle<T>(Jh<T>);
  enum Jh<T> {
    Std(::std::thread::JoinHandle<T>),
    Ctl { rt: Arc<rt::Runtime>, tid: u32, slot: Slot<T>, thread: ::std::thread::Thread },
  }
  impl<T> JoinHandle<T> {
    #[track_caller]
    pub fn join(self) -> ::std::thread::Result<T> {
      match self.0 {
        Jh::Std(h) => h.join(),
        Jh::Ctl { rt, tid, slot, .. } => {
          rt.join(tid, Location::caller());
          let r = slot.lock().unwrap_or_else(|e| e.into_inner()).take();
          r.expect("VERIF: join result missing")
        }
      }
    }
    pub fn is_finished(&self) -> bool {
      match &self.0 {
        Jh::Std(h) => h.is_finished(),
        Jh::Ctl { slot, .. } => slot.lock().unwrap_or_else(|e| e.into_inner()).is_some(),
      }
    }
    pub fn thread(&self) -> &::std::thread::Thread {
      match &self.0 {
        Jh::Std(h) => h.thread(),
        Jh::Ctl { thread, .. } => thread,
      }
    }
    /// controlled thread id (u32::MAX for a passive-mode handle)
    pub fn verif_tid(&self) -> u32 {
      match &self.0 {
        Jh::Std(_) => u32::MAX,
        Jh::Ctl { tid, .. } => *tid,
      }
    }
  }

  pub(super) fn spawn_impl<F, T>(name: Option<&str>, f: F, site: Site) -> JoinHandle<T>
  where
    F: FnOnce() -> T + Send + 'static,
    T: Send + 'static,
  {
    match rt::ctx() {
      None => {
        let mut b = ::std::thread::Builder::new();
        if let Some(n) = name {
          b = b.name(n.to_string());
        }
        JoinHandle(Jh::Std(b.spawn(f).expect("failed to spawn thread")))
      }
      Some((rt, me)) => {
        let (tid, slot, thread) = rt::spawn_ctl(&rt, me, name, f, site);
        JoinHandle(Jh::Ctl { rt, tid, slot, thread })
      }
    }
  }

  #[track_caller]
  pub fn spawn<F, T>(f: F) -> JoinHandle<T>
  where
    F: FnOnce() -> T + Send + 'static,
    T: Send + 'static,
  {
    spawn_impl(None, f, Location::caller())
  }

  #[track_caller]
  pub fn sleep(d: Duration) {
    match rt::ctx() {
      None => ::std::thread::sleep(d),
      Some((rt, me)) => rt.sleep(me, u64::try_from(d.as_nanos()).unwrap_or(u64::MAX), Location::caller()),
    }
  }

  pub fn yield_now() {
    match rt::ctx() {
      None => ::std::thread::yield_now(),
      Some((rt, me)) => rt.yield_now(me, "yield_now"),
    }
  }
}
