#!/usr/bin/env python3
"""instrument.py <repo_dir> <out_dir>

Creates / refreshes <out_dir> as an instrumented copy of the another-rxrust crate:

  * copies Cargo.toml (+ a [lints.rust] section allowing the custom cfg `rx_verif`), Cargo.lock,
    README.md and src/ (never target/ or .git);
  * copies verif_facade.rs (from the directory of this script) to <out_dir>/src/verif_facade.rs and
    appends `pub mod verif_facade;` to lib.rs;
  * makes every non-test source module resolve `std` through the facade by inserting
        #[allow(unused_imports)] use crate::verif_facade as std;
    after the leading inner attributes / inner doc comments of the file.  The statement is put IN
    FRONT OF THE FIRST ITEM ON THE SAME LINE (no new line), so line numbers of the instrumented
    copy are identical to the pristine sources and `file:line` sites in reports map 1:1 to <repo_dir>.
    Not touched: verif_facade.rs, src/tests/**, src/tests.rs, src/web/**, src/web.rs, src/macros.rs;
  * appends `#[cfg(rx_verif)]` accessors `verif_observer_count()` to the four subjects (add-only).

Idempotent; a destination file is rewritten only when its content changes (mtimes are preserved
otherwise, so cargo does not rebuild); files that disappeared from the source are removed from the copy.
Only python3 stdlib is used.
"""
import os
import re
import sys

USE_STMT = "#[allow(unused_imports)] use crate::verif_facade as std;"
MARK = "// ---- added by verif instrument.py ----"

EXCLUDE_FILES = {"verif_facade.rs", "tests.rs", "web.rs", "macros.rs"}  # relative to src/
EXCLUDE_DIRS = ("tests/", "web/")
# std items used by non-test code that the facade passes through to plain std WITHOUT modelling them
UNMODELLED = ("HashSet", "RandomState", "thread::park", "thread::scope", "thread::Builder", "wait_timeout", "wait_timeout_while",
              "try_lock", "try_read", "try_write", "mpsc", "Barrier", "Once", "OnceLock", "LazyLock", "park_timeout")

LINTS = '\n%s\n[lints.rust]\nunexpected_cfgs = { level = "allow" }\n' % MARK.replace("//", "#")

SUBJECT_ACCESSOR = """
%s
#[cfg(rx_verif)]
impl<'a, Item> Subject<'a, Item> where Item: Clone + Send + Sync {
  pub fn verif_observer_count(&self) -> usize { self.observers.read().unwrap().len() }
}
""" % MARK

DELEGATE_ACCESSOR = """
%s
#[cfg(rx_verif)]
impl<'a, Item> {ty}<'a, Item> where Item: Clone + Send + Sync {{
  pub fn verif_observer_count(&self) -> usize {{ self.subject.verif_observer_count() }}
}}
""" % MARK

APPEND = {
    "lib.rs": "\n%s\npub mod verif_facade;\n" % MARK,
    "subjects/subject.rs": SUBJECT_ACCESSOR,
    "subjects/behavior_subject.rs": DELEGATE_ACCESSOR.format(ty="BehaviorSubject"),
    "subjects/replay_subject.rs": DELEGATE_ACCESSOR.format(ty="ReplaySubject"),
    "subjects/async_subject.rs": DELEGATE_ACCESSOR.format(ty="AsyncSubject"),
}


def excluded(rel):
    rel = rel.replace(os.sep, "/")
    return rel in EXCLUDE_FILES or rel.startswith(EXCLUDE_DIRS)


def insertion_point(text):
    """Offset just after the last leading inner attribute `#![..]` / inner doc comment (`//!`, `/*! */`)
    and in front of the first item (skipping blank lines and ordinary comments in between)."""
    i, n = 0, len(text)
    while i < n:
        # whitespace
        m = re.compile(r"\s+").match(text, i)
        if m:
            i = m.end()
            continue
        if text.startswith("//", i):
            is_outer_doc = text.startswith("///", i) and not text.startswith("////", i)
            if is_outer_doc:
                break  # belongs to the first item
            j = text.find("\n", i)
            i = n if j < 0 else j + 1
            continue
        if text.startswith("/*", i):
            is_outer_doc = text.startswith("/**", i) and not text.startswith("/***", i) and not text.startswith("/**/", i)
            if is_outer_doc:
                break
            depth, j = 0, i
            while j < n:  # block comments nest in Rust
                if text.startswith("/*", j):
                    depth += 1
                    j += 2
                elif text.startswith("*/", j):
                    depth -= 1
                    j += 2
                    if depth == 0:
                        break
                else:
                    j += 1
            i = j
            continue
        if text.startswith("#!", i) and re.compile(r"#!\s*\[").match(text, i):
            j = text.index("[", i)
            depth, in_str = 0, False
            while j < n:  # balance brackets, ignoring those inside string literals
                c = text[j]
                if in_str:
                    if c == "\\":
                        j += 1
                    elif c == '"':
                        in_str = False
                elif c == '"':
                    in_str = True
                elif c == "[":
                    depth += 1
                elif c == "]":
                    depth -= 1
                    if depth == 0:
                        j += 1
                        break
                j += 1
            i = j
            continue
        break
    return i


def instrument_source(rel, text):
    rel = rel.replace(os.sep, "/")
    if not excluded(rel):
        at = insertion_point(text)
        if at >= len(text):
            text = text + ("" if text.endswith("\n") or not text else "\n") + USE_STMT + "\n"
        else:
            text = text[:at] + USE_STMT + " " + text[at:]
        # Inline non-test modules do not inherit the alias; warn if one of them names std itself.
        for m in re.finditer(r"(?m)^(?P<attrs>(?:\s*#\[[^\n]*\]\s*\n)*)\s*(?:pub(?:\([^)]*\))?\s+)?mod\s+(\w+)\s*\{", text):
            if "test" in m.group("attrs"):
                continue
            depth, j = 0, m.end() - 1
            while j < len(text):
                if text[j] == "{":
                    depth += 1
                elif text[j] == "}":
                    depth -= 1
                    if depth == 0:
                        break
                j += 1
            if re.search(r"\bstd::", text[m.end():j]):
                sys.stderr.write("instrument.py: WARNING: %s: inline module `%s` uses std:: directly and bypasses the facade\n" % (rel, m.group(2)))
        body = re.sub(r"(?s)#\[cfg\((?:all\()?test\b.*", "", text)  # ignore the trailing test module
        for word in UNMODELLED:
            if re.search(r"\b" + re.escape(word) + r"\b", body):
                sys.stderr.write("instrument.py: WARNING: %s uses `%s`, which the facade does not model (see README, limitations)\n" % (rel, word))
    if rel in APPEND:
        text = text + ("" if text.endswith("\n") else "\n") + APPEND[rel]
    return text


def write_if_changed(path, data):
    """data: bytes.  Returns True when the file was (re)written."""
    try:
        with open(path, "rb") as f:
            if f.read() == data:
                return False
    except FileNotFoundError:
        pass
    os.makedirs(os.path.dirname(path), exist_ok=True)
    tmp = path + ".tmp-instrument"
    with open(tmp, "wb") as f:
        f.write(data)
    os.replace(tmp, path)
    return True


def main(argv):
    if len(argv) != 3:
        sys.stderr.write(__doc__)
        return 2
    repo, out = os.path.abspath(argv[1]), os.path.abspath(argv[2])
    here = os.path.dirname(os.path.abspath(__file__))
    if out == repo or out.startswith(repo + os.sep):
        sys.stderr.write("instrument.py: refusing to write into the source repository\n")
        return 2
    src = os.path.join(repo, "src")
    if not os.path.isfile(os.path.join(src, "lib.rs")):
        sys.stderr.write("instrument.py: %s/src/lib.rs not found\n" % repo)
        return 2

    wanted = {}  # relative destination path -> bytes
    with open(os.path.join(repo, "Cargo.toml"), "r", encoding="utf-8") as f:
        toml = f.read()
    if re.search(r"(?m)^\[lints(\.rust)?\]", toml):
        sys.stderr.write("instrument.py: WARNING: Cargo.toml already has a [lints] table; not adding unexpected_cfgs\n")
    else:
        toml = toml + ("" if toml.endswith("\n") else "\n") + LINTS
    wanted["Cargo.toml"] = toml.encode("utf-8")
    for extra in ("Cargo.lock", "README.md"):
        p = os.path.join(repo, extra)
        if os.path.isfile(p):
            with open(p, "rb") as f:
                wanted[extra] = f.read()

    appended = set()
    for dirpath, dirnames, filenames in os.walk(src):
        dirnames.sort()
        for fn in sorted(filenames):
            full = os.path.join(dirpath, fn)
            rel = os.path.relpath(full, src)
            with open(full, "rb") as f:
                data = f.read()
            if fn.endswith(".rs"):
                if rel.replace(os.sep, "/") == "verif_facade.rs":
                    continue  # never take a facade from the source tree
                data = instrument_source(rel, data.decode("utf-8")).encode("utf-8")
                if rel.replace(os.sep, "/") in APPEND:
                    appended.add(rel.replace(os.sep, "/"))
            wanted[os.path.join("src", rel)] = data
    for rel in APPEND:
        if rel not in appended:
            sys.stderr.write("instrument.py: WARNING: %s not found in source; accessor / mod line not added\n" % rel)
    with open(os.path.join(here, "verif_facade.rs"), "rb") as f:
        wanted[os.path.join("src", "verif_facade.rs")] = f.read()

    written = 0
    for rel, data in sorted(wanted.items()):
        if write_if_changed(os.path.join(out, rel), data):
            written += 1

    # remove files under <out>/src that no longer exist in the source (and then-empty directories)
    removed = 0
    out_src = os.path.join(out, "src")
    for dirpath, dirnames, filenames in os.walk(out_src, topdown=False):
        for fn in filenames:
            rel = os.path.relpath(os.path.join(dirpath, fn), out)
            if rel not in wanted:
                os.remove(os.path.join(dirpath, fn))
                removed += 1
        if dirpath != out_src and not os.listdir(dirpath):
            os.rmdir(dirpath)
    for extra in ("Cargo.lock", "README.md"):
        if extra not in wanted and os.path.isfile(os.path.join(out, extra)):
            os.remove(os.path.join(out, extra))
            removed += 1

    print("instrument.py: %s -> %s: %d files, %d written, %d removed" % (repo, out, len(wanted), written, removed))
    return 0


if __name__ == "__main__":
    sys.exit(main(sys.argv))
