#!/bin/sh
# Usage: run_selftest.sh [repo_dir=/repo] [scratch_dir=/var/tmp/rtdev] [selftest args...]
# Instruments <repo_dir> into <scratch>/instr, builds the selftest against it and runs it.
set -e
HERE="$(cd "$(dirname "$0")" && pwd)"
REPO="${1:-/repo}"; SCRATCH="${2:-/var/tmp/rtdev}"
[ $# -gt 0 ] && shift; [ $# -gt 0 ] && shift
mkdir -p "$SCRATCH"
python3 "$HERE/instrument.py" "$REPO" "$SCRATCH/instr"
CRATE="$HERE/selftest"
if [ "$SCRATCH" != "/var/tmp/rtdev" ]; then   # Cargo.toml names /var/tmp/rtdev/instr: build a patched copy
  CRATE="$SCRATCH/selftest-crate"; mkdir -p "$CRATE/src"
  sed "s#/var/tmp/rtdev/instr#$SCRATCH/instr#" "$HERE/selftest/Cargo.toml" > "$CRATE/Cargo.toml.new"
  cmp -s "$CRATE/Cargo.toml.new" "$CRATE/Cargo.toml" 2>/dev/null || mv "$CRATE/Cargo.toml.new" "$CRATE/Cargo.toml"
  cmp -s "$HERE/selftest/src/main.rs" "$CRATE/src/main.rs" 2>/dev/null || cp "$HERE/selftest/src/main.rs" "$CRATE/src/main.rs"
fi
[ -f "$CRATE/Cargo.lock" ] || cp "$REPO/Cargo.lock" "$CRATE/Cargo.lock"
export CARGO_NET_OFFLINE=true CARGO_TARGET_DIR="$SCRATCH/target-selftest" RUSTFLAGS="--cfg rx_verif"
cd "$CRATE"
cargo build --offline --release
exec "$CARGO_TARGET_DIR/release/selftest" "$@"
