// Sequential scenario interpreter on the REAL crate (instrumented copy of /repo's working tree).
// Reads one scenario per line (same syntax as ml/driver.ml), runs it, prints one observation line.
// usage: rxseq [START_INDEX]   (scenarios on stdin; lines before START_INDEX are skipped so that the
// orchestrator can restart after a hang)
mod sx;
mod val;

use another_rxrust::prelude::*;
use std::io::{BufRead, Write};
use std::sync::atomic::{AtomicUsize, Ordering};
use std::sync::{Arc, Mutex};
use sx::{field, Sx};
use val::*;

// ---------------------------------------------------------------- recorder
#[derive(Default)]
struct Rec {
  cur: usize,
  log: Vec<(String, usize, Sx)>,
  tap: Vec<(usize, Sx)>,
  probes: Vec<(usize, usize, usize, bool, usize, usize)>,
  snaps: Vec<(usize, Vec<bool>, Vec<usize>)>,
  n_child: usize,
}

#[derive(Clone)]
enum Subj {
  Plain(subjects::Subject<'static, V>),
  Behavior(subjects::BehaviorSubject<'static, V>),
  Replay(subjects::ReplaySubject<'static, V>),
  Async(subjects::AsyncSubject<'static, V>),
}
impl Subj {
  fn observable(&self) -> Observable<'static, V> {
    match self {
      Subj::Plain(s) => s.observable(),
      Subj::Behavior(s) => s.observable(),
      Subj::Replay(s) => s.observable(),
      Subj::Async(s) => s.observable(),
    }
  }
  fn emit(&self, e: &Ev) {
    match (self, e) {
      (Subj::Plain(s), Ev::N(v)) => s.next(v.clone()),
      (Subj::Plain(s), Ev::E(id)) => s.error(mk_err(*id)),
      (Subj::Plain(s), Ev::C) => s.complete(),
      (Subj::Behavior(s), Ev::N(v)) => s.next(v.clone()),
      (Subj::Behavior(s), Ev::E(id)) => s.error(mk_err(*id)),
      (Subj::Behavior(s), Ev::C) => s.complete(),
      (Subj::Replay(s), Ev::N(v)) => s.next(v.clone()),
      (Subj::Replay(s), Ev::E(id)) => s.error(mk_err(*id)),
      (Subj::Replay(s), Ev::C) => s.complete(),
      (Subj::Async(s), Ev::N(v)) => s.next(v.clone()),
      (Subj::Async(s), Ev::E(id)) => s.error(mk_err(*id)),
      (Subj::Async(s), Ev::C) => s.complete(),
    }
  }
  fn count(&self) -> usize {
    match self {
      Subj::Plain(s) => s.verif_observer_count(),
      Subj::Behavior(s) => s.verif_observer_count(),
      Subj::Replay(s) => s.verif_observer_count(),
      Subj::Async(s) => s.verif_observer_count(),
    }
  }
}

#[derive(Clone)]
enum Conn {
  Publish(Arc<publish::Publish<'static, V>>),
  RefCount(Arc<ref_count::RefCount<'static, V>>),
  Replay(Arc<replay::Replay<'static, V>>),
}
impl Conn {
  fn observable(&self) -> Observable<'static, V> {
    match self {
      Conn::Publish(c) => c.observable(),
      Conn::RefCount(c) => c.observable(),
      Conn::Replay(c) => c.observable(),
    }
  }
}

#[derive(Clone)]
enum Ev {
  N(V),
  E(u32),
  C,
}
impl Ev {
  fn from_sx(x: &Sx) -> Ev {
    let l = x.list();
    match l[0].atom() {
      "n" => Ev::N(V::from_sx(&l[1])),
      "e" => Ev::E(l[1].int() as u32),
      "c" => Ev::C,
      _ => panic!("bad event {}", x.to_string()),
    }
  }
}
fn ev_n(v: &V) -> Sx {
  Sx::L(vec![Sx::A("n".into()), v.to_sx()])
}
fn ev_e(e: &RxError) -> Sx {
  Sx::L(vec![Sx::A("e".into()), Sx::A(err_id(e))])
}
fn ev_c() -> Sx {
  Sx::L(vec![Sx::A("c".into())])
}

struct ColdSrc {
  atts: Vec<Vec<Ev>>,
  polls: bool,
  attempts: AtomicUsize,
}

struct EnvInner {
  srcs: Vec<Arc<ColdSrc>>,
  subjects: Vec<Subj>,
  conns: Vec<Conn>,
  counters: Vec<Arc<AtomicUsize>>,
  handles: Vec<Option<Subscription<'static>>>,
  handle_used: Vec<bool>,
  chandles: Vec<Option<Subscription<'static>>>,
  // hand-driven sources: every observer the source closure was ever given
  manual: Vec<Arc<Mutex<Vec<Observer<'static, V>>>>>,
  // Observable VALUES built once at the start of the scenario
  defs: Vec<Observable<'static, V>>,
}

#[derive(Clone)]
struct Env {
  inner: Arc<Mutex<Option<EnvInner>>>,
  rec: Arc<Mutex<Rec>>,
}

impl Env {
  fn with<R>(&self, f: impl FnOnce(&mut EnvInner) -> R) -> Option<R> {
    let mut g = self.inner.lock().unwrap();
    g.as_mut().map(f)
  }
}

// ---------------------------------------------------------------- pipelines
fn cold(env: &Env, s: usize) -> Observable<'static, V> {
  let src = env.with(|e| e.srcs[s].clone()).unwrap();
  let rec = env.rec.clone();
  Observable::create(move |o: Observer<'static, V>| {
    let att = src.attempts.fetch_add(1, Ordering::SeqCst);
    let script = &src.atts[std::cmp::min(att, src.atts.len().saturating_sub(1))];
    let mut idx = 0usize;
    for ev in script.iter() {
      let alive = o.is_subscribed();
      {
        let mut r = rec.lock().unwrap();
        let (ll, cur) = (r.log.len(), r.cur);
        r.probes.push((s, att, idx, alive, ll, cur));
      }
      if src.polls && !alive {
        return;
      }
      match ev {
        Ev::N(v) => o.next(v.clone()),
        Ev::E(id) => o.error(mk_err(*id)),
        Ev::C => o.complete(),
      }
      idx += 1;
    }
    let alive = o.is_subscribed();
    let mut r = rec.lock().unwrap();
    let (ll, cur) = (r.log.len(), r.cur);
    r.probes.push((s, att, idx, alive, ll, cur));
  })
}

fn manual_slot(env: &Env, s: usize) -> Arc<Mutex<Vec<Observer<'static, V>>>> {
  env
    .with(|e| {
      while e.manual.len() <= s {
        e.manual.push(Arc::new(Mutex::new(Vec::new())));
      }
      e.manual[s].clone()
    })
    .unwrap()
}

fn manual(env: &Env, s: usize) -> Observable<'static, V> {
  let slot = manual_slot(env, s);
  Observable::create(move |o: Observer<'static, V>| {
    slot.lock().unwrap().push(o);
  })
}

fn push_manual(env: &Env, s: usize, ev: &Ev) {
  let obs: Vec<Observer<'static, V>> = manual_slot(env, s).lock().unwrap().clone();
  // instrumented like the scripted cold sources: is_subscribed of each stored observer before and after the delivery
  // (source id 1000+s, the observer's index in place of the attempt)
  let probe = |j: usize, idx: usize, o: &Observer<'static, V>| {
    let alive = o.is_subscribed();
    let mut r = env.rec.lock().unwrap();
    let (ll, cur) = (r.log.len(), r.cur);
    r.probes.push((1000 + s, j, idx, alive, ll, cur));
  };
  for (j, o) in obs.iter().enumerate() {
    probe(j, 0, o);
    match ev {
      Ev::N(v) => o.next(v.clone()),
      Ev::E(id) => o.error(mk_err(*id)),
      Ev::C => o.complete(),
    }
    probe(j, 1, o);
  }
}

fn lift_list(v: Vec<V>) -> V {
  V::List(v)
}

fn build(env: &Env, x: &Sx) -> Observable<'static, V> {
  let l = x.list();
  match l[0].atom() {
    "cold" => cold(env, l[1].int() as usize),
    "just" => observables::just(V::from_sx(&l[1])),
    "from_iter" => {
      let vs: Vec<V> = l[1..].iter().map(V::from_sx).collect();
      observables::from_iter(vs.into_iter())
    }
    "range" => observables::range(l[1].int(), l[2].int()).map(|i| V::int(i)),
    "empty" => observables::empty(),
    "never" => observables::never(),
    "error" => observables::error(mk_err(l[1].int() as u32)),
    "repeat" => observables::repeat(V::from_sx(&l[1])),
    // from_iter over an ENDLESS iterator: by definition the same stream as repeat(v) - it must stop pulling when the subscription ends
    "from_iter_repeat" => observables::from_iter(std::iter::repeat(V::from_sx(&l[1]))),
    "defer" => {
      let env = env.clone();
      let inner = l[1].clone();
      let t = CTok::new();
      observables::defer(move || {
        t.touch();
        build(&env, &inner)
      })
    }
    // defer whose FACTORY is stateful: the k-th call of the factory builds just(k) - "a fresh Observable for each observer"
    "defer_built" => {
      let c = l[1].int() as usize;
      let ctr = env
        .with(|e| {
          while e.counters.len() <= c {
            e.counters.push(Arc::new(AtomicUsize::new(0)));
          }
          e.counters[c].clone()
        })
        .unwrap();
      let t = CTok::new();
      observables::defer(move || {
        t.touch();
        observables::just(V::int(ctr.fetch_add(1, Ordering::SeqCst) as i64))
      })
    }
    "start" => {
      let c = l[1].int() as usize;
      let ctr = env
        .with(|e| {
          while e.counters.len() <= c {
            e.counters.push(Arc::new(AtomicUsize::new(0)));
          }
          e.counters[c].clone()
        })
        .unwrap();
      let t = CTok::new();
      observables::start(move || {
        t.touch();
        V::int(ctr.fetch_add(1, Ordering::SeqCst) as i64)
      })
    }
    "result_ok" => observables::from_result(Ok::<V, ErrId>(V::from_sx(&l[1]))),
    "result_err" => observables::from_result(Err::<V, ErrId>(ErrId(l[1].int() as u32))),
    "hot" => env.with(|e| e.subjects[l[1].int() as usize].clone()).unwrap().observable(),
    "conn" => env.with(|e| e.conns[l[1].int() as usize].clone()).unwrap().observable(),
    "manual" => manual(env, l[1].int() as usize),
    "ref" => env.with(|e| e.defs[l[1].int() as usize].clone()).unwrap(),
    "op" => {
      let name = l[1].atom();
      let ps = l[2].list();
      let src = build(env, &l[3]);
      let others: Vec<Observable<'static, V>> = l[4..].iter().map(|p| build(env, p)).collect();
      apply_op(env, name, ps, src, others)
    }
    _ => panic!("bad pipe {}", x.to_string()),
  }
}

impl std::fmt::Debug for V {
  fn fmt(&self, f: &mut std::fmt::Formatter<'_>) -> std::fmt::Result {
    write!(f, "{}", self.to_sx().to_string())
  }
}

/// A user-defined scheduler (IScheduler is a public trait). post runs the task at once on the calling thread - exactly like
/// default_scheduler - and keeps the task it ran last until the scheduler instance itself is dropped; abort only raises a flag.
/// Whatever the library captured in that task (an emitted item, the source of subscribe_on) lives as long as the LIBRARY keeps
/// the scheduler instance of a subscription.
#[derive(Clone)]
struct KeepSched {
  last: Arc<Mutex<Option<Box<dyn Fn() + Send + Sync + 'static>>>>,
  aborted: Arc<std::sync::atomic::AtomicBool>,
}
impl KeepSched {
  fn new() -> KeepSched {
    KeepSched { last: Arc::new(Mutex::new(None)), aborted: Arc::new(std::sync::atomic::AtomicBool::new(false)) }
  }
}
impl another_rxrust::schedulers::scheduler::IScheduler<'static> for KeepSched {
  fn post<F>(&self, f: F)
  where
    F: Fn() + Clone + Send + Sync + 'static,
  {
    f();
    let old = self.last.lock().unwrap().replace(Box::new(f));
    drop(old);
  }
  fn abort(&self) {
    self.aborted.store(true, Ordering::SeqCst);
  }
}

fn apply_op(
  env: &Env,
  name: &str,
  ps: &[Sx],
  src: Observable<'static, V>,
  others: Vec<Observable<'static, V>>,
) -> Observable<'static, V> {
  let t = CTok::new();
  match name {
    "map" => {
      let f = Fn1::from_sx(&ps[0]);
      src.map(move |v| {
        t.touch();
        f.app(v)
      })
    }
    "filter" => {
      let p = Pred::from_sx(&ps[0]);
      src.filter(move |v| {
        t.touch();
        p.app(&v)
      })
    }
    "take" => src.take(ps[0].int() as usize),
    "take_while" => {
      let p = Pred::from_sx(&ps[0]);
      src.take_while(move |v| {
        t.touch();
        p.app(&v)
      })
    }
    "take_last" => src.take_last(ps[0].int() as usize),
    "skip" => src.skip(ps[0].int() as usize),
    "skip_last" => src.skip_last(ps[0].int() as usize),
    "skip_while" => {
      let p = Pred::from_sx(&ps[0]);
      src.skip_while(move |v| {
        t.touch();
        p.app(&v)
      })
    }
    "first" => src.first(),
    "last" => src.last(),
    "element_at" => src.element_at(ps[0].int() as usize),
    "distinct_until_changed" => src.distinct_until_changed(),
    "scan" => {
      let f = Fn2::from_sx(&ps[0]);
      src.scan(move |(a, x)| {
        t.touch();
        f.app(a, x)
      })
    }
    "reduce" => {
      let f = Fn2::from_sx(&ps[0]);
      src.reduce(move |(a, x)| {
        t.touch();
        f.app(a, x)
      })
    }
    "count" => src.count().map(|n| V::int(n as i64)),
    "sum" => src.sum(),
    "sum_and_count" => src.sum_and_count().map(|(s, n)| V::List(vec![s, V::int(n as i64)])),
    "min" => src.min(),
    "max" => src.max(),
    "all" => {
      let p = Pred::from_sx(&ps[0]);
      src
        .all(move |v| {
          t.touch();
          p.app(&v)
        })
        .map(V::Bool)
    }
    "contains" => src.contains(V::from_sx(&ps[0])).map(V::Bool),
    "default_if_empty" => src.default_if_empty(V::from_sx(&ps[0])),
    "ignore_elements" => src.ignore_elements(),
    "start_with" => {
      let vs: Vec<V> = ps.iter().map(V::from_sx).collect();
      src.start_with(vs.into_iter())
    }
    "buffer_with_count" => src.buffer_with_count(ps[0].int() as usize).map(lift_list),
    "window_with_count" => src.window_with_count(ps[0].int() as usize).map(V::Obs),
    "group_by" => {
      let k = ps[0].int();
      src
        .group_by(move |v: V| {
          t.touch();
          v.as_int().rem_euclid(k)
        })
        .map(V::Obs)
    }
    "materialize" => src.materialize().map(|m| match m {
      Material::Next(v) => V::MatN(Box::new(v)),
      Material::Error(e) => V::MatE(e),
      Material::Complete => V::MatC,
    }),
    "dematerialize" => src
      .map(|v| match v {
        V::MatN(x) => Material::Next(*x),
        V::MatE(e) => Material::Error(e),
        V::MatC => Material::Complete,
        other => Material::Next(other),
      })
      .dematerialize(),
    // observe_on / subscribe_on with the synchronous job-keeping scheduler: the identity on the event stream (model: map id)
    "observe_on_keep" => src.observe_on(|| KeepSched::new()),
    "subscribe_on_keep" => src.subscribe_on(|| KeepSched::new()),
    "tap" => {
      let id = ps[0].int() as usize;
      let (r1, r2, r3) = (env.rec.clone(), env.rec.clone(), env.rec.clone());
      let (t2, t3) = (CTok::new(), CTok::new());
      src.tap(
        move |v: V| {
          t.touch();
          r1.lock().unwrap().tap.push((id, ev_n(&v)));
        },
        move |e| {
          t2.touch();
          r2.lock().unwrap().tap.push((id, ev_e(&e)));
        },
        move || {
          t3.touch();
          r3.lock().unwrap().tap.push((id, ev_c()));
        },
      )
    }
    "map_to_any" => src.map_to_any().map(|a| a.downcast_ref::<V>().expect("map_to_any payload").clone()),
    "merge" => src.merge(&others),
    "flat_map" => {
      let sel = ps[0].list()[0].atom().to_string();
      let k = if sel == "pair" { ps[0].list()[1].int() } else { 0 };
      src.flat_map(move |v: V| {
        t.touch();
        match sel.as_str() {
          "just" => observables::just(v),
          "pair" => {
            let second = V::int(v.as_int() + k);
            observables::from_iter(vec![v, second].into_iter())
          }
          "mod" => {
            if others.is_empty() {
              observables::empty()
            } else {
              others[v.as_int().rem_euclid(others.len() as i64) as usize].clone()
            }
          }
          _ => panic!("bad fmsel"),
        }
      })
    }
    "concat" => src.concat(&others),
    "zip" => src.zip(&others).map(lift_list),
    "combine_latest" => {
      let f = ps[0].atom().to_string();
      src.combine_latest(&others, move |l: Vec<V>| {
        t.touch();
        if f == "sum" {
          V::int(l.iter().map(|x| x.as_int()).sum())
        } else {
          V::List(l)
        }
      })
    }
    "amb" => src.amb(&others),
    "take_until" => src.take_until(others[0].clone()),
    "skip_until" => src.skip_until(others[0].clone()),
    "sample" => src.sample(others[0].clone()),
    "switch_on_next" => src.switch_on_next(others[0].clone()),
    "sequence_equal" => src.sequence_equal(&others).map(V::Bool),
    "retry" => src.retry(ps[0].int() as usize),
    "retry_when" => {
      let p = EPred::from_sx(&ps[0]);
      src.retry_when(move |e| {
        t.touch();
        p.app(&e)
      })
    }
    "on_error_resume_next" => src.on_error_resume_next(move |e: RxError| {
      t.touch();
      if others.is_empty() {
        observables::empty()
      } else {
        let id = e.downcast_ref::<ErrId>().map(|x| x.0).unwrap_or(0) as usize;
        others[id % others.len()].clone()
      }
    }),
    _ => panic!("bad operator {}", name),
  }
}

// ---------------------------------------------------------------- subscribers
#[derive(Clone)]
enum Reaction {
  UnsubSelf,
  Unsub(usize),
  Emit(usize, Ev),
  Sub(usize, Sx),
  Push(usize, Ev),
}
impl Reaction {
  fn from_sx(x: &Sx) -> Reaction {
    let l = x.list();
    match l[0].atom() {
      "unsub-self" => Reaction::UnsubSelf,
      "unsub" => Reaction::Unsub(l[1].int() as usize),
      "emit" => Reaction::Emit(l[1].int() as usize, Ev::from_sx(&l[2])),
      "sub" => Reaction::Sub(l[1].int() as usize, l[2].clone()),
      "push" => Reaction::Push(l[1].int() as usize, Ev::from_sx(&l[2])),
      _ => panic!("bad reaction {}", x.to_string()),
    }
  }
}

fn unsub_handle(env: &Env, k: usize) {
  let s = env.with(|e| e.handles.get(k).cloned().flatten()).flatten();
  if let Some(s) = s {
    s.unsubscribe();
  }
}

fn child_subscribe(env: &Env, o: Observable<'static, V>) {
  let j = {
    let mut r = env.rec.lock().unwrap();
    let j = r.n_child;
    r.n_child += 1;
    j
  };
  let name = format!("c{}", j);
  let (r1, r2, r3) = (env.rec.clone(), env.rec.clone(), env.rec.clone());
  let (n1, n2, n3) = (name.clone(), name.clone(), name);
  let env2 = env.clone();
  let (t1, t2, t3) = (CTok::new(), CTok::new(), CTok::new());
  o.subscribe(
    move |v: V| {
      t1.touch();
      {
        let mut r = r1.lock().unwrap();
        let cur = r.cur;
        r.log.push((n1.clone(), cur, ev_n(&v)));
      }
      if let V::Obs(o) = v {
        child_subscribe(&env2, o);
      }
    },
    move |e| {
      t2.touch();
      let mut r = r2.lock().unwrap();
      let cur = r.cur;
      r.log.push((n2.clone(), cur, ev_e(&e)));
    },
    move || {
      t3.touch();
      let mut r = r3.lock().unwrap();
      let cur = r.cur;
      r.log.push((n3.clone(), cur, ev_c()));
    },
  );
}

fn react(env: &Env, k: usize, i: usize, reactions: &[(usize, Reaction)]) {
  for (idx, r) in reactions.iter() {
    if *idx != i {
      continue;
    }
    match r {
      Reaction::UnsubSelf => unsub_handle(env, k),
      Reaction::Unsub(k2) => unsub_handle(env, *k2),
      Reaction::Emit(h, ev) => {
        let s = env.with(|e| e.subjects[*h].clone());
        if let Some(s) = s {
          s.emit(ev);
        }
      }
      Reaction::Sub(k2, p) => do_sub(env, *k2, p, Vec::new()),
      Reaction::Push(s, ev) => push_manual(env, *s, ev),
    }
  }
}

fn do_sub(env: &Env, k: usize, p: &Sx, reactions: Vec<(usize, Reaction)>) {
  let fresh = env
    .with(|e| {
      while e.handles.len() <= k {
        e.handles.push(None);
        e.handle_used.push(false);
      }
      if e.handle_used[k] {
        false
      } else {
        e.handle_used[k] = true;
        true
      }
    })
    .unwrap_or(false);
  if !fresh {
    return;
  }
  let o = build(env, p);
  let name = format!("t{}", k);
  let ncalls = Arc::new(AtomicUsize::new(0));
  let reactions = Arc::new(reactions);
  let mk = |kind: u8| {
    let env = env.clone();
    let name = name.clone();
    let ncalls = ncalls.clone();
    let reactions = reactions.clone();
    let t = CTok::new();
    move |ev: Sx, obs: Option<Observable<'static, V>>| {
      t.touch();
      let _ = kind;
      {
        let mut r = env.rec.lock().unwrap();
        let cur = r.cur;
        r.log.push((name.clone(), cur, ev));
      }
      if let Some(o) = obs {
        child_subscribe(&env, o);
      }
      let i = ncalls.fetch_add(1, Ordering::SeqCst);
      react(&env, k, i, &reactions);
    }
  };
  let (fn_n, fn_e, fn_c) = (mk(0), mk(1), mk(2));
  let sub = o.subscribe(
    move |v: V| {
      let sx = ev_n(&v);
      let obs = if let V::Obs(o) = v { Some(o) } else { None };
      fn_n(sx, obs)
    },
    move |e| fn_e(ev_e(&e), None),
    move || fn_c(ev_c(), None),
  );
  env.with(|e| e.handles[k] = Some(sub));
}

fn snapshot(env: &Env, n_handles: usize) {
  let (subs, subjects) = env.with(|e| (e.handles.clone(), e.subjects.clone())).unwrap();
  let mut bs = Vec::new();
  for k in 0..n_handles {
    bs.push(match subs.get(k) {
      Some(Some(s)) => s.is_subscribed(),
      _ => false,
    });
  }
  let ns: Vec<usize> = subjects.iter().map(|s| s.count()).collect();
  let mut r = env.rec.lock().unwrap();
  let cur = r.cur;
  r.snaps.push((cur, bs, ns));
}

// ---------------------------------------------------------------- scenario
fn run_scenario(x: &Sx) -> String {
  let fs = &x.list()[1..];
  let env = Env { inner: Arc::new(Mutex::new(None)), rec: Arc::new(Mutex::new(Rec::default())) };
  let srcs: Vec<Arc<ColdSrc>> = field(fs, "srcs")
    .iter()
    .map(|s| {
      let fl = s.list();
      let polls = field(fl, "polls").first().map(|p| p.int() != 0).unwrap_or(false);
      let atts: Vec<Vec<Ev>> = fl
        .iter()
        .filter(|a| matches!(a, Sx::L(v) if !v.is_empty() && v[0] == Sx::A("att".into())))
        .map(|a| a.list()[1..].iter().map(Ev::from_sx).collect())
        .collect();
      Arc::new(ColdSrc { atts, polls, attempts: AtomicUsize::new(0) })
    })
    .collect();
  let subjects: Vec<Subj> = field(fs, "subjects")
    .iter()
    .map(|s| match s.head() {
      "subject" => Subj::Plain(subjects::Subject::new()),
      "behavior" => Subj::Behavior(subjects::BehaviorSubject::new(V::from_sx(&s.list()[1]))),
      "replay" => Subj::Replay(subjects::ReplaySubject::new()),
      "async" => Subj::Async(subjects::AsyncSubject::new()),
      _ => panic!("bad subject"),
    })
    .collect();
  let n_handles = field(fs, "handles").first().map(|h| h.int() as usize).unwrap_or(0);
  *env.inner.lock().unwrap() = Some(EnvInner {
    srcs,
    subjects,
    conns: Vec::new(),
    counters: Vec::new(),
    handles: Vec::new(),
    handle_used: Vec::new(),
    chandles: Vec::new(),
    manual: Vec::new(),
    defs: Vec::new(),
  });
  for c in field(fs, "conns") {
    let p = build(&env, &c.list()[1]);
    let conn = match c.head() {
      "publish" => Conn::Publish(Arc::new(p.publish())),
      "refcount" => Conn::RefCount(Arc::new(p.ref_count())),
      "replay" => Conn::Replay(Arc::new(p.replay())),
      _ => panic!("bad conn"),
    };
    env.with(|e| e.conns.push(conn));
  }
  for d in field(fs, "defs") {
    let p = build(&env, d);
    env.with(|e| e.defs.push(p));
  }
  let script = field(fs, "script").to_vec();
  let env_run = env.clone();
  let result = std::panic::catch_unwind(std::panic::AssertUnwindSafe(move || {
    let env = env_run;
    for a in script.iter() {
      env.rec.lock().unwrap().cur += 1;
      let l = a.list();
      match l[0].atom() {
        "sub" => {
          let k = l[1].int() as usize;
          let rs: Vec<(usize, Reaction)> = l[3..]
            .iter()
            .map(|r| {
              let rl = r.list();
              (rl[1].int() as usize, Reaction::from_sx(&rl[2]))
            })
            .collect();
          do_sub(&env, k, &l[2], rs);
        }
        "unsub" => unsub_handle(&env, l[1].int() as usize),
        "emit" => {
          let s = env.with(|e| e.subjects[l[1].int() as usize].clone()).unwrap();
          s.emit(&Ev::from_sx(&l[2]));
        }
        "push" => push_manual(&env, l[1].int() as usize, &Ev::from_sx(&l[2])),
        "connect" => {
          let k = l[1].int() as usize;
          let xh = l[2].int() as usize;
          let c = env.with(|e| e.conns[k].clone()).unwrap();
          if let Conn::Publish(p) = c {
            let s = p.connect();
            env.with(|e| {
              while e.chandles.len() <= xh {
                e.chandles.push(None);
              }
              e.chandles[xh] = Some(s);
            });
          }
        }
        "disconnect" => {
          let xh = l[1].int() as usize;
          let s = env.with(|e| e.chandles.get(xh).cloned().flatten()).flatten();
          if let Some(s) = s {
            s.unsubscribe();
          }
        }
        _ => panic!("bad action {}", a.to_string()),
      }
      snapshot(&env, n_handles);
    }
  }));
  let out = match &result {
    Ok(()) => "ok".to_string(),
    Err(p) => {
      let msg = if let Some(s) = p.downcast_ref::<String>() {
        s.clone()
      } else if let Some(s) = p.downcast_ref::<&str>() {
        s.to_string()
      } else {
        "?".to_string()
      };
      if msg.contains("VERIF_SELF_DEADLOCK") {
        "hang".to_string()
      } else {
        format!("panic")
      }
    }
  };
  // drop every handle the harness owns, then look at what is still alive (C17)
  let live_before = (LIVE_ITEMS.load(Ordering::SeqCst), LIVE_CLOSURES.load(Ordering::SeqCst));
  *env.inner.lock().unwrap() = None;
  let live_after = (LIVE_ITEMS.load(Ordering::SeqCst), LIVE_CLOSURES.load(Ordering::SeqCst));
  let r = env.rec.lock().unwrap();
  let b = |x: bool| Sx::A(if x { "1" } else { "0" }.into());
  let i = |x: usize| Sx::A(format!("{}", x));
  let mut log = vec![Sx::A("log".into())];
  for (u, c, e) in r.log.iter() {
    log.push(Sx::L(vec![Sx::A(u.clone()), i(*c), e.clone()]));
  }
  let mut tap = vec![Sx::A("tap".into())];
  for (t, e) in r.tap.iter() {
    tap.push(Sx::L(vec![i(*t), e.clone()]));
  }
  let mut probes = vec![Sx::A("probes".into())];
  for (s, a, p, al, ll, c) in r.probes.iter() {
    probes.push(Sx::L(vec![i(*s), i(*a), i(*p), b(*al), i(*ll), i(*c)]));
  }
  let mut snaps = vec![Sx::A("snaps".into())];
  for (c, bs, ns) in r.snaps.iter() {
    snaps.push(Sx::L(vec![i(*c), Sx::L(bs.iter().map(|x| b(*x)).collect()), Sx::L(ns.iter().map(|x| i(*x)).collect())]));
  }
  let obs = Sx::L(vec![
    Sx::A("obs".into()),
    Sx::L(vec![Sx::A("out".into()), Sx::A(out)]),
    Sx::L(log),
    Sx::L(tap),
    Sx::L(probes),
    Sx::L(snaps),
  ]);
  format!(
    "{} ;; live_before {} {} live_after {} {}",
    obs.to_string(),
    live_before.0,
    live_before.1,
    live_after.0,
    live_after.1
  )
}

fn main() {
  let start: usize = std::env::args().nth(1).and_then(|s| s.parse().ok()).unwrap_or(0);
  // silence panic backtraces of expected panics (self-deadlock reports); the message goes to the observation
  std::panic::set_hook(Box::new(|_| {}));
  let stdin = std::io::stdin();
  let stdout = std::io::stdout();
  let mut idx = 0usize;
  for line in stdin.lock().lines() {
    let line = line.unwrap();
    if !line.starts_with('(') {
      continue;
    }
    if idx < start {
      idx += 1;
      continue;
    }
    {
      let mut o = stdout.lock();
      writeln!(o, "BEGIN {}", idx).unwrap();
      o.flush().unwrap();
    }
    let res = match sx::parse(&line) {
      Ok(v) if v.len() == 1 => {
        // the scenario itself may leak (that is what C17 measures); counters are compared as deltas
        let base = (LIVE_ITEMS.load(Ordering::SeqCst), LIVE_CLOSURES.load(Ordering::SeqCst));
        let s = match std::panic::catch_unwind(|| run_scenario(&v[0])) {
          Ok(s) => s,
          Err(_) => "(error \"harness panic\")".to_string(),
        };
        format!("{} base {} {}", s, base.0, base.1)
      }
      _ => "(error \"parse\")".to_string(),
    };
    let mut o = stdout.lock();
    writeln!(o, "END {} {}", idx, res).unwrap();
    o.flush().unwrap();
    idx += 1;
  }
}
