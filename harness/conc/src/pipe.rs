// Recorder + pipe builder (PIPE s-expression -> Observable<'static, V>).
// The builder is the one of harness/seq (same operator names and parameters) minus the scripted `cold`
// sources, plus the time / scheduler sources and operators of harness/conc/SPEC.md.
use crate::sx::Sx;
use crate::val::*;
use another_rxrust::prelude::*;
use another_rxrust::verif_facade::rt;
use std::sync::atomic::{AtomicUsize, Ordering};
use std::sync::{Arc, Mutex};
use std::time::Duration;

// ---------------------------------------------------------------- recorder
// The REAL std mutex: recording is not a scheduling point.
#[derive(Default)]
pub struct RecData {
  pub ev: Vec<Sx>,
  pub names: Vec<(u32, String)>,
}
#[derive(Clone, Default)]
pub struct Rec(pub Arc<Mutex<RecData>>);

pub fn atom<T: std::fmt::Display>(x: T) -> Sx {
  Sx::A(format!("{}", x))
}
pub fn tagged(tag: &str, mut args: Vec<Sx>) -> Sx {
  let mut v = vec![Sx::A(tag.to_string())];
  v.append(&mut args);
  Sx::L(v)
}

impl Rec {
  /// appends `(STEP VT TID TAG ARG...)`
  pub fn ev(&self, tag: &str, args: Vec<Sx>) {
    let mut v = Vec::with_capacity(4 + args.len());
    v.push(atom(rt::step()));
    v.push(atom(rt::now()));
    v.push(atom(rt::thread_id()));
    v.push(Sx::A(tag.to_string()));
    v.extend(args);
    self.0.lock().unwrap_or_else(|e| e.into_inner()).ev.push(Sx::L(v));
  }
  pub fn name(&self, tid: u32, name: &str) {
    self.0.lock().unwrap_or_else(|e| e.into_inner()).names.push((tid, name.to_string()));
  }
  pub fn take(&self) -> RecData {
    std::mem::take(&mut *self.0.lock().unwrap_or_else(|e| e.into_inner()))
  }
}

pub fn ev_n(v: &V) -> Sx {
  Sx::L(vec![Sx::A("n".into()), v.to_sx()])
}
pub fn ev_e(e: &RxError) -> Sx {
  Sx::L(vec![Sx::A("e".into()), Sx::A(err_id(e))])
}
pub fn ev_c() -> Sx {
  Sx::L(vec![Sx::A("c".into())])
}

// ---------------------------------------------------------------- subjects / connectables
#[derive(Clone)]
pub enum Subj {
  Plain(subjects::Subject<'static, V>),
  Behavior(subjects::BehaviorSubject<'static, V>),
  Replay(subjects::ReplaySubject<'static, V>),
  Async(subjects::AsyncSubject<'static, V>),
}
impl Subj {
  pub fn observable(&self) -> Observable<'static, V> {
    match self {
      Subj::Plain(s) => s.observable(),
      Subj::Behavior(s) => s.observable(),
      Subj::Replay(s) => s.observable(),
      Subj::Async(s) => s.observable(),
    }
  }
  pub fn next(&self, v: V) {
    match self {
      Subj::Plain(s) => s.next(v),
      Subj::Behavior(s) => s.next(v),
      Subj::Replay(s) => s.next(v),
      Subj::Async(s) => s.next(v),
    }
  }
  pub fn error(&self, e: RxError) {
    match self {
      Subj::Plain(s) => s.error(e),
      Subj::Behavior(s) => s.error(e),
      Subj::Replay(s) => s.error(e),
      Subj::Async(s) => s.error(e),
    }
  }
  pub fn complete(&self) {
    match self {
      Subj::Plain(s) => s.complete(),
      Subj::Behavior(s) => s.complete(),
      Subj::Replay(s) => s.complete(),
      Subj::Async(s) => s.complete(),
    }
  }
  pub fn count(&self) -> usize {
    match self {
      Subj::Plain(s) => s.verif_observer_count(),
      Subj::Behavior(s) => s.verif_observer_count(),
      Subj::Replay(s) => s.verif_observer_count(),
      Subj::Async(s) => s.verif_observer_count(),
    }
  }
}

#[derive(Clone)]
pub enum Conn {
  Publish(Arc<publish::Publish<'static, V>>),
  RefCount(Arc<ref_count::RefCount<'static, V>>),
  Replay(Arc<replay::Replay<'static, V>>),
}
impl Conn {
  pub fn observable(&self) -> Observable<'static, V> {
    match self {
      Conn::Publish(c) => c.observable(),
      Conn::RefCount(c) => c.observable(),
      Conn::Replay(c) => c.observable(),
    }
  }
}

// ---------------------------------------------------------------- builder
#[derive(Clone)]
pub struct PipeEnv {
  pub subjects: Vec<Subj>,
  pub conns: Vec<Conn>,
  pub pipes: Vec<Observable<'static, V>>,
  pub counters: Arc<Mutex<Vec<Arc<AtomicUsize>>>>,
  pub rec: Rec,
}

impl std::fmt::Debug for V {
  fn fmt(&self, f: &mut std::fmt::Formatter<'_>) -> std::fmt::Result {
    write!(f, "{}", self.to_sx().to_string())
  }
}

fn lift_list(v: Vec<V>) -> V {
  V::List(v)
}
fn ms(x: &Sx) -> Duration {
  let n = x.int();
  if n < 0 {
    panic!("negative duration {}", n);
  }
  Duration::from_millis(n as u64)
}
fn idx<'a, T>(v: &'a [T], x: &Sx, what: &str) -> &'a T {
  let i = x.int();
  if i < 0 || i as usize >= v.len() {
    panic!("{} {} does not exist (have {})", what, i, v.len());
  }
  &v[i as usize]
}

pub fn build(env: &PipeEnv, x: &Sx) -> Observable<'static, V> {
  let l = x.list();
  if l.is_empty() {
    panic!("bad pipe ()");
  }
  let need = |n: usize| {
    if l.len() < n {
      panic!("bad pipe {}", x.to_string());
    }
  };
  match l[0].atom() {
    "just" => {
      need(2);
      observables::just(V::from_sx(&l[1]))
    }
    "from_iter" => {
      let vs: Vec<V> = l[1..].iter().map(V::from_sx).collect();
      observables::from_iter(vs.into_iter())
    }
    // from_iter over an iterator that never ends: it must stop pulling when the subscription ends
    "from_iter_endless" => observables::from_iter((0i64..).map(V::int as fn(i64) -> V)),
    "range" => {
      need(3);
      observables::range(l[1].int(), l[2].int()).map(|i| V::int(i))
    }
    "empty" => observables::empty(),
    "never" => observables::never(),
    "error" => {
      need(2);
      observables::error(mk_err(l[1].int() as u32))
    }
    "repeat" => {
      need(2);
      observables::repeat(V::from_sx(&l[1]))
    }
    "defer" => {
      need(2);
      let env2 = env.clone();
      let inner = l[1].clone();
      let _ = build(env, &inner); // syntax check now, the real build happens per subscription
      let t = CTok::new();
      observables::defer(move || {
        t.touch();
        build(&env2, &inner)
      })
    }
    "start" => {
      need(2);
      let c = l[1].int() as usize;
      let ctr = {
        let mut cs = env.counters.lock().unwrap();
        while cs.len() <= c {
          cs.push(Arc::new(AtomicUsize::new(0)));
        }
        cs[c].clone()
      };
      let t = CTok::new();
      observables::start(move || {
        t.touch();
        V::int(ctr.fetch_add(1, Ordering::SeqCst) as i64)
      })
    }
    "result_ok" => {
      need(2);
      observables::from_result(Ok::<V, ErrId>(V::from_sx(&l[1])))
    }
    "result_err" => {
      need(2);
      observables::from_result(Err::<V, ErrId>(ErrId(l[1].int() as u32)))
    }
    "hot" => {
      need(2);
      idx(&env.subjects, &l[1], "subject").observable()
    }
    "conn" => {
      need(2);
      idx(&env.conns, &l[1], "conn").observable()
    }
    "pipe" => {
      need(2);
      idx(&env.pipes, &l[1], "pipe").clone()
    }
    "interval" => {
      need(2);
      observables::interval(ms(&l[1]), schedulers::new_thread_scheduler()).map(|n| V::int(n as i64))
    }
    // the same with the synchronous default scheduler: the ticker runs on the subscribing thread until it is unsubscribed
    "interval_sync" => {
      need(2);
      observables::interval(ms(&l[1]), schedulers::default_scheduler()).map(|n| V::int(n as i64))
    }
    "interval_us" => {
      need(2);
      observables::interval(Duration::from_micros(l[1].int() as u64), schedulers::new_thread_scheduler()).map(|n| V::int(n as i64))
    }
    "timer" => {
      need(2);
      observables::timer(ms(&l[1]), schedulers::new_thread_scheduler()).map(|_| V::Unit)
    }
    "op" => {
      need(4);
      let name = l[1].atom();
      let ps = l[2].list();
      let src = build(env, &l[3]);
      let others: Vec<Observable<'static, V>> = l[4..].iter().map(|p| build(env, p)).collect();
      apply_op(env, name, ps, src, others)
    }
    _ => panic!("bad pipe {}", x.to_string()),
  }
}

fn apply_op(
  env: &PipeEnv,
  name: &str,
  ps: &[Sx],
  src: Observable<'static, V>,
  others: Vec<Observable<'static, V>>,
) -> Observable<'static, V> {
  let t = CTok::new();
  let np = |n: usize| {
    if ps.len() < n {
      panic!("operator {} needs {} parameter(s)", name, n);
    }
  };
  let no = |n: usize| {
    if others.len() < n {
      panic!("operator {} needs {} more observable(s)", name, n);
    }
  };
  match name {
    "map" => {
      np(1);
      let f = Fn1::from_sx(&ps[0]);
      src.map(move |v| {
        t.touch();
        f.app(v)
      })
    }
    "filter" => {
      np(1);
      let p = Pred::from_sx(&ps[0]);
      src.filter(move |v| {
        t.touch();
        p.app(&v)
      })
    }
    "take" => {
      np(1);
      src.take(ps[0].int() as usize)
    }
    "take_while" => {
      np(1);
      let p = Pred::from_sx(&ps[0]);
      src.take_while(move |v| {
        t.touch();
        p.app(&v)
      })
    }
    "take_last" => {
      np(1);
      src.take_last(ps[0].int() as usize)
    }
    "skip" => {
      np(1);
      src.skip(ps[0].int() as usize)
    }
    "skip_last" => {
      np(1);
      src.skip_last(ps[0].int() as usize)
    }
    "skip_while" => {
      np(1);
      let p = Pred::from_sx(&ps[0]);
      src.skip_while(move |v| {
        t.touch();
        p.app(&v)
      })
    }
    "first" => src.first(),
    "last" => src.last(),
    "element_at" => {
      np(1);
      src.element_at(ps[0].int() as usize)
    }
    "distinct_until_changed" => src.distinct_until_changed(),
    "scan" => {
      np(1);
      let f = Fn2::from_sx(&ps[0]);
      src.scan(move |(a, x)| {
        t.touch();
        f.app(a, x)
      })
    }
    "reduce" => {
      np(1);
      let f = Fn2::from_sx(&ps[0]);
      src.reduce(move |(a, x)| {
        t.touch();
        f.app(a, x)
      })
    }
    "count" => src.count().map(|n| V::int(n as i64)),
    "sum" => src.sum(),
    "sum_and_count" => src.sum_and_count().map(|(s, n)| V::List(vec![s, V::int(n as i64)])),
    "min" => src.min(),
    "max" => src.max(),
    "all" => {
      np(1);
      let p = Pred::from_sx(&ps[0]);
      src
        .all(move |v| {
          t.touch();
          p.app(&v)
        })
        .map(V::Bool)
    }
    "contains" => {
      np(1);
      src.contains(V::from_sx(&ps[0])).map(V::Bool)
    }
    "default_if_empty" => {
      np(1);
      src.default_if_empty(V::from_sx(&ps[0]))
    }
    "ignore_elements" => src.ignore_elements(),
    "start_with" => {
      let vs: Vec<V> = ps.iter().map(V::from_sx).collect();
      src.start_with(vs.into_iter())
    }
    "buffer_with_count" => {
      np(1);
      src.buffer_with_count(ps[0].int() as usize).map(lift_list)
    }
    "window_with_count" => {
      np(1);
      src.window_with_count(ps[0].int() as usize).map(V::Obs)
    }
    "group_by" => {
      np(1);
      let k = ps[0].int();
      src
        .group_by(move |v: V| {
          t.touch();
          v.as_int().rem_euclid(k)
        })
        .map(V::Obs)
    }
    "materialize" => src.materialize().map(|m| match m {
      Material::Next(v) => V::MatN(Box::new(v)),
      Material::Error(e) => V::MatE(e),
      Material::Complete => V::MatC,
    }),
    "dematerialize" => src
      .map(|v| match v {
        V::MatN(x) => Material::Next(*x),
        V::MatE(e) => Material::Error(e),
        V::MatC => Material::Complete,
        other => Material::Next(other),
      })
      .dematerialize(),
    // (op tap (ID) P): records `(.. tap ID EVENT)` when the event passes this stage
    "tap" => {
      np(1);
      let id = ps[0].clone();
      let (i1, i2, i3) = (id.clone(), id.clone(), id);
      let (r1, r2, r3) = (env.rec.clone(), env.rec.clone(), env.rec.clone());
      let (t2, t3) = (CTok::new(), CTok::new());
      src.tap(
        move |v: V| {
          t.touch();
          r1.ev("tap", vec![i1.clone(), ev_n(&v)]);
        },
        move |e| {
          t2.touch();
          r2.ev("tap", vec![i2.clone(), ev_e(&e)]);
        },
        move || {
          t3.touch();
          r3.ev("tap", vec![i3.clone(), ev_c()]);
        },
      )
    }
    "map_to_any" => src.map_to_any().map(|a| a.downcast_ref::<V>().expect("map_to_any payload").clone()),
    "merge" => src.merge(&others),
    "flat_map" => {
      np(1);
      let sel = ps[0].list()[0].atom().to_string();
      if !["just", "pair", "mod"].contains(&sel.as_str()) {
        panic!("bad flat_map selector {}", sel);
      }
      let k = if sel == "pair" { ps[0].list()[1].int() } else { 0 };
      src.flat_map(move |v: V| {
        t.touch();
        match sel.as_str() {
          "just" => observables::just(v),
          "pair" => {
            let second = V::int(v.as_int() + k);
            observables::from_iter(vec![v, second].into_iter())
          }
          _ => {
            if others.is_empty() {
              observables::empty()
            } else {
              others[v.as_int().rem_euclid(others.len() as i64) as usize].clone()
            }
          }
        }
      })
    }
    "concat" => src.concat(&others),
    "zip" => src.zip(&others).map(lift_list),
    "combine_latest" => {
      np(1);
      let f = ps[0].atom().to_string();
      src.combine_latest(&others, move |l: Vec<V>| {
        t.touch();
        if f == "sum" {
          V::int(l.iter().map(|x| x.as_int()).sum())
        } else {
          V::List(l)
        }
      })
    }
    "amb" => src.amb(&others),
    "take_until" => {
      no(1);
      src.take_until(others[0].clone())
    }
    "skip_until" => {
      no(1);
      src.skip_until(others[0].clone())
    }
    "sample" => {
      no(1);
      src.sample(others[0].clone())
    }
    "switch_on_next" => {
      no(1);
      src.switch_on_next(others[0].clone())
    }
    "sequence_equal" => src.sequence_equal(&others).map(V::Bool),
    "retry" => {
      np(1);
      src.retry(ps[0].int() as usize)
    }
    "retry_when" => {
      np(1);
      let p = EPred::from_sx(&ps[0]);
      src.retry_when(move |e| {
        t.touch();
        p.app(&e)
      })
    }
    "on_error_resume_next" => src.on_error_resume_next(move |e: RxError| {
      t.touch();
      if others.is_empty() {
        observables::empty()
      } else {
        let id = e.downcast_ref::<ErrId>().map(|x| x.0).unwrap_or(0) as usize;
        others[id % others.len()].clone()
      }
    }),
    // ---- time / scheduler operators (durations in virtual ms)
    "observe_on" => src.observe_on(schedulers::new_thread_scheduler()),
    "subscribe_on" => src.subscribe_on(schedulers::new_thread_scheduler()),
    "observe_on_default" => src.observe_on(schedulers::default_scheduler()),
    "subscribe_on_default" => src.subscribe_on(schedulers::default_scheduler()),
    "delay" => {
      np(1);
      src.delay(ms(&ps[0]))
    }
    "timeout" => {
      np(1);
      src.timeout(ms(&ps[0]), schedulers::new_thread_scheduler())
    }
    "delay_us" => {
      np(1);
      src.delay(Duration::from_micros(ps[0].int() as u64))
    }
    // the deadline timer runs on the emitting thread: the item's next() returns after the period, with TimedOut delivered
    "timeout_sync" => {
      np(1);
      src.timeout(ms(&ps[0]), schedulers::default_scheduler())
    }
    "debounce" => {
      np(1);
      src.debounce(ms(&ps[0]), schedulers::new_thread_scheduler())
    }
    _ => panic!("bad operator {}", name),
  }
}
