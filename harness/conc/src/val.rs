// The single item type `V` used for every pipeline (mirrors coq/Model/Val.v), the function
// families, and the drop-counted tokens used for C17.
use crate::sx::Sx;
use another_rxrust::prelude::*;
use std::sync::atomic::{AtomicI64, Ordering};

pub static LIVE_ITEMS: AtomicI64 = AtomicI64::new(0);
pub static LIVE_CLOSURES: AtomicI64 = AtomicI64::new(0);

/// Token riding on every integer item: counts live copies.
pub struct ITok;
impl ITok {
  pub fn new() -> ITok {
    LIVE_ITEMS.fetch_add(1, Ordering::SeqCst);
    ITok
  }
}
impl Clone for ITok {
  fn clone(&self) -> ITok {
    ITok::new()
  }
}
impl Drop for ITok {
  fn drop(&mut self) {
    LIVE_ITEMS.fetch_sub(1, Ordering::SeqCst);
  }
}

/// Token captured by every closure handed to the library (user callbacks and operator arguments).
pub struct CTok;
impl CTok {
  pub fn new() -> CTok {
    LIVE_CLOSURES.fetch_add(1, Ordering::SeqCst);
    CTok
  }
  pub fn touch(&self) {}
}
impl Drop for CTok {
  fn drop(&mut self) {
    LIVE_CLOSURES.fetch_sub(1, Ordering::SeqCst);
  }
}

#[derive(Debug)]
pub struct ErrId(pub u32);

pub fn mk_err(id: u32) -> RxError {
  RxError::from_error(ErrId(id))
}
pub fn err_id(e: &RxError) -> String {
  if let Some(ErrId(id)) = e.downcast_ref::<ErrId>() {
    format!("{}", id)
  } else if let Some(io) = e.downcast_ref::<std::io::Error>() {
    if io.kind() == std::io::ErrorKind::TimedOut {
      "9999".to_string()
    } else {
      "?io".to_string()
    }
  } else {
    "?".to_string()
  }
}

#[derive(Clone)]
pub enum V {
  Int(i64, ITok),
  Bool(bool),
  Unit,
  List(Vec<V>),
  MatN(Box<V>),
  MatE(RxError),
  MatC,
  Obs(Observable<'static, V>),
}

impl V {
  pub fn int(i: i64) -> V {
    V::Int(i, ITok::new())
  }
  pub fn as_int(&self) -> i64 {
    match self {
      V::Int(i, _) => *i,
      V::Bool(true) => 1,
      _ => 0,
    }
  }
  pub fn to_sx(&self) -> Sx {
    match self {
      V::Int(i, _) => Sx::A(format!("{}", i)),
      V::Bool(b) => Sx::L(vec![Sx::A("b".into()), Sx::A(if *b { "1" } else { "0" }.into())]),
      V::Unit => Sx::L(vec![Sx::A("u".into())]),
      V::List(l) => {
        let mut v = vec![Sx::A("l".into())];
        v.extend(l.iter().map(|x| x.to_sx()));
        Sx::L(v)
      }
      V::MatN(x) => Sx::L(vec![Sx::A("mn".into()), x.to_sx()]),
      V::MatE(e) => Sx::L(vec![Sx::A("me".into()), Sx::A(err_id(e))]),
      V::MatC => Sx::L(vec![Sx::A("mc".into())]),
      V::Obs(_) => Sx::L(vec![Sx::A("obs".into())]),
    }
  }
  pub fn from_sx(x: &Sx) -> V {
    match x {
      Sx::A(_) => V::int(x.int()),
      Sx::L(l) => match l[0].atom() {
        "b" => V::Bool(l[1].int() != 0),
        "u" => V::Unit,
        "l" => V::List(l[1..].iter().map(V::from_sx).collect()),
        "mn" => V::MatN(Box::new(V::from_sx(&l[1]))),
        "me" => V::MatE(mk_err(l[1].int() as u32)),
        "mc" => V::MatC,
        _ => panic!("bad value {}", x.to_string()),
      },
    }
  }
}

impl PartialEq for V {
  fn eq(&self, other: &V) -> bool {
    match (self, other) {
      (V::Int(a, _), V::Int(b, _)) => a == b,
      (V::Bool(a), V::Bool(b)) => a == b,
      (V::Unit, V::Unit) => true,
      (V::List(a), V::List(b)) => a == b,
      (V::MatN(a), V::MatN(b)) => a == b,
      (V::MatE(a), V::MatE(b)) => err_id(a) == err_id(b),
      (V::MatC, V::MatC) => true,
      _ => false,
    }
  }
}
impl PartialOrd for V {
  fn partial_cmp(&self, other: &V) -> Option<std::cmp::Ordering> {
    self.as_int().partial_cmp(&other.as_int())
  }
}
impl std::ops::Add for V {
  type Output = V;
  fn add(self, rhs: V) -> V {
    V::int(self.as_int() + rhs.as_int())
  }
}

// ---------------------------------------------------------------- function families
#[derive(Clone)]
pub enum Fn1 {
  Add(i64),
  Mul(i64),
  Const(i64),
  Id,
  Mod(i64),
}
impl Fn1 {
  pub fn from_sx(x: &Sx) -> Fn1 {
    let l = x.list();
    match l[0].atom() {
      "add" => Fn1::Add(l[1].int()),
      "mul" => Fn1::Mul(l[1].int()),
      "const" => Fn1::Const(l[1].int()),
      "id" => Fn1::Id,
      "mod" => Fn1::Mod(l[1].int()),
      _ => panic!("bad fn1 {}", x.to_string()),
    }
  }
  pub fn app(&self, v: V) -> V {
    match self {
      Fn1::Add(k) => V::int(v.as_int() + k),
      Fn1::Mul(k) => V::int(v.as_int() * k),
      Fn1::Const(k) => V::int(*k),
      Fn1::Id => v,
      Fn1::Mod(k) => V::int(v.as_int().rem_euclid(*k)),
    }
  }
}

#[derive(Clone)]
pub enum Pred {
  Lt(i64),
  Ge(i64),
  Even,
  Odd,
  True,
  False,
  Eq(i64),
  Ne(i64),
}
impl Pred {
  pub fn from_sx(x: &Sx) -> Pred {
    let l = x.list();
    match l[0].atom() {
      "lt" => Pred::Lt(l[1].int()),
      "ge" => Pred::Ge(l[1].int()),
      "even" => Pred::Even,
      "odd" => Pred::Odd,
      "true" => Pred::True,
      "false" => Pred::False,
      "eq" => Pred::Eq(l[1].int()),
      "ne" => Pred::Ne(l[1].int()),
      _ => panic!("bad pred {}", x.to_string()),
    }
  }
  pub fn app(&self, v: &V) -> bool {
    let i = v.as_int();
    match self {
      Pred::Lt(k) => i < *k,
      Pred::Ge(k) => *k <= i,
      Pred::Even => i.rem_euclid(2) == 0,
      Pred::Odd => i.rem_euclid(2) != 0,
      Pred::True => true,
      Pred::False => false,
      Pred::Eq(k) => i == *k,
      Pred::Ne(k) => i != *k,
    }
  }
}

#[derive(Clone)]
pub enum Fn2 {
  Add,
  Max,
  Min,
  Fst,
  Snd,
  SubMul,
}
impl Fn2 {
  pub fn from_sx(x: &Sx) -> Fn2 {
    match x.atom() {
      "add" => Fn2::Add,
      "max" => Fn2::Max,
      "min" => Fn2::Min,
      "fst" => Fn2::Fst,
      "snd" => Fn2::Snd,
      "submul" => Fn2::SubMul,
      _ => panic!("bad fn2 {}", x.to_string()),
    }
  }
  pub fn app(&self, a: V, x: V) -> V {
    match self {
      Fn2::Add => V::int(a.as_int() + x.as_int()),
      Fn2::Max => V::int(std::cmp::max(a.as_int(), x.as_int())),
      Fn2::Min => V::int(std::cmp::min(a.as_int(), x.as_int())),
      Fn2::Fst => a,
      Fn2::Snd => x,
      Fn2::SubMul => V::int(2 * a.as_int() - x.as_int()),
    }
  }
}

#[derive(Clone)]
pub enum EPred {
  Always,
  Never,
  Eq(u32),
  Lt(u32),
}
impl EPred {
  pub fn from_sx(x: &Sx) -> EPred {
    let l = x.list();
    match l[0].atom() {
      "always" => EPred::Always,
      "never" => EPred::Never,
      "eq" => EPred::Eq(l[1].int() as u32),
      "lt" => EPred::Lt(l[1].int() as u32),
      _ => panic!("bad epred {}", x.to_string()),
    }
  }
  pub fn app(&self, e: &RxError) -> bool {
    let id = e.downcast_ref::<ErrId>().map(|x| x.0).unwrap_or(u32::MAX);
    match self {
      EPred::Always => true,
      EPred::Never => false,
      EPred::Eq(k) => id == *k,
      EPred::Lt(k) => id < *k,
    }
  }
}
