// Minimal s-expression reader/printer (the scenario and observation syntax shared with ml/driver.ml).
#[derive(Clone, Debug, PartialEq)]
pub enum Sx {
  A(String),
  L(Vec<Sx>),
}

pub fn parse(s: &str) -> Result<Vec<Sx>, String> {
  let b = s.as_bytes();
  let mut pos = 0usize;
  let mut out = Vec::new();
  fn skip(b: &[u8], pos: &mut usize) {
    while *pos < b.len() && (b[*pos] as char).is_whitespace() {
      *pos += 1;
    }
  }
  fn item(b: &[u8], pos: &mut usize) -> Result<Sx, String> {
    skip(b, pos);
    if *pos >= b.len() {
      return Err("eof".into());
    }
    if b[*pos] == b'(' {
      *pos += 1;
      let mut v = Vec::new();
      loop {
        skip(b, pos);
        if *pos >= b.len() {
          return Err("unbalanced".into());
        }
        if b[*pos] == b')' {
          *pos += 1;
          return Ok(Sx::L(v));
        }
        v.push(item(b, pos)?);
      }
    } else {
      let st = *pos;
      while *pos < b.len() && !(b[*pos] as char).is_whitespace() && b[*pos] != b'(' && b[*pos] != b')' {
        *pos += 1;
      }
      Ok(Sx::A(String::from_utf8_lossy(&b[st..*pos]).to_string()))
    }
  }
  loop {
    skip(b, &mut pos);
    if pos >= b.len() {
      break;
    }
    out.push(item(b, &mut pos)?);
  }
  Ok(out)
}

impl Sx {
  pub fn to_string(&self) -> String {
    match self {
      Sx::A(s) => s.clone(),
      Sx::L(l) => format!("({})", l.iter().map(|x| x.to_string()).collect::<Vec<_>>().join(" ")),
    }
  }
  pub fn atom(&self) -> &str {
    match self {
      Sx::A(s) => s,
      Sx::L(_) => panic!("expected atom, got {}", self.to_string()),
    }
  }
  pub fn int(&self) -> i64 {
    self.atom().parse::<i64>().unwrap_or_else(|_| panic!("expected int, got {}", self.to_string()))
  }
  pub fn list(&self) -> &[Sx] {
    match self {
      Sx::L(l) => l,
      Sx::A(_) => panic!("expected list, got {}", self.to_string()),
    }
  }
  pub fn head(&self) -> &str {
    match self {
      Sx::L(l) if !l.is_empty() => l[0].atom(),
      _ => panic!("expected (head ...), got {}", self.to_string()),
    }
  }
}

pub fn field<'a>(l: &'a [Sx], name: &str) -> &'a [Sx] {
  for x in l {
    if let Sx::L(v) = x {
      if !v.is_empty() {
        if let Sx::A(h) = &v[0] {
          if h == name {
            return &v[1..];
          }
        }
      }
    }
  }
  &[]
}
