// Scripted concurrent scenarios on the REAL crate (instrumented copy of /repo's working tree) under the
// deterministic scheduling runtime of the std facade.  See SPEC.md / README.md.
// usage: rxconc [START_INDEX]   (scenarios on stdin, one per line)
//        rxconc --selfcheck
mod pipe;
mod sx;
mod val;

use another_rxrust::prelude::*;
use another_rxrust::verif_facade::rt::{self, Config, Outcome, Status, Strategy};
use another_rxrust::verif_facade::{sync as fsync, thread as fthread};
use pipe::*;
use scheduler::IScheduler;
use std::collections::HashMap;
use std::future::Future;
use std::io::Write;
use std::sync::atomic::{AtomicUsize, Ordering};
use std::sync::{Arc, Mutex, Weak};
use std::time::Duration;
use sx::{field, Sx};
use val::*;

const DEFAULT_MAX_STEPS: u64 = 20_000;
const DEFAULT_MAX_VT_MS: u64 = 60_000;
const NS_PER_MS: u64 = 1_000_000;
/// set when a run failed for lack of OS threads / address space; main then exits with status 3 after `END`
static EXHAUSTED: std::sync::atomic::AtomicBool = std::sync::atomic::AtomicBool::new(false);

// ---------------------------------------------------------------- scenario (parsed once, outside rt::run)
enum ObjSpec {
  Sched { default: bool },
  Subject { kind: String, init: Option<Sx> },
  Observer,
  Pipe(Sx),
  ToVec(Sx),
  Conn { kind: String, pipe: Sx },
}

enum PRef {
  Obj(usize),
  Inline(Sx),
}

enum Act {
  Next(usize, Sx),
  Error(usize, u32),
  Complete(usize),
  ONext(usize, Sx),
  OError(usize, u32),
  OComplete(usize),
  OUnsub(usize),
  OIsSub(usize),
  Sub { u: usize, p: PRef, reacts: Arc<Vec<(usize, Vec<ActN>)>> },
  Unsub(usize),
  IsSub(usize),
  Post { s: usize, t: Sx, acts: Arc<Vec<ActN>>, guarded: bool },
  Abort(usize),
  Sleep(u64),
  Yield,
  Count(usize),
  BlockOn(usize),
  BlockOnHandover(usize),
  BlockOnLate(usize, u64),
  Using(usize),
  UsingPanic(usize),
  DropSched(usize),
  Repoll(usize),
  Connect(usize, usize),
  Disconnect(usize),
}

/// an action together with its printed form (as in the scenario, `(react ..)` elements removed)
struct ActN {
  act: Act,
  printed: Sx,
}

enum SchedSpec {
  Random { seed: u64, n: u64 },
  Pct { depth: u32, seed: u64, n: u64 },
  Rr { seed: u64, n: u64 },
  Replay { seed: u64, choices: Vec<u32> },
  Dfs { limit: u64 },
}

struct Scenario {
  objects: Vec<ObjSpec>,
  init: Vec<ActN>,
  threads: Vec<(String, Arc<Vec<ActN>>)>,
  fini: Vec<ActN>,
  sched: SchedSpec,
  max_steps: u64,
  max_vt_ns: u64,
  spurious: bool,
  want_choices: bool,
  want_edges: bool,
  writer_pref: bool,
}

#[derive(Default, Clone, Copy)]
struct Counts {
  scheds: usize,
  subjects: usize,
  observers: usize,
  pipes: usize,
  tovecs: usize,
  conns: usize,
}

/// `0`, `H0`, `S1`, `TV2`, ... -> index (an optional alphabetic prefix is ignored)
fn parse_ref(x: &Sx, n: usize, what: &str) -> usize {
  let a = x.atom();
  let digits = a.trim_start_matches(|c: char| c.is_ascii_alphabetic());
  let i: usize = digits.parse().unwrap_or_else(|_| panic!("bad {} reference {}", what, a));
  if i >= n {
    panic!("{} {} does not exist (have {})", what, i, n);
  }
  i
}
fn parse_slot(x: &Sx) -> usize {
  parse_ref(x, usize::MAX, "slot")
}
fn is_react(x: &Sx) -> bool {
  matches!(x, Sx::L(v) if !v.is_empty() && v[0] == Sx::A("react".into()))
}
fn strip_reacts(x: &Sx) -> Sx {
  match x {
    Sx::A(_) => x.clone(),
    Sx::L(v) => Sx::L(v.iter().filter(|e| !is_react(e)).map(strip_reacts).collect()),
  }
}
fn check_atom(x: &Sx) -> Sx {
  let a = x.atom();
  if a.is_empty() || a.contains('"') {
    panic!("bad atom {}", a);
  }
  x.clone()
}

fn parse_acts(xs: &[Sx], c: &Counts) -> Vec<ActN> {
  xs.iter().map(|x| parse_act(x, c)).collect()
}

fn parse_act(x: &Sx, c: &Counts) -> ActN {
  let l = x.list();
  let need = |n: usize| {
    if l.len() < n {
      panic!("bad action {}", x.to_string());
    }
  };
  need(1);
  let val = |v: &Sx| {
    let _ = V::from_sx(v); // validate now
    v.clone()
  };
  let act = match l[0].atom() {
    "next" => {
      need(3);
      Act::Next(parse_ref(&l[1], c.subjects, "subject"), val(&l[2]))
    }
    "error" => {
      need(3);
      Act::Error(parse_ref(&l[1], c.subjects, "subject"), l[2].int() as u32)
    }
    "complete" => {
      need(2);
      Act::Complete(parse_ref(&l[1], c.subjects, "subject"))
    }
    "onext" => {
      need(3);
      Act::ONext(parse_ref(&l[1], c.observers, "observer"), val(&l[2]))
    }
    "oerror" => {
      need(3);
      Act::OError(parse_ref(&l[1], c.observers, "observer"), l[2].int() as u32)
    }
    "ocomplete" => {
      need(2);
      Act::OComplete(parse_ref(&l[1], c.observers, "observer"))
    }
    "ounsub" => {
      need(2);
      Act::OUnsub(parse_ref(&l[1], c.observers, "observer"))
    }
    "oissub" => {
      need(2);
      Act::OIsSub(parse_ref(&l[1], c.observers, "observer"))
    }
    "sub" => {
      need(3);
      let u = parse_slot(&l[1]);
      let p = match &l[2] {
        Sx::A(_) => PRef::Obj(parse_ref(&l[2], c.pipes, "pipe")),
        Sx::L(_) => PRef::Inline(l[2].clone()),
      };
      let mut reacts = Vec::new();
      for r in &l[3..] {
        if !is_react(r) || r.list().len() < 2 {
          panic!("bad reaction {}", r.to_string());
        }
        let rl = r.list();
        reacts.push((rl[1].int() as usize, parse_acts(&rl[2..], c)));
      }
      Act::Sub { u, p, reacts: Arc::new(reacts) }
    }
    "unsub" => {
      need(2);
      Act::Unsub(parse_slot(&l[1]))
    }
    "issub" => {
      need(2);
      Act::IsSub(parse_slot(&l[1]))
    }
    "post" => {
      need(3);
      Act::Post { s: parse_ref(&l[1], c.scheds, "scheduler"), t: check_atom(&l[2]), acts: Arc::new(parse_acts(&l[3..], c)), guarded: false }
    }
    // a task with an empty body whose closure owns a guard: the actions run in the guard's DESTRUCTOR, i.e. when the scheduler lets
    // go of the last copy of the task (after it has run, or when it is discarded)
    "post-guarded" => {
      need(3);
      Act::Post { s: parse_ref(&l[1], c.scheds, "scheduler"), t: check_atom(&l[2]), acts: Arc::new(parse_acts(&l[3..], c)), guarded: true }
    }
    "abort" => {
      need(2);
      Act::Abort(parse_ref(&l[1], c.scheds, "scheduler"))
    }
    "drop-sched" => {
      need(2);
      Act::DropSched(parse_ref(&l[1], c.scheds, "scheduler"))
    }
    "sleep" => {
      need(2);
      let n = l[1].int();
      if n < 0 {
        panic!("negative sleep");
      }
      Act::Sleep(n as u64)
    }
    "yield" => Act::Yield,
    "count" => {
      need(2);
      Act::Count(parse_ref(&l[1], c.subjects, "subject"))
    }
    "block_on" => {
      need(2);
      Act::BlockOn(parse_ref(&l[1], c.tovecs, "tovec"))
    }
    "block_on_handover" => {
      need(2);
      Act::BlockOnHandover(parse_ref(&l[1], c.tovecs, "tovec"))
    }
    // the future is made now, polled for the first time only MS (virtual) milliseconds later
    "block_on_late" => {
      need(3);
      Act::BlockOnLate(parse_ref(&l[1], c.tovecs, "tovec"), l[2].int() as u64)
    }
    "using" => {
      need(2);
      Act::Using(parse_slot(&l[1]))
    }
    "using-panic" => {
      need(2);
      Act::UsingPanic(parse_slot(&l[1]))
    }
    "repoll" => {
      need(2);
      Act::Repoll(parse_ref(&l[1], c.tovecs, "tovec"))
    }
    "connect" => {
      need(3);
      Act::Connect(parse_ref(&l[1], c.conns, "conn"), parse_slot(&l[2]))
    }
    "disconnect" => {
      need(2);
      Act::Disconnect(parse_slot(&l[1]))
    }
    _ => panic!("bad action {}", x.to_string()),
  };
  ActN { act, printed: strip_reacts(x) }
}

fn parse_scenario(x: &Sx) -> Scenario {
  if x.head() != "conc" {
    panic!("expected (conc ...)");
  }
  let fs = &x.list()[1..];
  let mut c = Counts::default();
  let mut objects = Vec::new();
  for o in field(fs, "objects") {
    let ol = o.list();
    let spec = match o.head() {
      "sched" => {
        c.scheds += 1;
        match ol.get(1).map(|k| k.atom()) {
          Some("new_thread") => ObjSpec::Sched { default: false },
          Some("default") => ObjSpec::Sched { default: true },
          _ => panic!("bad object {}", o.to_string()),
        }
      }
      "subject" => {
        c.subjects += 1;
        let kind = ol.get(1).map(|k| k.atom().to_string()).unwrap_or_else(|| "subject".into());
        let init = match kind.as_str() {
          "subject" | "replay" | "async" => None,
          "behavior" => {
            let v = ol.get(2).unwrap_or_else(|| panic!("behavior subject needs an initial value"));
            let _ = V::from_sx(v);
            Some(v.clone())
          }
          _ => panic!("bad object {}", o.to_string()),
        };
        ObjSpec::Subject { kind, init }
      }
      "observer" => {
        c.observers += 1;
        ObjSpec::Observer
      }
      "pipe" => {
        c.pipes += 1;
        ObjSpec::Pipe(ol.get(1).unwrap_or_else(|| panic!("bad object {}", o.to_string())).clone())
      }
      "tovec" => {
        c.tovecs += 1;
        ObjSpec::ToVec(ol.get(1).unwrap_or_else(|| panic!("bad object {}", o.to_string())).clone())
      }
      "conn" => {
        c.conns += 1;
        if ol.len() < 3 || !["publish", "refcount", "replay"].contains(&ol[1].atom()) {
          panic!("bad object {}", o.to_string());
        }
        ObjSpec::Conn { kind: ol[1].atom().to_string(), pipe: ol[2].clone() }
      }
      _ => panic!("bad object {}", o.to_string()),
    };
    objects.push(spec);
  }
  let init = parse_acts(field(fs, "init"), &c);
  let fini = parse_acts(field(fs, "fini"), &c);
  let mut threads = Vec::new();
  for t in field(fs, "threads") {
    let tl = t.list();
    if tl.is_empty() {
      panic!("bad thread ()");
    }
    threads.push((check_atom(&tl[0]).atom().to_string(), Arc::new(parse_acts(&tl[1..], &c))));
  }
  let sf = field(fs, "sched");
  if sf.is_empty() {
    panic!("missing (sched ...)");
  }
  let u = |i: usize| -> u64 {
    let v = sf.get(i).unwrap_or_else(|| panic!("bad (sched ...): too few arguments")).int();
    if v < 0 {
      panic!("bad (sched ...): negative number");
    }
    v as u64
  };
  let sched = match sf[0].atom() {
    "random" => SchedSpec::Random { seed: u(1), n: u(2) },
    "pct" => SchedSpec::Pct { depth: u(1) as u32, seed: u(2), n: u(3) },
    "rr" => SchedSpec::Rr { seed: if sf.len() > 1 { u(1) } else { 0 }, n: if sf.len() > 2 { u(2) } else { 1 } },
    "replay" => SchedSpec::Replay { seed: 0, choices: (1..sf.len()).map(|i| u(i) as u32).collect() },
    // extension: replay under the seed of the run that is reproduced (the seed fixes HashMap iteration orders)
    "replay-seed" => SchedSpec::Replay { seed: u(1), choices: (2..sf.len()).map(|i| u(i) as u32).collect() },
    "dfs" => SchedSpec::Dfs { limit: u(1) },
    s => panic!("bad strategy {}", s),
  };
  let lf = field(fs, "limits");
  let (max_steps, max_vt_ms) = if lf.len() >= 2 { (lf[0].int() as u64, lf[1].int() as u64) } else { (DEFAULT_MAX_STEPS, DEFAULT_MAX_VT_MS) };
  let flag = |name: &str| x.list()[1..].iter().any(|f| matches!(f, Sx::L(v) if v.len() == 1 && v[0] == Sx::A(name.into())));
  Scenario {
    objects,
    init,
    threads,
    fini,
    sched,
    max_steps,
    max_vt_ns: max_vt_ms.saturating_mul(NS_PER_MS),
    spurious: flag("spurious"),
    want_choices: flag("want-choices"),
    want_edges: flag("want-edges"),
    writer_pref: flag("writer-pref"),
  }
}

// ---------------------------------------------------------------- objects of one run
#[derive(Clone)]
enum Sched {
  NewThread(schedulers::NewThreadScheduler<'static>),
  Default(schedulers::DefaultScheduler),
}

struct Objects {
  scheds: Vec<Mutex<Option<Sched>>>,   // (a handle can be dropped by the scenario: `(drop-sched i)`)
  observers: Vec<Observer<'static, V>>,
  tovecs: Vec<Observable<'static, V>>,
  penv: PipeEnv, // subjects, conns, pipes
  // harness bookkeeping: real std mutexes, never held across a library call (no scheduling point inside)
  slots: Mutex<HashMap<usize, Subscription<'static>>>,
  cslots: Mutex<HashMap<usize, Subscription<'static>>>,
  cbcount: Mutex<HashMap<usize, Arc<AtomicUsize>>>,
  nchild: AtomicUsize,
}

/// What every closure handed to the crate captures: the recorder and a WEAK handle on the objects (so that
/// subject -> observer -> closure -> objects is not a reference cycle; the strong handle lives in `run_once`).
#[derive(Clone)]
struct Cx {
  rec: Rec,
  objs: Weak<Objects>,
}
impl Cx {
  fn objs(&self) -> Arc<Objects> {
    self.objs.upgrade().expect("objects of the run are gone")
  }
}

/// `with_scheds = false`: validation pass in passive mode (no thread may be spawned there)
fn create_objects(sc: &Scenario, rec: &Rec, with_scheds: bool) -> Objects {
  let mut scheds = Vec::new();
  let mut observers = Vec::new();
  let mut subjects = Vec::new();
  // pass 1: everything but pipes, in listed order
  for o in sc.objects.iter() {
    match o {
      ObjSpec::Sched { default } => {
        if with_scheds {
          scheds.push(Mutex::new(Some(if *default { Sched::Default(schedulers::default_scheduler()()) } else { Sched::NewThread(schedulers::new_thread_scheduler()()) })));
        }
      }
      ObjSpec::Subject { kind, init } => subjects.push(match kind.as_str() {
        "subject" => Subj::Plain(subjects::Subject::new()),
        "behavior" => Subj::Behavior(subjects::BehaviorSubject::new(V::from_sx(init.as_ref().unwrap()))),
        "replay" => Subj::Replay(subjects::ReplaySubject::new()),
        _ => Subj::Async(subjects::AsyncSubject::new()),
      }),
      ObjSpec::Observer => {
        let o = atom(observers.len());
        let (r1, r2, r3) = (rec.clone(), rec.clone(), rec.clone());
        let (o1, o2, o3) = (o.clone(), o.clone(), o);
        observers.push(Observer::new(
          move |v: V| {
            r1.ev("ocb", vec![o1.clone(), ev_n(&v)]);
            r1.ev("ocbret", vec![o1.clone()]);
          },
          move |e: RxError| {
            r2.ev("ocb", vec![o2.clone(), ev_e(&e)]);
            r2.ev("ocbret", vec![o2.clone()]);
          },
          move || {
            r3.ev("ocb", vec![o3.clone(), ev_c()]);
            r3.ev("ocbret", vec![o3.clone()]);
          },
        ));
      }
      _ => {}
    }
  }
  // pass 2: pipes, connectables and to_vec sources, in listed order (they may refer to earlier ones)
  let mut penv = PipeEnv { subjects, conns: Vec::new(), pipes: Vec::new(), counters: Arc::new(Mutex::new(Vec::new())), rec: rec.clone() };
  let mut tovecs = Vec::new();
  for o in sc.objects.iter() {
    match o {
      ObjSpec::Pipe(p) => {
        let ob = build(&penv, p);
        penv.pipes.push(ob);
      }
      ObjSpec::ToVec(p) => tovecs.push(build(&penv, p)),
      ObjSpec::Conn { kind, pipe } => {
        let ob = build(&penv, pipe);
        penv.conns.push(match kind.as_str() {
          "publish" => Conn::Publish(Arc::new(ob.publish())),
          "refcount" => Conn::RefCount(Arc::new(ob.ref_count())),
          _ => Conn::Replay(Arc::new(ob.replay())),
        });
      }
      _ => {}
    }
  }
  Objects { scheds, observers, tovecs, penv, slots: Mutex::new(HashMap::new()), cslots: Mutex::new(HashMap::new()), cbcount: Mutex::new(HashMap::new()), nchild: AtomicUsize::new(0) }
}

/// Static validation (outside rt::run): builds every pipe once so that malformed scenarios are reported as
/// `harness-panic` instead of as a panic of the crate inside a run.
fn validate(sc: &Scenario) {
  fn walk(acts: &[ActN], env: &PipeEnv) {
    for a in acts {
      match &a.act {
        Act::Sub { p, reacts, .. } => {
          if let PRef::Inline(x) = p {
            let _ = build(env, x);
          }
          for (_, r) in reacts.iter() {
            walk(r, env);
          }
        }
        Act::Post { acts, .. } => walk(acts, env),
        _ => {}
      }
    }
  }
  let objs = create_objects(sc, &Rec::default(), false);
  walk(&sc.init, &objs.penv);
  walk(&sc.fini, &objs.penv);
  for (_, t) in sc.threads.iter() {
    walk(t, &objs.penv);
  }
}

// ---------------------------------------------------------------- minimal block_on
struct Token {
  flag: fsync::Mutex<bool>,
  cv: fsync::Condvar,
}
impl std::task::Wake for Token {
  fn wake(self: Arc<Self>) {
    *self.flag.lock().unwrap() = true;
    self.cv.notify_one();
  }
}

// the token the executor of each to_vec is currently parked on (real std mutex: not a scheduling point);
// `(repoll TV)` wakes it from another thread, as a select/join-style combinator re-polling its children would
static CURRENT_TOKEN: Mutex<Option<HashMap<usize, Arc<Token>>>> = Mutex::new(None);

fn repoll(tv: usize) {
  let t = CURRENT_TOKEN.lock().unwrap().as_ref().and_then(|m| m.get(&tv).cloned());
  if let Some(t) = t {
    std::task::Wake::wake(t);
  }
}

// handover: after the first pending poll the awaiter goes on with a CLONE of the future and drops the handle it polled first
// (clones share the to_vec state, so whichever handle is polled resolves when the source terminates)
fn block_on(cx: &Cx, tv: usize, source: &Observable<'static, V>, handover: bool, late_ms: u64) {
  let tvx = atom(tv);
  let fut = source.to_vec();
  cx.rec.ev("made", vec![tvx.clone()]);
  if late_ms > 0 {
    fthread::sleep(Duration::from_millis(late_ms)); // the awaiter does something else first: what the source emits meanwhile belongs to the result
  }
  let fut2 = fut.clone(); // a second awaiter of the same to_vec state (clones share it): polled once the first has resolved
  let mut fut = Box::pin(fut);
  let mut k = 0usize;
  let res = loop {
    // every poll hands in a FRESH waker; only the latest one is waited on
    let token = Arc::new(Token { flag: fsync::Mutex::new(false), cv: fsync::Condvar::new() });
    CURRENT_TOKEN.lock().unwrap().get_or_insert_with(HashMap::new).insert(tv, token.clone());
    let waker = std::task::Waker::from(token.clone());
    let mut tcx = std::task::Context::from_waker(&waker);
    cx.rec.ev("poll", vec![tvx.clone(), atom(k)]);
    k += 1;
    if let std::task::Poll::Ready(r) = fut.as_mut().poll(&mut tcx) {
      break r;
    }
    if handover && k == 1 {
      let c = (*fut).clone();
      fut = Box::pin(c); // the handle polled first is dropped here
      cx.rec.ev("handover", vec![tvx.clone()]);
    }
    let mut g = token.flag.lock().unwrap();
    while !*g {
      g = token.cv.wait(g).unwrap();
    }
    *g = false;
  };
  if let Some(m) = CURRENT_TOKEN.lock().unwrap().as_mut() {
    m.remove(&tv);
  }
  let show = |res: Result<Arc<fsync::RwLock<Vec<V>>>, RxError>| match res {
    Ok(buf) => {
      let items: Vec<V> = buf.read().unwrap().clone();
      tagged("ok", items.iter().map(|v| v.to_sx()).collect())
    }
    Err(e) => tagged("err", vec![Sx::A(err_id(&e))]),
  };
  let r = show(res);
  cx.rec.ev("result", vec![tvx.clone(), r]);
  // the clone resolves at once, to the same result
  let mut fut2 = std::pin::pin!(fut2);
  let token = Arc::new(Token { flag: fsync::Mutex::new(false), cv: fsync::Condvar::new() });
  let waker = std::task::Waker::from(token);
  let mut tcx = std::task::Context::from_waker(&waker);
  let r2 = match fut2.as_mut().poll(&mut tcx) {
    std::task::Poll::Ready(r) => show(r),
    std::task::Poll::Pending => Sx::A("pending".into()),
  };
  cx.rec.ev("result2", vec![tvx, r2]);
}

// ---------------------------------------------------------------- interpreter
fn exec_all(cx: &Cx, acts: &[ActN]) {
  for a in acts {
    exec(cx, a);
  }
}

/// An item that is itself an observable (window_with_count, group_by) is subscribed at once by a recording
/// child user `c<j>` (j = creation order within the run); its subscription is not kept in a slot.
fn child_subscribe(cx: &Cx, inner: Observable<'static, V>) {
  let user = Sx::A(format!("c{}", cx.objs().nchild.fetch_add(1, Ordering::SeqCst)));
  let (cx1, cx2, cx3) = (cx.clone(), cx.clone(), cx.clone());
  let (u1, u2, u3) = (user.clone(), user.clone(), user);
  inner.subscribe(
    move |v: V| {
      cx1.rec.ev("cb", vec![u1.clone(), ev_n(&v)]);
      if let V::Obs(i) = v {
        child_subscribe(&cx1, i);
      }
      cx1.rec.ev("cbret", vec![u1.clone()]);
    },
    move |e: RxError| {
      cx2.rec.ev("cb", vec![u2.clone(), ev_e(&e)]);
      cx2.rec.ev("cbret", vec![u2.clone()]);
    },
    move || {
      cx3.rec.ev("cb", vec![u3.clone(), ev_c()]);
      cx3.rec.ev("cbret", vec![u3.clone()]);
    },
  );
}

/// owned by a `post-guarded` task closure: its destructor runs the actions on whichever thread drops the last copy of the task
struct DropGuard {
  cx: Cx,
  t: Sx,
  acts: Arc<Vec<ActN>>,
}
impl Drop for DropGuard {
  fn drop(&mut self) {
    if self.cx.objs.upgrade().is_none() {
      return; // the run is over (a discarded task released together with the objects)
    }
    self.cx.rec.ev("task-drop", vec![self.t.clone()]);
    if !self.acts.is_empty() {
      exec_all(&self.cx, &self.acts);
      self.cx.rec.ev("guard-end", vec![self.t.clone()]);
    }
  }
}

fn exec(cx: &Cx, a: &ActN) {
  let o = cx.objs();
  let rec = &cx.rec;
  let b = |x: bool| atom(if x { 1 } else { 0 });
  rec.ev("call", vec![a.printed.clone()]);
  match &a.act {
    Act::Next(h, v) => o.penv.subjects[*h].next(V::from_sx(v)),
    Act::Error(h, id) => o.penv.subjects[*h].error(mk_err(*id)),
    Act::Complete(h) => o.penv.subjects[*h].complete(),
    Act::ONext(i, v) => o.observers[*i].next(V::from_sx(v)),
    Act::OError(i, id) => o.observers[*i].error(mk_err(*id)),
    Act::OComplete(i) => o.observers[*i].complete(),
    Act::OUnsub(i) => o.observers[*i].unsubscribe(),
    Act::OIsSub(i) => {
      let r = o.observers[*i].is_subscribed();
      rec.ev("oissub", vec![atom(i), b(r)]);
    }
    Act::Sub { u, p, reacts } => {
      let ob = match p {
        PRef::Obj(i) => o.penv.pipes[*i].clone(),
        PRef::Inline(x) => build(&o.penv, x),
      };
      let counter = o.cbcount.lock().unwrap().entry(*u).or_insert_with(|| Arc::new(AtomicUsize::new(0))).clone();
      let user = atom(u);
      let (cx2, reacts) = (cx.clone(), reacts.clone());
      let tok = CTok::new(); // lives exactly as long as the three callbacks handed to subscribe (C17)
      let cb: Arc<dyn Fn(Sx, Option<Observable<'static, V>>) + Send + Sync> = Arc::new(move |ev: Sx, inner: Option<Observable<'static, V>>| {
        tok.touch();
        cx2.rec.ev("cb", vec![user.clone(), ev]);
        if let Some(inner) = inner {
          child_subscribe(&cx2, inner);
        }
        let i = counter.fetch_add(1, Ordering::SeqCst);
        for (idx, acts) in reacts.iter() {
          if *idx == i {
            exec_all(&cx2, acts);
          }
        }
        cx2.rec.ev("cbret", vec![user.clone()]);
      });
      let (c1, c2, c3) = (cb.clone(), cb.clone(), cb);
      let sub = ob.subscribe(
        move |v: V| {
          let x = ev_n(&v);
          c1(x, if let V::Obs(inner) = v { Some(inner) } else { None })
        },
        move |e: RxError| c2(ev_e(&e), None),
        move || c3(ev_c(), None),
      );
      o.slots.lock().unwrap().insert(*u, sub);
    }
    Act::Unsub(u) => {
      let s = o.slots.lock().unwrap().get(u).cloned();
      if let Some(s) = s {
        s.unsubscribe();
      }
    }
    Act::IsSub(u) => {
      let s = o.slots.lock().unwrap().get(u).cloned();
      let r = s.map(|s| s.is_subscribed()).unwrap_or(false);
      rec.ev("issub", vec![atom(u), b(r)]);
    }
    Act::Post { s, t, acts, guarded } => {
      let (cx2, t2, acts2) = (cx.clone(), t.clone(), acts.clone());
      let tok = Arc::new(CTok::new()); // lives as long as any copy of the task closure
      // every task closure owns a guard whose destructor records `task-drop T` (the moment the scheduler lets go of the last copy
      // of the task: after it ran, or when it is discarded); a `post-guarded` task runs its actions there instead of in its body
      let guarded = *guarded;
      let guard = Arc::new(DropGuard { cx: cx.clone(), t: t.clone(), acts: if guarded { acts.clone() } else { Arc::new(Vec::new()) } });
      let task = move || {
        tok.touch();
        let _g = &guard;
        cx2.rec.ev("task-start", vec![t2.clone()]);
        if !guarded {
          exec_all(&cx2, &acts2);
        }
        cx2.rec.ev("task-end", vec![t2.clone()]);
      };
      let sch = o.scheds[*s].lock().unwrap().clone();
      match sch {
        Some(Sched::NewThread(s)) => s.post(task),
        Some(Sched::Default(s)) => s.post(task),
        None => {}
      }
    }
    Act::DropSched(s) => {
      // the scenario's own handle of the scheduler goes away (no abort): whatever has been posted must still run
      let h = o.scheds[*s].lock().unwrap().take();
      drop(h);
    }
    Act::Abort(s) => {
      let sch = o.scheds[*s].lock().unwrap().clone();
      match sch {
        Some(Sched::NewThread(s)) => s.abort(),
        Some(Sched::Default(s)) => s.abort(),
        None => {}
      }
    }
    Act::Sleep(ms) => fthread::sleep(Duration::from_millis(*ms)),
    Act::Yield => rt::yield_point("scenario-yield"),
    Act::Count(h) => {
      let n = o.penv.subjects[*h].count();
      rec.ev("count", vec![atom(h), atom(n)]);
    }
    Act::BlockOn(tv) => block_on(cx, *tv, &o.tovecs[*tv], false, 0),
    Act::BlockOnLate(tv, ms) => block_on(cx, *tv, &o.tovecs[*tv], false, *ms),
    Act::BlockOnHandover(tv) => block_on(cx, *tv, &o.tovecs[*tv], true, 0),
    Act::Repoll(tv) => repoll(*tv),
    Act::Using(u) => {
      let s = o.slots.lock().unwrap().get(u).cloned();
      if let Some(s) = s {
        let guard = utils::Using::new(s);
        drop(guard);
      }
    }
    Act::UsingPanic(u) => {
      // the scope that owns the guard unwinds (the panic is contained here): dropping the guard must still unsubscribe
      let s = o.slots.lock().unwrap().get(u).cloned();
      if let Some(s) = s {
        let _ = std::panic::catch_unwind(std::panic::AssertUnwindSafe(move || {
          let _guard = utils::Using::new(s);
          std::panic::resume_unwind(Box::new("the scope of the guard unwinds"));
        }));
      }
    }
    Act::Connect(c, x) => {
      if let Conn::Publish(p) = &o.penv.conns[*c] {
        let s = p.connect();
        o.cslots.lock().unwrap().insert(*x, s);
      }
    }
    Act::Disconnect(x) => {
      let s = o.cslots.lock().unwrap().get(x).cloned();
      if let Some(s) = s {
        s.unsubscribe();
      }
    }
  }
  rec.ev("ret", vec![a.printed.clone()]);
}

// ---------------------------------------------------------------- one run
fn run_once(sc: &Arc<Scenario>, cfg: Config) -> (Outcome, RecData, (i64, i64)) {
  *CURRENT_TOKEN.lock().unwrap() = None;
  let base = (LIVE_ITEMS.load(Ordering::SeqCst), LIVE_CLOSURES.load(Ordering::SeqCst));
  let rec = Rec::default();
  let holder: Arc<Mutex<Option<Arc<Objects>>>> = Arc::new(Mutex::new(None));
  let (sc2, rec2, holder2) = (sc.clone(), rec.clone(), holder.clone());
  let out = rt::run(cfg, move || {
    let sc = sc2;
    let rec = rec2;
    rec.name(0, "main");
    let objs = Arc::new(create_objects(&sc, &rec, true));
    *holder2.lock().unwrap() = Some(objs.clone());
    let cx = Cx { rec: rec.clone(), objs: Arc::downgrade(&objs) };
    drop(objs);
    exec_all(&cx, &sc.init);
    let mut hs = Vec::new();
    for (name, acts) in sc.threads.iter() {
      let (cx2, acts2) = (cx.clone(), acts.clone());
      let h = rt::spawn_named(name, move || exec_all(&cx2, &acts2));
      rec.name(h.verif_tid(), name);
      hs.push(h);
    }
    for h in hs {
      let _ = h.join();
    }
    exec_all(&cx, &sc.fini);
  });
  // the run is over: every thread of it is finished or parked for good; release the objects
  let objs = holder.lock().unwrap_or_else(|e| e.into_inner()).take();
  drop(objs);
  // item / closure tokens still alive although every handle of the run is gone (meaningful when every thread has finished)
  let left = (LIVE_ITEMS.load(Ordering::SeqCst) - base.0, LIVE_CLOSURES.load(Ordering::SeqCst) - base.1);
  (out, rec.take(), left)
}

fn observation(sc: &Scenario, seed: u64, out: &Outcome, data: RecData, left: (i64, i64)) -> String {
  let f = |name: &str, v: Sx| Sx::L(vec![Sx::A(name.into()), v]);
  let status = match &out.status {
    Status::Ok => "ok",
    Status::Deadlock(_) => "deadlock",
    Status::SelfDeadlock(_) => "selfdeadlock",
    Status::StepLimit => "steplimit",
  };
  let mut v = vec![
    Sx::A("cobs".into()),
    f("seed", atom(seed)),
    f("status", Sx::A(status.into())),
    f("timelimit", atom(if out.time_limit_hit { 1 } else { 0 })),
    f("panics", atom(out.panics.len())),
    f("steps", atom(out.steps)),
    f("vt", atom(out.end_time)),
    tagged("left", vec![Sx::A(left.0.to_string()), Sx::A(left.1.to_string())]),
  ];
  v.push(tagged("names", data.names.iter().map(|(t, n)| Sx::L(vec![atom(t), Sx::A(n.clone())])).collect()));
  v.push(tagged(
    "live",
    out
      .live_threads
      .iter()
      .map(|t| {
        let st = t.state.split(|c| c == '(' || c == ' ').next().unwrap_or("");
        Sx::L(vec![atom(t.id), Sx::A(if st.is_empty() { "?".to_string() } else { st.to_string() })])
      })
      .collect(),
  ));
  if sc.want_choices {
    v.push(tagged("choices", out.choices.iter().map(|c| atom(c.chosen)).collect()));
  }
  if out.replay_diverged {
    v.push(f("replay-diverged", atom(1)));
  }
  if sc.want_edges {
    let clean = |x: &str| Sx::A(x.replace(' ', "@"));
    v.push(tagged("edges", out.lock_edges.iter().map(|(a, ai, b, bi)| Sx::L(vec![clean(a), atom(*ai), clean(b), atom(*bi)])).collect()));
  }
  match &out.status {
    Status::Deadlock(d) | Status::SelfDeadlock(d) => {
      let t: String = d.chars().take(900).map(|c| match c { ' ' | '\n' | '\t' => '_', '(' => '[', ')' => ']', '"' | ';' => '\'', c => c }).collect();
      v.push(f("detail", Sx::A(t)));
    }
    _ => {}
  }
  v.push(tagged("ev", data.ev));
  if std::env::var_os("RXCONC_TRACE").is_some() {
    for l in out.trace.iter() {
      eprintln!("[trace] {}", l);
    }
  }
  if std::env::var_os("RXCONC_DEBUG").is_some() {
    for (tid, msg) in out.panics.iter() {
      eprintln!("[rxconc] seed {} panic in t{}: {}", seed, tid, msg);
    }
    match &out.status {
      Status::Deadlock(d) | Status::SelfDeadlock(d) => eprintln!("[rxconc] seed {} {}:\n{}", seed, status, d),
      _ => {}
    }
  }
  Sx::L(v).to_string()
}

/// Runs every requested schedule of the scenario; `emit` receives one output line at a time.
/// Returns the number of observation lines.
fn run_scenario(x: &Sx, emit: &mut dyn FnMut(&str)) -> u64 {
  let sc = Arc::new(parse_scenario(x));
  validate(&sc);
  rt::set_writer_preference(sc.writer_pref);
  let base = |seed: u64, strategy: Strategy, replay: Vec<u32>| Config {
    seed,
    strategy,
    max_steps: sc.max_steps,
    max_virtual_time: sc.max_vt_ns,
    replay,
    spurious_wakeups: sc.spurious,
    trace: std::env::var_os("RXCONC_TRACE").is_some(),
    lockdep: sc.want_edges,
  };
  let mut n_obs = 0u64;
  let mut one = |cfg: Config, emit: &mut dyn FnMut(&str)| -> Outcome {
    let seed = cfg.seed;
    let (out, data, left) = run_once(&sc, cfg);
    if out.panics.iter().any(|(_, m)| m.contains("cannot spawn OS thread") || m.contains("failed to spawn thread")) {
      // not a property of the crate: this process has leaked too many parked threads (see README)
      EXHAUSTED.store(true, Ordering::SeqCst);
      panic!("out of OS threads in the run with seed {}: restart the process", seed);
    }
    emit(&observation(&sc, seed, &out, data, left));
    n_obs += 1;
    out
  };
  match &sc.sched {
    SchedSpec::Random { seed, n } => {
      for s in *seed..seed.saturating_add(*n) {
        one(base(s, Strategy::Random, Vec::new()), emit);
      }
    }
    SchedSpec::Pct { depth, seed, n } => {
      for s in *seed..seed.saturating_add(*n) {
        one(base(s, Strategy::Pct { depth: *depth }, Vec::new()), emit);
      }
    }
    SchedSpec::Rr { seed, n } => {
      for s in *seed..seed.saturating_add(*n) {
        one(base(s, Strategy::RoundRobin, Vec::new()), emit);
      }
    }
    SchedSpec::Replay { seed, choices } => {
      one(base(*seed, Strategy::Dfs, choices.clone()), emit);
    }
    SchedSpec::Dfs { limit } => {
      // one frame per decision: (index taken, indices not tried yet) -- see t4_dfs of the facade selftest
      let mut stack: Vec<(u32, Vec<u32>)> = Vec::new();
      let mut runs = 0u64;
      let mut complete = false;
      while runs < *limit {
        let prefix: Vec<u32> = stack.iter().map(|f| f.0).collect();
        let plen = prefix.len();
        let out = one(base(0, Strategy::Dfs, prefix), emit);
        runs += 1;
        stack.truncate(out.choices.len()); // only on divergence
        for c in out.choices.iter().skip(plen) {
          stack.push((c.chosen, (0..c.n_enabled).rev().filter(|i| *i != c.chosen).collect()));
        }
        while matches!(stack.last(), Some(f) if f.1.is_empty()) {
          stack.pop();
        }
        match stack.last_mut() {
          None => {
            complete = true;
            break;
          }
          Some(f) => f.0 = f.1.pop().unwrap(),
        }
      }
      emit(&format!("(dfs-done {} {})", if complete { 1 } else { 0 }, runs));
    }
  }
  rt::set_writer_preference(false);
  n_obs
}

fn panic_text(p: &(dyn std::any::Any + Send)) -> String {
  let s = if let Some(s) = p.downcast_ref::<String>() {
    s.clone()
  } else if let Some(s) = p.downcast_ref::<&str>() {
    s.to_string()
  } else {
    "?".to_string()
  };
  s.chars().map(|c| if c == '(' || c == ')' || c == '"' || c == '\\' || c.is_control() { ' ' } else { c }).collect()
}

/// Processes one input line; never panics.  Returns the number of observation lines emitted.
fn run_line(line: &str, emit: &mut dyn FnMut(&str)) -> u64 {
  let mut n = 0u64;
  let r = std::panic::catch_unwind(std::panic::AssertUnwindSafe(|| {
    let v = sx::parse(line).unwrap_or_else(|e| panic!("parse error: {}", e));
    if v.len() != 1 {
      panic!("expected exactly one s-expression per line");
    }
    let mut counting = |s: &str| {
      if s.starts_with("(cobs") {
        n += 1;
      }
      emit(s);
    };
    run_scenario(&v[0], &mut counting);
  }));
  if let Err(p) = r {
    rt::set_writer_preference(false);
    emit(&format!("(cobs (status harness-panic) (msg \"{}\"))", panic_text(&*p)));
    n += 1;
  }
  n
}

// ---------------------------------------------------------------- self-check
mod selfcheck {
  use super::*;

  pub fn lines_of(scenario: &str) -> Vec<Sx> {
    let mut out = Vec::new();
    run_line(scenario, &mut |s: &str| out.push(s.to_string()));
    out
      .iter()
      .map(|l| {
        let v = sx::parse(l).unwrap_or_else(|e| panic!("unparsable output line ({}): {}", e, l));
        assert!(v.len() == 1, "output line is not one s-expression: {}", l);
        v[0].clone()
      })
      .collect()
  }
  fn f1<'a>(obs: &'a Sx, name: &str) -> &'a str {
    field(&obs.list()[1..], name).first().map(|x| x.atom()).unwrap_or("")
  }
  /// (step, vt, tid, tag, args)
  fn events(obs: &Sx) -> Vec<(u64, u64, u32, String, Vec<Sx>)> {
    field(&obs.list()[1..], "ev")
      .iter()
      .map(|r| {
        let l = r.list();
        (l[0].int() as u64, l[1].int() as u64, l[2].int() as u32, l[3].atom().to_string(), l[4..].to_vec())
      })
      .collect()
  }
  fn evs_only(obs: &Sx) -> String {
    tagged("ev", field(&obs.list()[1..], "ev").to_vec()).to_string()
  }
  macro_rules! check {
    ($cond:expr, $($arg:tt)*) => { if !($cond) { return Err(format!($($arg)*)); } };
  }
  type R = Result<String, String>;

  fn queue() -> R {
    let obs = lines_of("(conc (objects (sched new_thread)) (init (post 0 a) (post 0 b) (post 0 c) (sleep 1) (abort 0)) (threads) (fini) (sched random 1 5))");
    check!(obs.len() == 5, "expected 5 observations, got {}", obs.len());
    for o in &obs {
      check!(f1(o, "status") == "ok" && f1(o, "panics") == "0", "bad status: {}", o.to_string());
      let tasks: Vec<(String, String, u32)> = events(o).into_iter().filter(|e| e.3.starts_with("task-")).map(|e| (e.3.clone(), e.4[0].atom().to_string(), e.2)).collect();
      let want = [("task-start", "a"), ("task-end", "a"), ("task-start", "b"), ("task-end", "b"), ("task-start", "c"), ("task-end", "c")];
      check!(tasks.len() == 6 && tasks.iter().zip(want.iter()).all(|(g, w)| g.0 == w.0 && g.1 == w.1), "tasks out of order: {:?}", tasks);
      check!(tasks.iter().all(|t| t.2 != 0 && t.2 == tasks[0].2), "tasks not on one worker thread: {:?}", tasks);
      check!(field(&o.list()[1..], "live").is_empty(), "worker alive after abort: {}", o.to_string());
      check!(f1(o, "vt") == "1000000", "vt {}", f1(o, "vt"));
    }
    Ok("3 posts + abort: ordered on the worker".into())
  }

  fn producers() -> R {
    let obs = lines_of(
      "(conc (objects (subject subject) (pipe (hot 0))) (init (sub 0 0)) (threads (a (next 0 1) (next 0 2)) (b (next 0 11) (next 0 12))) (fini (complete 0) (count 0) (issub 0)) (sched random 0 50))",
    );
    check!(obs.len() == 50, "expected 50 observations, got {}", obs.len());
    let mut orders = std::collections::BTreeSet::new();
    for o in &obs {
      check!(f1(o, "status") == "ok" && f1(o, "panics") == "0", "bad status: {}", o.to_string());
      let cbs: Vec<String> = events(o).into_iter().filter(|e| e.3 == "cb").map(|e| e.4[1].to_string()).collect();
      let mut sorted = cbs.clone();
      sorted.sort();
      check!(sorted == ["(c)", "(n 1)", "(n 11)", "(n 12)", "(n 2)"], "items lost or duplicated: {:?}", cbs);
      check!(cbs.last().unwrap() == "(c)", "complete is not last: {:?}", cbs);
      let names = tagged("names", field(&o.list()[1..], "names").to_vec()).to_string();
      check!(names.starts_with("(names (0 main) (") && names.contains(" a)") && names.contains(" b)"), "names {}", names);
      orders.insert(cbs);
    }
    check!(orders.len() >= 2, "50 seeds gave a single interleaving");
    // same seed twice -> identical line
    let a = lines_of("(conc (objects (subject subject) (pipe (hot 0))) (init (sub 0 0)) (threads (a (next 0 1) (next 0 2)) (b (next 0 11) (next 0 12))) (fini) (sched random 7 1) (want-choices))");
    let b = lines_of("(conc (objects (subject subject) (pipe (hot 0))) (init (sub 0 0)) (threads (a (next 0 1) (next 0 2)) (b (next 0 11) (next 0 12))) (fini) (sched random 7 1) (want-choices))");
    check!(a.len() == 1 && a == b, "not deterministic in the seed");
    // replaying its choices under the same seed reproduces the events
    let ch: Vec<String> = field(&a[0].list()[1..], "choices").iter().map(|c| c.atom().to_string()).collect();
    check!(!ch.is_empty(), "no choices printed");
    let r = lines_of(&format!(
      "(conc (objects (subject subject) (pipe (hot 0))) (init (sub 0 0)) (threads (a (next 0 1) (next 0 2)) (b (next 0 11) (next 0 12))) (fini) (sched replay-seed 7 {}))",
      ch.join(" ")
    ));
    check!(r.len() == 1 && evs_only(&r[0]) == evs_only(&a[0]), "replay differs:\n{}\n{}", evs_only(&r[0]), evs_only(&a[0]));
    check!(field(&r[0].list()[1..], "replay-diverged").is_empty(), "replay diverged");
    Ok(format!("two producers: all items in 50/50 runs, {} distinct orders; deterministic; replay ok", orders.len()))
  }

  fn interval() -> R {
    let obs = lines_of("(conc (objects (pipe (op take (3) (interval 100)))) (init (sub 0 0)) (threads) (fini) (sched random 1 3))");
    check!(obs.len() == 3, "expected 3 observations");
    for o in &obs {
      check!(f1(o, "status") == "ok" && f1(o, "timelimit") == "0", "bad status: {}", o.to_string());
      let cbs: Vec<(u64, u32, String)> = events(o).into_iter().filter(|e| e.3 == "cb").map(|e| (e.1 / NS_PER_MS, e.2, e.4[1].to_string())).collect();
      check!(cbs.len() == 4, "callbacks {:?}", cbs);
      let t = cbs[0].1;
      check!(t != 0, "interval callback on main");
      check!(cbs == [(100, t, "(n 0)".to_string()), (200, t, "(n 1)".to_string()), (300, t, "(n 2)".to_string()), (300, t, "(c)".to_string())], "callbacks {:?}", cbs);
    }
    // endless interval is cut by the virtual time limit
    let obs = lines_of("(conc (objects (pipe (interval 300))) (init (sub 0 0)) (threads) (fini) (sched rr 0 1) (limits 20000 1000))");
    check!(obs.len() == 1 && f1(&obs[0], "status") == "ok" && f1(&obs[0], "timelimit") == "1", "time limit: {}", obs[0].to_string());
    let live = tagged("live", field(&obs[0].list()[1..], "live").to_vec()).to_string();
    check!(live.contains("Sleeping") && !live.contains("Sleeping("), "live {}", live);
    Ok("interval 100 + take 3: cb at 100/200/300 ms; time limit ok".into())
  }

  fn deadlock() -> R {
    let obs = lines_of("(conc (objects (tovec (never))) (init (block_on 0)) (threads) (fini) (sched random 1 2))");
    check!(obs.len() == 2, "expected 2 observations");
    for o in &obs {
      check!(f1(o, "status") == "deadlock", "expected deadlock: {}", o.to_string());
      let ev = evs_only(o);
      check!(ev.contains("call (block_on 0)") && ev.contains("poll 0 0") && !ev.contains("ret (block_on 0)"), "events {}", ev);
    }
    let obs = lines_of("(conc (objects (subject subject)) (init) (threads (spin (yield) (yield) (yield) (yield) (yield) (yield))) (fini) (sched rr 0 1) (limits 4 1000))");
    check!(obs.len() == 1 && f1(&obs[0], "status") == "steplimit", "expected steplimit: {}", obs[0].to_string());
    Ok("block_on never => deadlock; step limit reported".into())
  }

  fn tovec() -> R {
    let obs = lines_of("(conc (objects (tovec (op take (3) (interval 10))) (tovec (error 7))) (init (block_on 0) (block_on 1)) (threads) (fini) (sched random 1 4))");
    check!(obs.len() == 4, "expected 4 observations");
    for o in &obs {
      check!(f1(o, "status") == "ok" && f1(o, "panics") == "0", "bad status: {}", o.to_string());
      let ev = evs_only(o);
      check!(ev.contains("result 0 (ok 0 1 2))") && ev.contains("result 1 (err 7))") && ev.contains("poll 0 1"), "events {}", ev);
      let res: Vec<u64> = events(o).into_iter().filter(|e| e.3 == "result").map(|e| e.1 / NS_PER_MS).collect();
      check!(res == [30, 30], "result times {:?}", res);
    }
    Ok("block_on to_vec: (ok 0 1 2) at 30 ms, (err 7)".into())
  }

  fn dfs() -> R {
    let sc = "(conc (objects (subject subject) (pipe (hot 0))) (init (sub 0 0)) (threads (a (next 0 1)) (b (next 0 2))) (fini) (sched dfs 100000) (want-choices))";
    let obs = lines_of(sc);
    let last = obs.last().ok_or("no output")?;
    check!(last.head() == "dfs-done" && last.list()[1].atom() == "1", "dfs not complete: {}", last.to_string());
    let runs = last.list()[2].int() as usize;
    check!(runs == obs.len() - 1 && runs >= 2, "runs {} lines {}", runs, obs.len());
    let mut orders = std::collections::BTreeSet::new();
    let mut schedules = std::collections::BTreeSet::new();
    for o in &obs[..runs] {
      check!(f1(o, "status") == "ok", "bad status: {}", o.to_string());
      let cbs: Vec<String> = events(o).into_iter().filter(|e| e.3 == "cb").map(|e| e.4[1].to_string()).collect();
      check!(cbs.len() == 2, "callbacks {:?}", cbs);
      orders.insert(cbs);
      schedules.insert(tagged("c", field(&o.list()[1..], "choices").to_vec()).to_string());
    }
    check!(orders.len() == 2, "dfs found {} orders", orders.len());
    check!(schedules.len() == runs, "dfs repeated a schedule ({} distinct of {})", schedules.len(), runs);
    // bounded enumeration
    let obs = lines_of(&sc.replace("dfs 100000", "dfs 3"));
    check!(obs.len() == 4 && obs[3].to_string() == "(dfs-done 0 3)", "bounded dfs: {}", obs.last().unwrap().to_string());
    Ok(format!("dfs: {} schedules, both orders, bounded run ok", runs))
  }

  fn observer_race() -> R {
    let obs = lines_of("(conc (objects (observer)) (init (oissub 0)) (threads (a (onext 0 1) (ocomplete 0)) (b (onext 0 2) (oerror 0 5))) (fini (oissub 0) (onext 0 3)) (sched random 0 40))");
    check!(obs.len() == 40, "expected 40 observations");
    let mut terms = std::collections::BTreeSet::new();
    for o in &obs {
      check!(f1(o, "status") == "ok" && f1(o, "panics") == "0", "bad status: {}", o.to_string());
      let es = events(o);
      let ocb: Vec<String> = es.iter().filter(|e| e.3 == "ocb").map(|e| e.4[1].to_string()).collect();
      // harness sanity only (whether the crate delivers exactly one terminal is judged elsewhere)
      let nterm = ocb.iter().filter(|x| *x == "(c)" || *x == "(e 5)").count();
      check!(nterm >= 1, "no terminal callback: {:?}", ocb);
      let ncall = es.iter().filter(|e| e.3 == "call").count();
      let nret = es.iter().filter(|e| e.3 == "ret").count();
      let nocbret = es.iter().filter(|e| e.3 == "ocbret").count();
      check!(ncall == 7 && nret == 7 && nocbret == ocb.len(), "call/ret/ocbret records: {} {} {} vs {}", ncall, nret, nocbret, ocb.len());
      let iss: Vec<String> = es.iter().filter(|e| e.3 == "oissub").map(|e| e.4[1].atom().to_string()).collect();
      check!(iss.len() == 2 && iss[0] == "1", "oissub {:?}", iss);
      terms.insert(ocb.iter().find(|x| *x == "(c)" || *x == "(e 5)").unwrap().clone());
    }
    check!(terms.len() == 2, "only one winner of the terminal race: {:?}", terms);
    Ok("raw observer: records complete, both winners of the terminal race seen".into())
  }

  fn observe_on_and_reactions() -> R {
    let obs = lines_of("(conc (objects (subject subject) (pipe (op observe_on () (hot 0)))) (init (sub 0 0)) (threads (a (next 0 1) (next 0 2) (complete 0))) (fini) (sched random 1 10))");
    for o in &obs {
      check!(f1(o, "status") == "ok" && f1(o, "panics") == "0", "bad status: {}", o.to_string());
      let names: Vec<u32> = field(&o.list()[1..], "names").iter().map(|n| n.list()[0].int() as u32).collect();
      let cbs: Vec<(u32, String)> = events(o).into_iter().filter(|e| e.3 == "cb").map(|e| (e.2, e.4[1].to_string())).collect();
      check!(cbs.iter().map(|c| c.1.clone()).collect::<Vec<_>>() == ["(n 1)", "(n 2)", "(c)"], "callbacks {:?}", cbs);
      check!(cbs.iter().all(|c| !names.contains(&c.0)), "observe_on callback on a harness thread: {:?} names {:?}", cbs, names);
    }
    // reactions: unsubscribe inside the second callback; emit from inside the first
    let obs = lines_of("(conc (objects (subject subject) (subject subject) (pipe (hot 0)) (pipe (hot 1))) (init (sub 0 0 (react 0 (next 1 50)) (react 1 (unsub 0))) (sub 1 1) (next 0 1) (next 0 2) (next 0 3) (issub 0) (using 1) (issub 1) (unsub 9)) (threads) (fini) (sched rr 0 1))");
    check!(obs.len() == 1 && f1(&obs[0], "status") == "ok" && f1(&obs[0], "panics") == "0", "reactions: {}", obs[0].to_string());
    let cbs: Vec<String> = events(&obs[0]).into_iter().filter(|e| e.3 == "cb" || e.3 == "cbret" || e.3 == "issub").map(|e| format!("{} {}", e.3, e.4.iter().map(|x| x.to_string()).collect::<Vec<_>>().join(" "))).collect();
    check!(cbs == ["cb 0 (n 1)", "cb 1 (n 50)", "cbret 1", "cbret 0", "cb 0 (n 2)", "cbret 0", "issub 0 0", "issub 1 0"], "reactions gave {:?}", cbs);
    let ev = evs_only(&obs[0]);
    check!(ev.contains("call (sub 0 0))") && !ev.contains("react"), "printed action keeps reactions: {}", ev);
    Ok("observe_on delivers off the harness threads; reactions, using, issub ok".into())
  }

  fn harness_panic() -> R {
    for bad in ["(conc (objects) (init (frobnicate 1)) (threads) (fini) (sched random 1 1))", "(conc (objects (pipe (hot 3))) (init) (threads) (fini) (sched random 1 1))", "(conc (objects (pipe (op nosuch () (never)))) (sched rr 0 1))", "(conc (objects) (init (next 0 1)) (sched rr 0 1))", "(conc (objects)", "(conc (objects) (init))"] {
      let obs = lines_of(bad);
      check!(obs.len() == 1 && f1(&obs[0], "status") == "harness-panic", "{} gave {:?}", bad, obs.iter().map(|o| o.to_string()).collect::<Vec<_>>());
    }
    Ok("malformed scenarios => harness-panic".into())
  }

  pub fn run() -> bool {
    let tests: Vec<(&str, fn() -> R)> = vec![
      ("queue", queue),
      ("producers", producers),
      ("interval", interval),
      ("deadlock", deadlock),
      ("tovec", tovec),
      ("dfs", dfs),
      ("observer-race", observer_race),
      ("observe_on+reactions", observe_on_and_reactions),
      ("harness-panic", harness_panic),
    ];
    let mut failed = 0;
    for (name, f) in tests {
      let r = std::panic::catch_unwind(f).unwrap_or_else(|p| Err(format!("selfcheck panicked: {}", panic_text(&*p))));
      match r {
        Ok(info) => println!("PASS {}: {}", name, info),
        Err(e) => {
          failed += 1;
          println!("FAIL {}: {}", name, e);
        }
      }
    }
    if failed == 0 {
      println!("SELFCHECK OK");
    } else {
      println!("SELFCHECK FAILED ({})", failed);
    }
    failed == 0
  }
}

// ---------------------------------------------------------------- main
fn main() {
  // Threads that are still blocked when a run ends stay parked for the rest of the process (see the facade
  // README); with the default 2 MiB stacks a few thousand of them exhaust the orchestrator's address-space
  // limit.  Must happen before the first thread is spawned (std reads the variable once).
  if std::env::var_os("RUST_MIN_STACK").is_none() {
    std::env::set_var("RUST_MIN_STACK", "524288");
  }
  // glibc gives every thread its own malloc arena (64 MiB of address space each); exactly one controlled
  // thread runs at a time, so a single arena costs nothing and keeps the address space small.
  #[cfg(all(target_os = "linux", target_env = "gnu"))]
  {
    extern "C" {
      fn mallopt(param: i32, value: i32) -> i32;
    }
    const M_ARENA_MAX: i32 = -8;
    if std::env::var_os("RXCONC_KEEP_ARENAS").is_none() {
      unsafe {
        mallopt(M_ARENA_MAX, 1);
      }
    }
  }
  // panics (of the crate inside a run, of the harness on a malformed scenario) are reported in the output
  if std::env::var_os("RXCONC_DEBUG").is_none() {
    std::panic::set_hook(Box::new(|_| {}));
  }
  let arg = std::env::args().nth(1);
  if arg.as_deref() == Some("--selfcheck") {
    let ok = selfcheck::run();
    std::process::exit(if ok { 0 } else { 1 });
  }
  let start: usize = arg.and_then(|s| s.parse().ok()).unwrap_or(0);
  let stdin = std::io::stdin();
  let stdout = std::io::stdout();
  let say = |s: &str| {
    let mut o = stdout.lock();
    let _ = writeln!(o, "{}", s);
    let _ = o.flush();
  };
  let mut input = stdin.lock();
  let mut idx = 0usize;
  let mut line = String::new();
  loop {
    line.clear();
    match std::io::BufRead::read_line(&mut input, &mut line) {
      Ok(0) | Err(_) => break,
      Ok(_) => {}
    }
    let l = line.trim();
    if !l.starts_with('(') {
      continue;
    }
    if idx < start {
      idx += 1;
      continue;
    }
    say(&format!("BEGIN {}", idx));
    let n = run_line(l, &mut |s: &str| say(s));
    say(&format!("END {} {}", idx, n));
    if EXHAUSTED.load(Ordering::SeqCst) {
      std::process::exit(3);
    }
    idx += 1;
  }
}
