"""Scenario building blocks and random pipeline generation (python3 stdlib only).
A scenario is a nested python list printed as one s-expression line (syntax: ml/driver.ml)."""
import itertools
import random

# ---------------------------------------------------------------- events / scripts


def n(v):
    return ["n", v]


def e(i):
    return ["e", i]


C = ["c"]


def script(xs, ending):
    """well-formed script: items then ending in {'c', ('e', id), 's'}"""
    out = [n(x) for x in xs]
    if ending == "c":
        out.append(C)
    elif ending == "s":
        pass
    else:
        out.append(e(ending[1]))
    return out


def src(atts, polls=False):
    return [["polls", 1 if polls else 0]] + [["att"] + list(a) for a in atts]


def scn(srcs=(), subjects=(), conns=(), handles=1, script_=(), defs=()):
    return ["scn", ["srcs"] + list(srcs), ["subjects"] + list(subjects), ["conns"] + list(conns), ["defs"] + list(defs), ["handles", handles],
            ["script"] + list(script_)]


def op(name, params, source, *others):
    return ["op", name, list(params), source] + list(others)


def sub(k, pipe, *reacts):
    return ["sub", k, pipe] + [["react", i, r] for (i, r) in reacts]


# ---------------------------------------------------------------- operator catalogue
PREDS = [["lt", 2], ["lt", 3], ["ge", 2], ["even"], ["odd"], ["true"], ["false"], ["eq", 2], ["ne", 1]]
FN1 = [["add", 1], ["mul", 2], ["const", 7], ["id"], ["mod", 2], ["add", -1]]
FN2 = ["add", "max", "min", "fst", "snd", "submul"]
COUNTS = [0, 1, 2, 3, 5]


def single_ops(rng, tap_ids=None):
    """one random instance of every single-source operator: (name, params)"""
    tid = 0
    out = [
        ("map", [rng.choice(FN1)]), ("filter", [rng.choice(PREDS)]), ("take", [rng.choice(COUNTS)]),
        ("take_while", [rng.choice(PREDS)]), ("take_last", [rng.choice(COUNTS)]), ("skip", [rng.choice(COUNTS)]),
        ("skip_last", [rng.choice(COUNTS)]), ("skip_while", [rng.choice(PREDS)]), ("first", []), ("last", []),
        ("element_at", [rng.choice(COUNTS)]), ("distinct_until_changed", []), ("scan", [rng.choice(FN2)]),
        ("reduce", [rng.choice(FN2)]), ("count", []), ("sum", []), ("sum_and_count", []), ("min", []), ("max", []),
        ("all", [rng.choice(PREDS)]), ("contains", [rng.choice([1, 2, 3])]), ("default_if_empty", [9]),
        ("ignore_elements", []), ("start_with", rng.choice([[], [8], [8, 9]])), ("buffer_with_count", [rng.choice([1, 2, 3])]),
        ("window_with_count", [rng.choice([1, 2, 3])]), ("group_by", [rng.choice([1, 2, 3])]), ("materialize", []),
        ("dematerialize", []), ("tap", [tid]), ("map_to_any", []),
        ("retry", [rng.choice([1, 2, 3])]), ("retry_when", [rng.choice([["never"], ["eq", 1], ["lt", 2]])]),
    ]
    return out


SINGLE_NAMES = [x[0] for x in single_ops(random.Random(0))]
MULTI_NAMES = ["merge", "concat", "zip", "combine_latest", "amb", "take_until", "skip_until", "sample", "switch_on_next",
               "sequence_equal", "flat_map", "on_error_resume_next"]


def rand_single(rng):
    return rng.choice(single_ops(rng))


def multi_op(rng, name, source, others):
    """apply a multi-source operator; `others` is a list of pipes (at least one)"""
    if name in ("take_until", "skip_until", "sample", "switch_on_next"):
        return op(name, [], source, others[0])
    if name == "combine_latest":
        return op(name, [rng.choice(["list", "sum"])], source, *others)
    if name == "flat_map":
        sel = rng.choice([["just"], ["pair", 10], ["mod"]])
        return op(name, [sel], source, *(others if sel == ["mod"] else []))
    return op(name, [], source, *others)


def rand_chain(rng, source, depth, names=None):
    p = source
    for _ in range(depth):
        cand = single_ops(rng)
        if names is not None:
            cand = [c for c in cand if c[0] in names]
        nm, ps = rng.choice(cand)
        p = op(nm, ps, p)
    return p


def all_scripts(alphabet, maxlen):
    for k in range(maxlen + 1):
        for t in itertools.product(alphabet, repeat=k):
            yield list(t)


def ops_in(pipe, acc=None):
    """operator names occurring in a pipe (for coverage histograms)"""
    if acc is None:
        acc = []
    if isinstance(pipe, list) and pipe:
        if pipe[0] == "op":
            acc.append(pipe[1])
            for q in pipe[3:]:
                ops_in(q, acc)
        elif pipe[0] == "defer":
            ops_in(pipe[1], acc)
    return acc
