"""Infrastructure of ./vp: builds, running the implementation harness and the extracted model,
comparison, oracles, shrinking, verdicts, evidence.  python3 stdlib only."""
import fcntl
import hashlib
import importlib
import json
import os
import random
import re
import resource
import select
import shutil
import subprocess
import sys
import threading
import time

import sx

VERIF = os.path.dirname(os.path.dirname(os.path.abspath(__file__)))
REPO = os.environ.get("VERIF_REPO", "/repo")
SCRATCH = os.environ.get("VERIF_SCRATCH", "/var/tmp/rxverif")
NCPU = max(1, min(16, os.cpu_count() or 1))
PINNED = "60e31ba"

FORBIDDEN = re.compile(r"\b(Admitted|admit|Axiom|Axioms|Parameter|Parameters|Conjecture|Hypothesis|Variable|"
                       r"Unset\s+Guard|bypass_check|Admit\s+Obligations|type-in-type|impredicative-set)\b")


def log(msg):
    sys.stdout.write(msg + "\n")
    sys.stdout.flush()


def sh(cmd, cwd=None, timeout=None, env=None, inp=None):
    e = dict(os.environ)
    e.update({"CARGO_NET_OFFLINE": "true"})
    if env:
        e.update(env)
    try:
        p = subprocess.run(cmd, cwd=cwd, env=e, input=inp, stdout=subprocess.PIPE, stderr=subprocess.STDOUT,
                           timeout=timeout, shell=isinstance(cmd, str), text=True)
        return p.returncode, p.stdout
    except subprocess.TimeoutExpired as ex:
        return 124, (ex.stdout or "") + "\n[timeout]"


class Lock:
    def __init__(self, name):
        os.makedirs(SCRATCH, exist_ok=True)
        self.path = os.path.join(SCRATCH, name + ".lock")

    def __enter__(self):
        self.f = open(self.path, "w")
        fcntl.flock(self.f, fcntl.LOCK_EX)
        return self

    def __exit__(self, *a):
        fcntl.flock(self.f, fcntl.LOCK_UN)
        self.f.close()


# ---------------------------------------------------------------- Coq
def coq_dir():
    return os.path.join(VERIF, "coq")


def build_coq(target=None, timeout=3000):
    """Full .vo build through coq_makefile.  Returns (ok, log)."""
    with Lock("coq"):
        rc, out = sh([sys.executable, os.path.join(VERIF, "gen", "mkworld.py")])
        if rc != 0:
            return False, out
        d = coq_dir()
        mk = os.path.join(d, "Makefile")
        cp = os.path.join(d, "_CoqProject")
        if not os.path.exists(mk) or os.path.getmtime(mk) < os.path.getmtime(cp):
            rc, out = sh(["coq_makefile", "-f", "_CoqProject", "-o", "Makefile"], cwd=d, timeout=120)
            if rc != 0:
                return False, out
        cmd = ["make", "-j%d" % NCPU] + ([target] if target else [])
        rc, out = sh(cmd, cwd=d, timeout=timeout)
        return rc == 0, out


def prop_theorems(pid):
    """Names pinned in coq/Props/<pid>.v by `Check name : statement.` and the text of the file."""
    path = os.path.join(coq_dir(), "Props", pid + ".v")
    if not os.path.exists(path):
        return [], ""
    txt = open(path).read()
    names = re.findall(r"^\s*(?:Theorem|Corollary|Lemma)\s+([A-Za-z0-9_']+)", txt, re.M)
    return names, txt


def check_proofs(pid, allow_axioms=()):
    """Rebuild the cone of Props/<pid>.v, recompile the property file itself to capture the
    `Print Assumptions` reports, grep the whole development for forbidden vernacular.
    Returns dict(ok, obligations, discharged, detail, theorems)."""
    res = {"ok": False, "obligations": 0, "discharged": 0, "detail": "", "theorems": [], "axioms": []}
    names, txt = prop_theorems(pid)
    res["theorems"] = names
    res["obligations"] = len(names)
    if not names:
        res["detail"] = "no property file coq/Props/%s.v" % pid
        return res
    # forbidden vernacular anywhere in the development
    bad = []
    for root, _, files in os.walk(coq_dir()):
        for f in files:
            if f.endswith(".v"):
                p = os.path.join(root, f)
                src = re.sub(r"\(\*.*?\*\)", "", open(p).read(), flags=re.S)
                for m in FORBIDDEN.finditer(src):
                    # `Variable`/`Hypothesis` are only allowed inside a Section; we simply do not use them
                    bad.append("%s: %s" % (os.path.relpath(p, VERIF), m.group(0)))
    if bad:
        res["detail"] = "forbidden vernacular: " + "; ".join(bad[:5])
        return res
    ok, out = build_coq()
    if not ok:
        res["detail"] = "coq build failed:\n" + out[-3000:]
        return res
    with Lock("coq"):
        vo = os.path.join(coq_dir(), "Props", pid + ".vo")
        if os.path.exists(vo):
            os.remove(vo)
        rc, out = sh(["make", "Props/%s.vo" % pid], cwd=coq_dir(), timeout=1200)
    if rc != 0:
        res["detail"] = "property file does not compile:\n" + out[-3000:]
        return res
    closed = out.count("Closed under the global context")
    axioms = []
    if "Axioms:" in out:
        for blk in re.findall(r"Axioms:\n((?:.+\n?)+?)(?=\n\S|\Z)", out):
            for line in blk.splitlines():
                m = re.match(r"^([A-Za-z0-9_.']+)\s*:", line)
                if m:
                    axioms.append(m.group(1))
    res["axioms"] = sorted(set(axioms))
    notallowed = [a for a in res["axioms"] if a not in allow_axioms]
    n_reports = closed + len(re.findall(r"^Axioms:", out, re.M))
    if notallowed:
        res["detail"] = "assumptions outside the allow-list: " + ", ".join(notallowed)
        return res
    if n_reports < len(names):
        res["detail"] = "only %d Print Assumptions reports for %d theorems" % (n_reports, len(names))
        return res
    res["discharged"] = len(names)
    res["ok"] = True
    return res


# ---------------------------------------------------------------- OCaml driver
def build_driver():
    with Lock("ml"):
        d = os.path.join(SCRATCH, "ml")
        os.makedirs(d, exist_ok=True)
        srcs = ["rxmodel.mli", "rxmodel.ml", "driver.ml"]
        stale = not os.path.exists(os.path.join(d, "driver"))
        for f in srcs:
            s = os.path.join(VERIF, "ml", f)
            if not os.path.exists(s):
                return False, "missing " + s + " (extraction not run?)"
            t = os.path.join(d, f)
            if not os.path.exists(t) or open(s, "rb").read() != open(t, "rb").read():
                shutil.copyfile(s, t)
                stale = True
        if stale:
            if os.path.exists(os.path.join(d, "driver")):
                os.remove(os.path.join(d, "driver"))      # a failed build must not leave an old binary that looks up to date
            rc, out = sh(["ocamlfind", "ocamlopt", "-O2", "-w", "-a", "-package", "str", "-linkpkg"] + srcs + ["-o", "driver"], cwd=d, timeout=600)
            if rc != 0:
                return False, out
        return True, ""


def driver_bin():
    return os.path.join(SCRATCH, "ml", "driver")


# ---------------------------------------------------------------- implementation harness
def build_impl(which="seq"):
    """Instrumented copy of /repo's CURRENT working tree + harness crate, built offline in scratch."""
    with Lock("cargo"):
        copy = os.path.join(SCRATCH, "copy")
        rc, out = sh([sys.executable, os.path.join(VERIF, "harness", "facade", "instrument.py"), REPO, copy], timeout=120)
        if rc != 0:
            return False, "instrument failed:\n" + out
        hd = os.path.join(SCRATCH, "harness", which)
        os.makedirs(hd, exist_ok=True)
        src = os.path.join(VERIF, "harness", which)
        # sync sources (only rewrite changed files so cargo's fingerprints stay valid)
        for root, dirs, files in os.walk(src):
            dirs[:] = [x for x in dirs if x != "target"]
            rel = os.path.relpath(root, src)
            os.makedirs(os.path.join(hd, rel), exist_ok=True)
            for f in files:
                s = os.path.join(root, f)
                t = os.path.join(hd, rel, f)
                if not os.path.exists(t) or open(s, "rb").read() != open(t, "rb").read():
                    shutil.copyfile(s, t)
        lock_src = os.path.join(REPO, "Cargo.lock")
        lock_dst = os.path.join(hd, "Cargo.lock")
        if not os.path.exists(lock_dst):
            shutil.copyfile(lock_src, lock_dst)
        env = {"RUSTFLAGS": "--cfg rx_verif", "CARGO_TARGET_DIR": os.path.join(SCRATCH, "target")}
        rc, out = sh(["cargo", "build", "--offline"], cwd=hd, env=env, timeout=1800)
        if rc != 0:
            return False, "cargo build failed:\n" + out[-4000:]
        return True, out


def impl_bin(name="rxseq"):
    return os.path.join(SCRATCH, "target", "debug", name)


HANG_OBS = "(obs (out hang) (log) (tap) (probes) (snaps)) ;; killed"


def _limit():
    try:
        resource.setrlimit(resource.RLIMIT_AS, (6 << 30, 6 << 30))
    except Exception:
        pass


def _run_shard(binary, lines, results, offset, stall):
    tmp = os.path.join(SCRATCH, "tmp")
    os.makedirs(tmp, exist_ok=True)
    path = os.path.join(tmp, "shard_%d_%d.txt" % (os.getpid(), offset))
    with open(path, "w") as f:
        f.write("\n".join(lines) + "\n")
    start = 0
    while start < len(lines):
        p = subprocess.Popen([binary, str(start)], stdin=open(path), stdout=subprocess.PIPE, stderr=subprocess.DEVNULL,
                             preexec_fn=_limit)
        cur = None
        buf = b""
        done = False
        while not done:
            r, _, _ = select.select([p.stdout], [], [], stall)
            if not r:
                p.kill()
                p.wait()
                if cur is None:
                    cur = start
                results[offset + cur] = HANG_OBS
                start = cur + 1
                break
            chunk = os.read(p.stdout.fileno(), 1 << 16)
            if not chunk:
                p.wait()
                if cur is not None and results[offset + cur] is None:
                    results[offset + cur] = HANG_OBS.replace("killed", "crashed rc=%s" % p.returncode)
                    start = cur + 1
                else:
                    start = len(lines)
                done = True
                break
            buf += chunk
            while b"\n" in buf:
                line, buf = buf.split(b"\n", 1)
                line = line.decode("utf-8", "replace")
                if line.startswith("BEGIN "):
                    cur = int(line.split()[1])
                elif line.startswith("END "):
                    _, i, rest = line.split(" ", 2)
                    results[offset + int(i)] = rest
    try:
        os.remove(path)
    except OSError:
        pass


def run_impl(lines, stall=6.0, binary=None):
    """Run scenarios on the implementation harness; returns one observation line per scenario."""
    binary = binary or impl_bin()
    results = [None] * len(lines)
    nsh = max(1, min(NCPU, (len(lines) + 49) // 50))
    size = (len(lines) + nsh - 1) // nsh
    threads = []
    for k in range(nsh):
        lo, hi = k * size, min(len(lines), (k + 1) * size)
        if lo >= hi:
            break
        t = threading.Thread(target=_run_shard, args=(binary, lines[lo:hi], results, lo, stall))
        t.start()
        threads.append(t)
    for t in threads:
        t.join()
    return [r if r is not None else HANG_OBS for r in results]


def run_model(lines, fuel=60000):
    results = [None] * len(lines)
    nsh = max(1, min(NCPU, (len(lines) + 199) // 200))
    size = (len(lines) + nsh - 1) // nsh

    def work(lo, hi):
        p = subprocess.run([driver_bin(), "run-seq", str(fuel)], input="\n".join(lines[lo:hi]) + "\n", stdout=subprocess.PIPE,
                           stderr=subprocess.PIPE, text=True)
        out = [l for l in p.stdout.split("\n") if l.startswith("(")]
        for i, l in enumerate(out[: hi - lo]):
            results[lo + i] = l
    threads = []
    for k in range(nsh):
        lo, hi = k * size, min(len(lines), (k + 1) * size)
        if lo >= hi:
            break
        t = threading.Thread(target=work, args=(lo, hi))
        t.start()
        threads.append(t)
    for t in threads:
        t.join()
    return [r if r is not None else '(error "model driver failed")' for r in results]


def run_oracle(name, scen_lines, obs_lines):
    """Apply the Coq-extracted oracle `name` to observations; returns list of 'ok' | 'skip' | 'fail ...'."""
    tmp = os.path.join(SCRATCH, "tmp")
    os.makedirs(tmp, exist_ok=True)
    tag = "%d_%s" % (os.getpid(), hashlib.md5(name.encode()).hexdigest()[:6])
    sp, op_ = os.path.join(tmp, "or_s_%s.txt" % tag), os.path.join(tmp, "or_o_%s.txt" % tag)
    open(sp, "w").write("\n".join(scen_lines) + "\n")
    open(op_, "w").write("\n".join(o.split(" ;; ")[0] for o in obs_lines) + "\n")
    p = subprocess.run([driver_bin(), "oracle", name, sp, op_], stdout=subprocess.PIPE, stderr=subprocess.PIPE, text=True)
    os.remove(sp)
    os.remove(op_)
    out = [l for l in p.stdout.split("\n") if l]
    if len(out) != len(scen_lines):
        raise RuntimeError("oracle %s: %d verdicts for %d scenarios\n%s" % (name, len(out), len(scen_lines), p.stderr[-2000:]))
    return out


# ---------------------------------------------------------------- observations
def parse_obs(line):
    """observation line -> dict(out, log, tap, probes, snaps, extra)"""
    body, _, extra = line.partition(" ;; ")
    try:
        x = sx.loads(body)
    except Exception:
        return {"out": "error", "log": [], "tap": [], "probes": [], "snaps": [], "extra": line}
    if not x or x[0] != "obs":
        return {"out": "error", "log": [], "tap": [], "probes": [], "snaps": [], "extra": line}
    return {"out": sx.field(x[1:], "out")[0], "log": sx.field(x[1:], "log"), "tap": sx.field(x[1:], "tap"),
            "probes": sx.field(x[1:], "probes"), "snaps": sx.field(x[1:], "snaps"), "extra": extra}


def user_logs(ob, with_idx=False, canon=False):
    """per-subscriber sequences; with canon=True the recorders of inner observables (c<j>, numbered in creation order, which depends
    on the hash order in which a Subject calls its observers) are renamed after their parent: <parent>/<k> = the k-th observable
    the parent received"""
    d = {}
    rename, nobs, nxt = {}, {}, 0
    for (u, i, e) in ob["log"]:
        u2 = rename.get(u, u) if canon else u
        d.setdefault(u2, []).append((i, e) if with_idx else e)
        if canon and isinstance(e, list) and len(e) == 2 and e[0] == "n" and e[1] == ["obs"]:
            k = nobs.get(u2, 0)
            nobs[u2] = k + 1
            rename["c%d" % nxt] = "%s/%d" % (u2, k)
            nxt += 1
    return d


def project_default(ob):
    """per-subscriber event sequences with action indices, outcome, probes, snapshots"""
    if ob["out"] != "ok":
        return {"out": ob["out"]}
    logs = user_logs(ob, True, canon=True)
    tap = ob["tap"]
    if len([u for u in logs if "/" not in u]) >= 2:
        # several subscribers: the order in which a Subject calls its observers within ONE broadcast is the order of a hash map,
        # so the global side-effect log of tap is compared as a multiset (each subscriber's own log keeps its order)
        tap = sorted(tap, key=sx.dumps)
        # ... and the global log length seen by a probe is not compared
        probes = [list(p[:4]) + ["-"] + list(p[5:]) for p in ob["probes"]]
    else:
        probes = ob["probes"]
    out = {"out": "ok", "logs": logs, "tap": tap, "probes": probes, "snaps": ob["snaps"]}
    tops = [u for u in logs if "/" not in u]
    if len(tops) == 1 and len(logs) > 1:
        # ONE subscriber and the recorders of the inner observables it was handed (windows, groups): every subject involved has a single
        # observer, so the order ACROSS these logs is determined too - e.g. a window is closed before the outer stream is
        order, rename, nobs, nxt = [], {}, {}, 0
        for (u, i, e) in ob["log"]:
            u2 = rename.get(u, u)
            order.append((u2, sx.dumps(e)))
            if isinstance(e, list) and len(e) == 2 and e[0] == "n" and e[1] == ["obs"]:
                k = nobs.get(u2, 0)
                nobs[u2] = k + 1
                rename["c%d" % nxt] = "%s/%d" % (u2, k)
                nxt += 1
        # (the order AMONG the inner observables - e.g. in which group_by closes its groups - is a hash order: each inner log is
        # compared with the outer one separately)
        out["order"] = {c: [x for x in order if x[0] in (tops[0], c)] for c in logs if "/" in c}
    return out


# ---------------------------------------------------------------- evidence / verdict
def git_changed_ops():
    rc, out = sh(["git", "-C", REPO, "diff", "--name-only", PINNED], timeout=30)
    if rc != 0:
        return []
    return sorted(set(os.path.splitext(os.path.basename(l))[0] for l in out.split() if l.endswith(".rs")))


def load_known():
    p = os.path.join(VERIF, "known_findings.json")
    if not os.path.exists(p):
        return []
    return json.load(open(p)).get("findings", [])


def write_evidence(pid, tier, seed, coverage, assumptions, wall, violations):
    os.makedirs(os.path.join(VERIF, "evidence"), exist_ok=True)
    ev = {"property_id": pid, "tier": tier, "seed": seed, "level": "proof", "coverage": coverage,
          "assumptions": assumptions, "wall_s": round(wall, 2), "violations": violations}
    with open(os.path.join(VERIF, "evidence", pid + ".json"), "w") as f:
        json.dump(ev, f, indent=1)


def write_replay(pid, kind, payload):
    d = os.path.join(VERIF, "evidence", "replays")
    os.makedirs(d, exist_ok=True)
    h = hashlib.md5(json.dumps(payload, sort_keys=True).encode()).hexdigest()[:10]
    p = os.path.join(d, "%s-%s-%s.json" % (pid, kind, h))
    payload = dict(payload)
    payload["property"] = pid
    payload["kind"] = kind
    with open(p, "w") as f:
        json.dump(payload, f, indent=1)
    return p


TRUSTED_BASE = [
    "Coq 8.16.1 kernel (coqc); vm_compute used for witnesses/finite tables only; native_compute not used",
    "axioms: none (every property theorem must print 'Closed under the global context')",
    "extraction: ExtrOcamlBasic only, no further Extract Constant/Inductive; OCaml 4.13.1; hand-written ml/driver.ml",
    "correspondence apparatus: harness/seq, harness/conc, harness/facade (std facade + scheduling runtime), gen/*.py, ./vp",
    "modelled rather than verified: Rust ownership/Arc, std::sync semantics, OS scheduler and clock, HashMap order, "
    "user callbacks from the fixed function families, item type instantiated at the harness enum V",
]


# ---------------------------------------------------------------- sequential check engine
class SeqCheck:
    """Generic engine for the properties decided on the sequential machine.

    A property module (gen/props/<id>.py) provides:
      PID, ORACLE (name of the extracted oracle), generate(rng, tier, focus) -> list of (scenario, tags),
      project(ob) -> comparable projection (default: project_default), nontrivial(scenario, ob) -> bool,
      classify(scenario, ob_impl, verdict) -> id of a known-finding class or None,
      RULE (text), ASSUMPTIONS (list of text)."""

    def __init__(self, mod):
        self.m = mod

    def run(self, tier, seed, only_lines=None, write=True):
        m = self.m
        pid = m.PID
        t0 = time.time()
        rng = random.Random(seed)
        proofs = check_proofs(pid, getattr(m, "ALLOW_AXIOMS", ()))
        ok, out = build_driver()
        if not ok:
            return self.fail_infra(pid, tier, seed, t0, "driver build failed: " + out[-2000:], proofs)
        ok, out = build_impl("seq")
        if not ok:
            return self.fail_infra(pid, tier, seed, t0, out[-3000:], proofs)
        focus = git_changed_ops()
        if only_lines is not None:
            cases = [(sx.loads(l), {"replay": True}) for l in only_lines]
        else:
            cases = []
            cdir = os.path.join(VERIF, "corpus", pid)
            if os.path.isdir(cdir):
                for f in sorted(os.listdir(cdir)):
                    for l in open(os.path.join(cdir, f)):
                        l = l.strip()
                        if l.startswith("("):
                            cases.append((sx.loads(l), {"corpus": f}))
            cases += m.generate(rng, tier, focus)
        lines = [sx.dumps(c[0]) for c in cases]
        impl = run_impl(lines)
        model = run_model(lines)
        verd_i = run_oracle(m.ORACLE, lines, impl)
        verd_m = run_oracle(m.ORACLE, lines, model)
        if hasattr(m, "judge_impl"):
            # a property-specific judgement over groups of implementation observations (e.g. a subscriber's log in a combined scenario
            # against its log in a solitary one); a failure is a violation of the property by the implementation
            for (i, why) in m.judge_impl(cases, [parse_obs(x) for x in impl]):
                if not verd_i[i].startswith("fail"):
                    verd_i[i] = "fail " + why
        proj = getattr(m, "project", project_default)
        ties = [run_oracle(t, lines, impl) for t in getattr(m, "TIE_ORACLES", ())]
        extras = [run_oracle(t, lines, impl) for t in getattr(m, "EXTRA_ORACLES", ())]     # further statements of the property: a failure is a violation
        for i in range(len(lines)):
            if not verd_i[i].startswith("fail"):
                for t, tv in zip(getattr(m, "EXTRA_ORACLES", ()), extras):
                    if tv[i].startswith("fail"):
                        verd_i[i] = "fail (%s)" % t
                        break
        known = [k for k in load_known() if k.get("property") == pid and k.get("status") == "known"]
        known_ids = set(k["id"] for k in known)
        viol, knownhits, disagree, model_viol = [], {}, [], []
        seen, nontriv = set(), 0
        hist = {}
        for i, (sc, tags) in enumerate(cases):
            oi, om = parse_obs(impl[i]), parse_obs(model[i])
            if lines[i] not in seen:
                seen.add(lines[i])
                if m.nontrivial(sc, oi, verd_i[i]):
                    nontriv += 1
            for o_ in set(m.ops_of(sc)):
                hist[o_] = hist.get(o_, 0) + 1
            if verd_i[i].startswith("fail"):
                cls = m.classify(sc, oi, verd_i[i])
                if cls is not None and cls in known_ids:
                    knownhits.setdefault(cls, []).append(i)
                else:
                    viol.append(i)
            if tags.get("no_model"):
                pass        # the outcome depends on the (unspecified) order in which a subject visits its observers: judged by the oracle only
            elif proj(oi) != proj(om) or any(t[i].startswith("fail") for t in ties):
                disagree.append(i)
            elif getattr(m, "MODEL_MUST_NOT", None) and m.MODEL_MUST_NOT in om["extra"]:
                disagree.append(i)       # the model's own final world contradicts what the theorems say about it
            if verd_m[i].startswith("fail") and not verd_i[i].startswith("fail"):
                model_viol.append(i)
        status = 0
        replays = []
        # 1. implementation violates the oracle
        if viol:
            i = min(viol, key=lambda j: len(lines[j]))
            small = self.shrink(cases[i][0])
            sl = sx.dumps(small)
            oi = run_impl([sl])[0]
            om = run_model([sl])[0]
            vi = run_oracle(m.ORACLE, [sl], [oi])[0]
            for t in getattr(m, "EXTRA_ORACLES", ()):
                if not vi.startswith("fail") and run_oracle(t, [sl], [oi])[0].startswith("fail"):
                    vi = "fail (%s)" % t
            p = write_replay(pid, "violation", {"scenario": sl, "seed": seed, "impl": oi, "model": om, "oracle": vi,
                                                "original": lines[i], "oracle_name": m.ORACLE})
            log("VIOLATION property=%s replay=%s" % (pid, p))
            replays.append(p)
            status = 1
        for cls, idxs in sorted(knownhits.items()):
            what = [k["what"] for k in known if k["id"] == cls][0]
            log("KNOWN-FINDING: property=%s %s [%s] (%d scenarios, e.g. %s)" % (pid, what, cls, len(idxs), lines[min(idxs, key=lambda j: len(lines[j]))]))
        # 2. proof broken or correspondence broken, no failing input found
        if status == 0 and (not proofs["ok"] or disagree):
            # a disagreement on a scenario where the implementation also matches a known finding class is explained by it
            unexplained = [i for i in disagree if not (verd_i[i].startswith("fail"))]
            unexplained = [i for i in unexplained if m.classify(cases[i][0], parse_obs(impl[i]), "disagree") not in known_ids]
            if not proofs["ok"] or unexplained:
                payload = {"seed": seed}
                if not proofs["ok"]:
                    payload["broken"] = "proof"
                    payload["theorems"] = proofs["theorems"]
                    payload["detail"] = proofs["detail"]
                if unexplained:
                    i = min(unexplained, key=lambda j: len(lines[j]))
                    small = self.shrink(cases[i][0], mode="disagree")
                    sl = sx.dumps(small)
                    payload["broken"] = payload.get("broken", "") + "+correspondence" if payload.get("broken") else "correspondence"
                    payload.update({"scenario": sl, "impl": run_impl([sl])[0], "model": run_model([sl])[0], "original": lines[i],
                                    "n_disagreements": len(unexplained)})
                p = write_replay(pid, "unshown", payload)
                log("VIOLATION property=%s replay=%s no-failing-input-found" % (pid, p))
                replays.append(p)
                status = 1
        wall = time.time() - t0
        samples = [lines[i] for i in (sorted(set([0, len(lines) // 2, len(lines) - 1])) if lines else [])]
        cov = {
            "obligations": max(1, proofs["obligations"]), "discharged": proofs["discharged"],
            "checker_cmd": "make -C coq (coq_makefile, full .vo build) ; make Props/%s.vo with Print Assumptions ; grep for Admitted/Axiom/..." % pid,
            "trusted_base": TRUSTED_BASE + ["axioms used: " + (", ".join(proofs["axioms"]) or "none")],
            "theorems": proofs["theorems"], "proof_detail": proofs["detail"],
            "evaluations": len(lines), "distinct_nontrivial": nontriv, "rule": m.RULE, "samples": samples,
            "traces_validated_against_impl": len(lines) - len(disagree), "disagreements_checked": len(disagree),
            "model_oracle_failures": len(model_viol), "impl_oracle_failures": len(viol) + sum(len(v) for v in knownhits.values()),
            "known_finding_hits": {k: len(v) for k, v in knownhits.items()},
            "operator_histogram": hist, "diff_focus": focus,
            "impl_outcomes": _count(parse_obs(o)["out"] for o in impl),
            "oracle_verdicts_on_impl": _count(v.split()[0] for v in verd_i),
            "tie_oracle_verdicts_on_impl": {t: _count(v.split()[0] for v in tv) for t, tv in zip(getattr(m, "TIE_ORACLES", ()), ties)},
            "case_kinds": _count(str(c[1].get("k", c[1])) for c in cases),
        }
        if write:
            write_evidence(pid, tier, seed, cov, m.ASSUMPTIONS, wall, 1 if status else 0)
        self.last = (cov, list(m.ASSUMPTIONS))
        log("%s: %d scenarios, %d non-trivial, %d impl-oracle failures (%d known), %d impl/model disagreements, proofs %s, %.1fs" % (
            pid, len(lines), nontriv, cov["impl_oracle_failures"], sum(len(v) for v in knownhits.values()), len(disagree),
            "ok (%d theorems)" % proofs["discharged"] if proofs["ok"] else "BROKEN: " + proofs["detail"][:200], wall))
        return status

    def fail_infra(self, pid, tier, seed, t0, detail, proofs):
        p = write_replay(pid, "unshown", {"broken": "build", "detail": detail})
        log("VIOLATION property=%s replay=%s no-failing-input-found" % (pid, p))
        cov = {"obligations": max(1, proofs["obligations"]), "discharged": proofs["discharged"], "checker_cmd": "make -C coq",
               "trusted_base": TRUSTED_BASE, "evaluations": 1, "distinct_nontrivial": 0, "rule": "build failed", "samples": [detail[:500]]}
        write_evidence(pid, tier, seed, cov, [], time.time() - t0, 1)
        return 1

    # ------------------------------------------------------------ shrinking
    def still_fails(self, cands, mode):
        m = self.m
        lines = [sx.dumps(c) for c in cands]
        impl = run_impl(lines)
        if mode == "disagree":
            model = run_model(lines)
            proj = getattr(m, "project", project_default)
            return [proj(parse_obs(a)) != proj(parse_obs(b)) for a, b in zip(impl, model)]
        v = run_oracle(m.ORACLE, lines, impl)
        res = [x.startswith("fail") for x in v]
        for t in getattr(m, "EXTRA_ORACLES", ()):
            res = [a or b.startswith("fail") for a, b in zip(res, run_oracle(t, lines, impl))]
        return res

    def shrink(self, sc, mode="violation", rounds=6):
        cur = sc
        for _ in range(rounds):
            cands = list(shrink_candidates(cur))
            if not cands:
                break
            cands = cands[:400]
            res = self.still_fails(cands, mode)
            better = [c for c, r in zip(cands, res) if r]
            if not better:
                break
            cur = min(better, key=lambda c: len(sx.dumps(c)))
        return cur


def _count(it):
    d = {}
    for x in it:
        d[x] = d.get(x, 0) + 1
    return d


def shrink_candidates(sc):
    """smaller variants of a scenario: drop a driver action, drop a reaction, shorten a source script,
    replace an operator application by its source."""
    def repl(field_name, new):
        return [sc[0]] + [([field_name] + new) if (isinstance(f, list) and f and f[0] == field_name) else f for f in sc[1:]]
    script = sx.field(sc[1:], "script")
    for i in range(len(script)):
        yield repl("script", script[:i] + script[i + 1:])
    for i, a in enumerate(script):
        if a[0] == "sub":
            for j in range(3, len(a)):
                yield repl("script", script[:i] + [a[:j] + a[j + 1:]] + script[i + 1:])
            for q in pipe_shrinks(a[2]):
                yield repl("script", script[:i] + [a[:2] + [q] + a[3:]] + script[i + 1:])
    srcs = sx.field(sc[1:], "srcs")
    for i, s in enumerate(srcs):
        for j, part in enumerate(s):
            if part and part[0] == "att":
                for k in range(1, len(part)):
                    ns = s[:j] + [part[:k] + part[k + 1:]] + s[j + 1:]
                    yield repl("srcs", srcs[:i] + [ns] + srcs[i + 1:])
    conns = sx.field(sc[1:], "conns")
    for i, c in enumerate(conns):
        for q in pipe_shrinks(c[1]):
            yield repl("conns", conns[:i] + [[c[0], q]] + conns[i + 1:])


def pipe_shrinks(p):
    if not isinstance(p, list) or not p:
        return
    if p[0] == "op":
        yield p[3]
        for o in p[4:]:
            yield o
        for q in pipe_shrinks(p[3]):
            yield p[:3] + [q] + p[4:]
        for i in range(4, len(p)):
            yield p[:i] + p[i + 1:] if len(p) > 5 or p[1] in ("merge", "concat", "zip", "amb", "flat_map", "on_error_resume_next", "combine_latest", "sequence_equal") else p
            for q in pipe_shrinks(p[i]):
                yield p[:i] + [q] + p[i + 1:]
        # lower numeric parameters
        for i, a in enumerate(p[2]):
            if isinstance(a, int) and a > (1 if p[1] in ("group_by", "buffer_with_count", "window_with_count") else 0):
                yield p[:2] + [p[2][:i] + [a - 1] + p[2][i + 1:]] + p[3:]
    elif p[0] == "defer":
        yield p[1]
    elif p[0] == "from_iter" and len(p) > 1:
        yield p[:-1]


def run_both(seq_mod, conc_mod, tier, seed):
    """a property with a sequential and a concurrent part: run both engines, one evidence file"""
    t0 = time.time()
    a, b = SeqCheck(seq_mod), ConcCheck(conc_mod)
    st1 = a.run(tier, seed, write=False)
    st2 = b.run(tier, seed, write=False)
    if not hasattr(a, "last") or not hasattr(b, "last"):
        return 1     # an infrastructure failure already wrote its own evidence and VIOLATION line
    cov, ass = a.last
    cov2, ass2 = b.last
    cov = dict(cov)
    cov["evaluations"] += cov2["evaluations"]
    cov["distinct_nontrivial"] += cov2["distinct_nontrivial"]
    cov["samples"] = cov["samples"] + cov2["samples"]
    cov["rule"] = "SEQUENTIAL: " + cov["rule"] + " CONCURRENT: " + cov2["rule"]
    cov["traces_validated_against_impl"] += cov2["traces_validated_against_impl"]
    cov["disagreements_checked"] += cov2["disagreements_checked"]
    for k, v in cov2.items():
        if k not in cov:
            cov[k] = v
        elif k not in ("evaluations", "distinct_nontrivial", "samples", "rule", "traces_validated_against_impl", "disagreements_checked"):
            cov["conc_" + k] = v
    write_evidence(seq_mod.PID, tier, seed, cov, ass + [x for x in ass2 if x not in ass], time.time() - t0, 1 if (st1 or st2) else 0)
    return 1 if (st1 or st2) else 0


# ---------------------------------------------------------------- command line
def load_prop(pid):
    sys.path.insert(0, os.path.join(VERIF, "gen", "props"))
    return importlib.import_module(pid)


def cmd_setup():
    t0 = time.time()
    ok, out = build_coq()
    if not ok:
        log(out[-4000:])
        log("setup: coq build FAILED")
        return 1
    ok, out = build_driver()
    if not ok:
        log(out[-4000:])
        return 1
    for which in ("seq", "conc"):
        if os.path.exists(os.path.join(VERIF, "harness", which, "Cargo.toml")) and (which == "seq" or os.path.exists(os.path.join(VERIF, "harness", which, "READY"))):
            ok, out = build_impl(which)
            if not ok:
                log(out[-4000:])
                return 1
    log("setup ok (%.0fs)" % (time.time() - t0))
    return 0


def cmd_check(pid, tier):
    seed = int(os.environ.get("VERIF_SEED", "1"))
    tier = os.environ.get("VERIF_TIER", tier)
    mod = load_prop(pid)
    if hasattr(mod, "run"):
        return mod.run(tier, seed)
    if getattr(mod, "ENGINE", "seq") == "conc":
        return ConcCheck(mod).run(tier, seed)
    return SeqCheck(mod).run(tier, seed)


def cmd_replay(path):
    d = json.load(open(path))
    pid = d["property"]
    mod = load_prop(pid)
    if "scenario" not in d:
        log("replay names a broken proof/correspondence only: %s" % d.get("detail", "")[:500])
        return cmd_check(pid, "quick")
    if d.get("engine") == "conc":
        if hasattr(mod, "CONC_MODULE"):
            mod = load_prop(mod.CONC_MODULE)
        case = dict(d["case"])
        sched = list(d.get("sched", ["random", 0, 1]))
        case["scn"] = [f for f in case["scn"] if not (isinstance(f, list) and f and f[0] == "sched")] + [["sched"] + sched] + ([["want-choices"]] if sched[0] == "replay" else [])
        case["sched"] = sched
        return ConcCheck(mod).run("quick", int(d.get("seed", 1)), only=[case])
    return SeqCheck(mod).run("quick", int(d.get("seed", 1)), only_lines=[d["scenario"]])   # (a module-level run() is for the full check only)


def main(argv):
    if not argv:
        log(__doc__ or "usage: vp setup|check|replay|clean")
        return 2
    if argv[0] == "setup":
        return cmd_setup()
    if argv[0] == "check":
        tier = "quick"
        if "--tier" in argv:
            tier = argv[argv.index("--tier") + 1]
        return cmd_check(argv[1], tier)
    if argv[0] == "replay":
        return cmd_replay(argv[1])
    if argv[0] == "clean":
        shutil.rmtree(SCRATCH, ignore_errors=True)
        return 0
    log("unknown command")
    return 2


# ================================================================ concurrent check engine
def conc_bin():
    return os.path.join(SCRATCH, "target", "debug", "rxconc")


def parse_cobs(line):
    try:
        x = sx.loads(line)
    except Exception:
        return {"status": "unreadable", "ev": [], "live": [], "names": [], "seed": -1, "raw": line}
    f = x[1:]
    d = {"status": (sx.field(f, "status") or ["?"])[0], "seed": int((sx.field(f, "seed") or ["-1"])[0]),
         "steps": int((sx.field(f, "steps") or ["0"])[0]), "vt": int((sx.field(f, "vt") or ["0"])[0]),
         "panics": int((sx.field(f, "panics") or ["0"])[0]), "timelimit": (sx.field(f, "timelimit") or ["0"])[0],
         "live": sx.field(f, "live"), "names": sx.field(f, "names"), "ev": sx.field(f, "ev"), "choices": sx.field(f, "choices"),
         "msg": " ".join(map(str, sx.field(f, "msg"))), "edges": sx.field(f, "edges") or [],
         "detail": " ".join(map(str, sx.field(f, "detail") or [])),
         "left": [int(v) for v in (sx.field(f, "left") or [0, 0])]}
    return d


def _run_conc_shard(lines, results, offset, stall):
    tmp = os.path.join(SCRATCH, "tmp")
    os.makedirs(tmp, exist_ok=True)
    path = os.path.join(tmp, "cshard_%d_%d.txt" % (os.getpid(), offset))
    with open(path, "w") as f:
        f.write("\n".join(lines) + "\n")
    start = 0
    while start < len(lines):
        p = subprocess.Popen([conc_bin(), str(start)], stdin=open(path), stdout=subprocess.PIPE, stderr=subprocess.DEVNULL, preexec_fn=_limit)
        cur, buf, acc, last_end = None, b"", [], start - 1
        while True:
            r, _, _ = select.select([p.stdout], [], [], stall)
            if not r:
                p.kill()
                p.wait()
                if cur is None:
                    cur = start
                results[offset + cur] = acc + [{"status": "harness-hang", "ev": [], "live": [], "names": [], "seed": -1}]
                start = cur + 1
                break
            chunk = os.read(p.stdout.fileno(), 1 << 16)
            if not chunk:
                p.wait()
                if cur is not None and results[offset + cur] is None:
                    results[offset + cur] = acc + [{"status": "harness-crash", "ev": [], "live": [], "names": [], "seed": -1}]
                    start = cur + 1
                else:
                    # the harness left after a complete scenario (it does so when it runs out of OS threads): go on in a fresh process
                    start = last_end + 1
                break
            buf += chunk
            while b"\n" in buf:
                line, buf = buf.split(b"\n", 1)
                line = line.decode("utf-8", "replace")
                if line.startswith("BEGIN "):
                    cur = int(line.split()[1])
                    acc = []
                elif line.startswith("END "):
                    last_end = int(line.split()[1])
                    results[offset + last_end] = acc
                    acc = []
                elif line.startswith("(cobs"):
                    ob = parse_cobs(line)
                    if ob["status"] == "harness-panic" and "out of OS threads" in ob.get("msg", ""):
                        acc.append({"status": "truncated", "ev": [], "live": [], "names": [], "seed": -1})   # resource limit of the harness process, not an observation
                    else:
                        acc.append(ob)
                elif line.startswith("(dfs-done"):
                    acc.append({"status": "dfs-done", "complete": line.split()[1] == "1", "ev": [], "live": [], "names": [], "seed": -1})
    try:
        os.remove(path)
    except OSError:
        pass


def run_conc(lines, stall=60.0):
    """Run concurrent scenarios on rxconc; returns, per scenario, the list of parsed observations (one per schedule)."""
    results = [None] * len(lines)
    nsh = max(1, min(NCPU, len(lines)))
    size = (len(lines) + nsh - 1) // nsh
    threads = []
    for k in range(nsh):
        lo, hi = k * size, min(len(lines), (k + 1) * size)
        if lo >= hi:
            break
        t = threading.Thread(target=_run_conc_shard, args=(lines[lo:hi], results, lo, stall))
        t.start()
        threads.append(t)
    for t in threads:
        t.join()
    return [r if r is not None else [] for r in results]


def driver_lines(cmd, lines):
    """feed lines to a driver sub-command, return its stdout lines"""
    p = subprocess.run([driver_bin()] + cmd, input="\n".join(lines) + "\n", stdout=subprocess.PIPE, stderr=subprocess.PIPE, text=True)
    out = [l for l in p.stdout.split("\n") if l]
    if len(out) != len(lines):
        raise RuntimeError("driver %s: %d answers for %d inputs\n%s" % (cmd, len(out), len(lines), p.stderr[-2000:]))
    return out


def callbacks_of(ob, tag="cb"):
    """(subscriber, event sexp, begin position of the call it belongs to, start position, return position, tid) for every
    callback of kind `tag` in one observation; positions are indices into the event list (= log order)"""
    out = []
    open_call = {}     # tid -> stack of call positions
    open_cb = {}       # (tid, sub) -> stack of indices into out
    for pos, r in enumerate(ob["ev"]):
        tid, t = r[2], r[3]
        if t == "call":
            open_call.setdefault(tid, []).append(pos)
        elif t == "ret":
            if open_call.get(tid):
                open_call[tid].pop()
        elif t == tag:
            begin = open_call[tid][-1] if open_call.get(tid) else -1
            out.append([r[4], r[5], begin, pos, 10 ** 9, tid])
            open_cb.setdefault((tid, r[4]), []).append(len(out) - 1)
        elif t == tag + "ret":
            st = open_cb.get((tid, r[4]))
            if st:
                out[st.pop()][4] = pos
    return out


class ConcCheck:
    """Engine for the properties decided under the scheduling runtime.  A property module provides
       PID, RULE, ASSUMPTIONS, generate(rng, tier) -> list of cases (dict with 'scn': scenario s-expression as nested lists),
       judge(cases, runs) -> dict(violations=[(case index, seed, why)], unshown=[(case index, seed, why)],
                                  nontrivial=set of keys, extra=dict for the evidence)."""

    def __init__(self, mod):
        self.m = mod

    def run(self, tier, seed, only=None, write=True):
        m = self.m
        pid = m.PID
        t0 = time.time()
        rng = random.Random(seed)
        proofs = check_proofs(pid, getattr(m, "ALLOW_AXIOMS", ()))
        ok, out = build_driver()
        if not ok:
            return SeqCheck(m).fail_infra(pid, tier, seed, t0, "driver build failed: " + out[-2000:], proofs)
        ok, out = build_impl("conc")
        if not ok:
            return SeqCheck(m).fail_infra(pid, tier, seed, t0, out[-3000:], proofs)
        cases = only if only is not None else m.generate(rng, tier, seed)
        lines = [sx.dumps(c["scn"]) for c in cases]
        runs = run_conc(lines)
        runs = [[o for o in r if o.get("status") != "truncated"] for r in runs]
        res = m.judge(cases, runs)
        known = [k for k in load_known() if k.get("property") == pid and k.get("status") == "known"]
        known_ids = set(k["id"] for k in known)
        viol, knownhits = [], {}
        for v in res["violations"]:
            cls = m.classify(cases[v[0]], v) if hasattr(m, "classify") else None
            if cls is not None and cls in known_ids:
                knownhits.setdefault(cls, []).append(v)
            else:
                viol.append(v)
        status = 0
        for cls, vs in sorted(knownhits.items()):
            what = [k["what"] for k in known if k["id"] == cls][0]
            log("KNOWN-FINDING: property=%s %s [%s] (%d schedules, e.g. %s seed %s)" % (pid, what, cls, len(vs), lines[vs[0][0]], vs[0][1]))
        if viol:
            v = min(viol, key=lambda x: len(lines[x[0]]))
            p = write_replay(pid, "violation", {"scenario": lines[v[0]], "case": cases[v[0]], "sched": v[1], "why": v[2], "seed": seed, "engine": "conc",
                                                "n_violating_schedules": len(viol)})
            log("VIOLATION property=%s replay=%s" % (pid, p))
            status = 1
        unshown = [u for u in res.get("unshown", []) if not ((m.classify(cases[u[0]], u) if hasattr(m, "classify") else None) in known_ids)]
        if status == 0 and (not proofs["ok"] or unshown):
            payload = {"seed": seed, "engine": "conc"}
            if not proofs["ok"]:
                payload.update({"broken": "proof", "theorems": proofs["theorems"], "detail": proofs["detail"]})
            if unshown:
                u = min(unshown, key=lambda x: len(lines[x[0]]))
                payload.update({"broken": (payload.get("broken", "") + "+correspondence").strip("+"), "scenario": lines[u[0]], "case": cases[u[0]], "sched": u[1], "why": u[2],
                                "n_disagreements": len(unshown)})
            p = write_replay(pid, "unshown", payload)
            log("VIOLATION property=%s replay=%s no-failing-input-found" % (pid, p))
            status = 1
        runs = [[o for o in r if o.get("status") != "truncated"] for r in runs]
        nruns = sum(len([o for o in r if o.get("status") != "dfs-done"]) for r in runs)
        wall = time.time() - t0
        statuses = _count(o.get("status") for r in runs for o in r)
        samples = [lines[i] for i in sorted(set([0, len(lines) // 2, len(lines) - 1]))] if lines else []
        cov = {
            "obligations": max(1, proofs["obligations"]), "discharged": proofs["discharged"],
            "checker_cmd": "make -C coq (coq_makefile, full .vo build) ; make Props/%s.vo with Print Assumptions ; grep for Admitted/Axiom/..." % pid,
            "trusted_base": TRUSTED_BASE + ["axioms used: " + (", ".join(proofs["axioms"]) or "none")],
            "theorems": proofs["theorems"], "proof_detail": proofs["detail"],
            "evaluations": nruns, "distinct_nontrivial": len(res.get("nontrivial", ())), "rule": m.RULE, "samples": samples,
            "scenarios": len(lines), "schedules_run": nruns, "run_statuses": statuses,
            "traces_validated_against_impl": nruns - len(res.get("unshown", [])), "disagreements_checked": len(res.get("unshown", [])),
            "impl_oracle_failures": len(res["violations"]), "known_finding_hits": {k: len(v) for k, v in knownhits.items()},
        }
        cov.update(res.get("extra", {}))
        if write:
            write_evidence(pid, tier, seed, cov, m.ASSUMPTIONS, wall, 1 if status else 0)
        self.last = (cov, list(m.ASSUMPTIONS))
        log("%s: %d scenarios, %d schedules, %d distinct non-trivial observations, %d oracle failures (%d known), %d unexplained, proofs %s, %.1fs" % (
            pid, len(lines), nruns, len(res.get("nontrivial", ())), len(res["violations"]), sum(len(v) for v in knownhits.values()), len(unshown),
            "ok (%d theorems)" % proofs["discharged"] if proofs["ok"] else "BROKEN: " + proofs["detail"][:200], wall))
        return status
