#!/usr/bin/env python3
"""Regenerates /verif/MANIFEST.json from the table below (so that it stays valid at all times)."""
import json
import os

VERIF = os.path.dirname(os.path.dirname(os.path.abspath(__file__)))

TRUST = ("Trusted: Coq kernel (no axioms: every property theorem prints 'Closed under the global context'), extraction (ExtrOcamlBasic only), "
         "ml/driver.ml, the Rust harnesses + std facade/runtime, generators and ./vp; the model=code tie holds on the scenarios run, not beyond.")

CLAIMED = {
    "C01": dict(engine="coq-seq", design="DESIGN.md 6 C01",
                technique="machine-checked proof in Coq (invariant over a worklist machine) + differential correspondence",
                text="Theorem C01_all_pipelines / C01_any_stack (Coq, closed under the global context): every subscriber log of every scenario "
                     "(any pipeline over the whole operator catalogue, any ill-formed cold scripts, any hot interleaving, any reactions, any fuel) of the "
                     "executable model satisfies next* terminal?. Model tied to /repo by running the extracted model and the real crate on the same "
                     "generated scenarios and applying the extracted oracle contract_ok to every implementation observation."),
    "C02": dict(engine="coq-seq", design="DESIGN.md 6 C02",
                technique="machine-checked proof in Coq (per-operator induction on the item list against list specifications; composition by induction on the chain) + three-way differential correspondence impl = Seq = Loc.chain",
                text="Theorems C02_operator_correct / C02_composition: for every single-source operator of the catalogue (all parameters, all members of the "
                     "function families), every finite item list and every ending, the operator's handler table (the one the sequential machine executes) "
                     "delivers exactly the events of its list definition, and chains of any length behave as the composition of the definitions. "
                     "The handler table is tied to the crate by running impl, Seq model and Loc.chain on the same inputs; the spec oracle is applied to every implementation observation."),
    "C10": dict(engine="coq-seq", design="DESIGN.md 6 C10",
                technique="machine-checked proof in Coq (refinement of the Subject, ReplaySubject, BehaviorSubject and AsyncSubject automata to the reference machine by simulation, induction over call histories) + three-way correspondence impl = Seq = SubjK",
                text="Theorem C10_subject_refines_reference: for every call history (unbounded observers, values, calls) the Subject automaton (serial-keyed map, "
                     "snapshot/clear/call, self-removing teardown) gives every observer exactly the events issued while it was registered and holds exactly the registered observers; "
                     "C10_replay_refines_reference: the same for ReplaySubject (forwarding observer registered in the inner Subject, replay gate, sbsc cell) for every history that does not use the subject after its own terminal: a new subscriber is handed the whole "
                     "history in order, then the stored terminal or the live stream, each item once; C10_behavior_refines_reference: the same for BehaviorSubject and every initial value (the latest value or the stored terminal first); C10_async_refines_reference: AsyncSubject (take_last(1) over the inner Subject) for every history, use after the terminal included; C10_replay_history_complete / C10_behavior_latest: the history cells always hold what was pushed. All four subject kinds are thereby proved to refine the reference machine on plain histories (observers attached directly, each handle subscribing once); observers attached through operators, shared Observable values and subscriptions made inside callbacks are decided by the reference-machine oracle and the correspondence on the implementation. "
                     "On the worklist machine itself, for every request kind, pipeline and run (re-entrant callbacks included): C10_members_only_by_subscribing (a subject's observer list grows only by SubjJoin) and C10_nothing_after_terminal_until_resubscription "
                     "(the terminal broadcast takes its snapshot and empties the list in one step, before the first notification runs; whatever runs afterwards, a later broadcast reaches nobody until somebody subscribes again)."),
    "C03": dict(engine="coq-seq", design="DESIGN.md 6 C03",
                technique="machine-checked proof in Coq (per-operator induction over arbitrary interleavings of the sources' events, with the StreamController bookkeeping invariant) + three-way correspondence impl = Seq = MLoc and the specification oracle on every implementation observation",
                text="Theorems C03_merge / C03_zip / C03_amb (any number of sources) and C03_take_until / C03_skip_until / C03_sample: for EVERY sequential interleaving of the sources' events (unbounded, ill-formed sources included) "
                     "the operator's handler table delivers exactly what its ReactiveX definition assigns to that interleaving; C03_concat / C03_on_error_resume_next / C03_flat_map: the same for the operators that subscribe further sources later (the local semantics registers the new observer when the handler asks for the subscription; flat_map for any selector: one more source per source item, unbounded). Partial: switch_on_next, ready_set_go and nestings with C02 operators "
                     "are decided by the correspondence impl = sequential machine (no operator theorem); combine_latest (D9) and sequence_equal (D10) are recorded known findings with witnesses C03_known_D9_witness / C03_known_D10_witness. "
                     "Tie: all interleavings of two hot sources up to length 4 (5), random ones for 3-4 sources, cold sources subscribed in the crate's order."),
    "C04": dict(engine="coq-seq", design="DESIGN.md 6 C04",
                technique="machine-checked proof in Coq (case analysis of every handler for error pass-through; induction over the list of attempts for retry / retry_when; list lemma for dematerialize after materialize) + specification oracles on every implementation observation and three-way correspondence",
                text="Theorems C04_error_passthrough (every non-handler operator, every state: exactly one sink_error with the same payload, last), C04_retry / C04_retry_when (for every list of attempts the handler table forwards the "
                     "items of attempts 1..m and makes exactly m subscriptions, m = first non-failing attempt capped by the budget), C04_dematerialize_materialize. Where an error arrives in a pipeline and what precedes it follows from "
                     "C02_composition / C03_* whose inputs include the failing ending; C04_on_error_resume_next: the source's items, then - iff it failed - the items and the terminal of the observable chosen for the error, whose own error is final, for every interleaving of the two. Tie: errors with distinct payload ids injected at "
                     "every position of every script through every C02 operator, chains and C03 operators; retry budgets 0..4 and every retry_when predicate over sources whose k-th subscription differs, with the source's subscription "
                     "counter compared to the definition's; resume targets from the family."),
    "C05": dict(engine="coq-seq", design="DESIGN.md 6 C05",
                technique="machine-checked proof in Coq (every step of the worklist machine decomposed into basic moves; frozen-log invariant preserved by every move, hence by every run; gate invariant for all interleavings) + differential correspondence (sequential) and controlled schedules (concurrent)",
                text="Theorems C05_unsubscribe_closes / C05_unsubscribe_freezes / C05_nothing_after_unsubscribe: on the sequential machine, for every pipeline over the whole catalogue, every scenario, "
                     "every pending-request stack and every fuel, once a subscriber's observer has lost its slots (Observer::unsubscribe does so in its first step) nothing is ever added to its log again and it stays "
                     "closed; C05_unsubscribe_idempotent / C05_closed_delivery_noop: later calls are no-ops; C05_concurrent_nothing_after_unsubscribe_returned: with any number of threads under any interleaving no "
                     "callback starts for a call begun after unsubscribe returned. C05_subscribed_until_terminal_or_unsubscribe: for every pipeline, world, stack and fuel a subscriber's observer that is subscribed at one point of a run and not at a later one "
                     "has in between been the target of Observer::unsubscribe or received a terminal (no other step touches the slots of an existing observer); C05_unsubscribe_requests_come_from_partial: such a request comes "
                     "only from Subscription::unsubscribe on a live subscription of it or from its StreamController. Partial: that a controller's finalize() reaches its subscriber only after a terminal is an "
                     "operator-by-operator fact judged by the oracle on implementation snapshots after every driver action, not by a theorem. Tie: unsubscribe at every position (driver, from inside a callback, repeated, after terminals) over hot, cold and hand-driven sources; emitter threads racing an "
                     "unsubscribing thread under the scheduling runtime."),
    "C06": dict(engine="coq-seq", design="DESIGN.md 6 C06",
                technique="machine-checked proof in Coq (static discipline of every handler of the catalogue by case analysis; soundness of the discipline for the controller bookkeeping by induction over nested action lists) + differential correspondence with probe sources and subject observer counts",
                text="Theorems C06_catalogue_disciplined / C06_handle_event_keeps_invariants / C06_ended_means_upstream_closed / C06_finalize_closes_everything: for every operator of the catalogue, every parameter, "
                     "state, port and event, the handler never forgets an upstream entry whose observer is still subscribed; hence one controller's bookkeeping keeps 'subscribed implies registered' and "
                     "'ended implies empty map' across any event, any early leave of the downstream during a delivery and any dynamic subscription, and an ended subscription has no subscribed upstream observer. "
                     "Partial: the theorem is per node (one StreamController); that closure propagates through a whole pipeline tree (each upstream observer's teardown is the next controller's finalize) is checked on the "
                     "model's final world of every generated scenario (closure_ok) and on the implementation by probes (is_subscribed seen by instrumented sources before every emission, subject observer counts), not proved globally. C06_dead_observer_subscribes_nothing: an observer that has already ended is never handed to a source (inner_subscribe's guard), for every pipeline."),
    "C08": dict(engine="coq-conc", design="DESIGN.md 6 C08",
                technique="machine-checked proof in Coq (invariants of the queue transition system over all traces) + linearisation check of every observed call/return history against the extracted transition system under a deterministic scheduling runtime",
                text="Theorems C08_queue_accounting / C08_no_start_after_abort / C08_worker_takes_front / C08_worker_exits_after_abort / C08_notifications_not_lost: for every trace of the queue "
                     "transition system (one transition per critical section; any clients, posts and aborts also from inside tasks, spurious wake-ups) posted = started ++ discarded ++ queued in order "
                     "(FIFO, at most once, nothing lost), one task at a time, a sleeping worker implies empty queue and no abort (no lost wake-up), nothing starts after abort and the worker exits within "
                     "one task return and one check. Tie: histories of the real scheduler under thousands of controlled schedules (random, PCT, DFS, spurious wake-ups) must be linearisations accepted "
                     "by the extracted transition system; thread affinity and worker liveness at quiescence are read off the runtime. C08_stop_discards_what_is_queued: right after a stop the queue is empty and every task posted so far has been started or discarded; "
                     "on the implementation every task closure records when the scheduler lets go of it (task-drop): a task posted before an abort that never ran has been let go of during the run; tasks whose destructor posts or aborts (post-guarded)."),
    "C13": dict(engine="coq-seq", design="DESIGN.md 6 C13",
                technique="machine-checked proof in Coq (invariants of the connectable automaton over all call histories; simulation between the automaton and the reference machine of the definition for publish, ref_count and replay) + three-way correspondence impl = Seq = ConnK and a reference-machine oracle on every implementation observation",
                text="Theorems C13_ref_count_one_source / C13_replay_one_source / C13_publish_sources_are_connections / C13_publish_nothing_before_connect: for every call history "
                     "(unbounded subscribers and calls) the automaton of publish / ref_count / replay over a hot source holds at most one source subscription (ref_count: exactly one while it has "
                     "subscribers; publish: one per live connection, none before connect). C13_ref_count_refines_reference / C13_replay_refines_reference / C13_publish_refines_reference (publish: histories without a connect() while a connection is live): for every history in which each handle subscribes at most once, every subscriber's log, the registered "
                     "subscribers, replay's history and stored terminal and the connected flag of the automaton equal those of the reference machine of the definition (a subscriber receives what the source emits while it is subscribed; replay: the whole history, "
                     "then the live stream or the stored terminal). Partial: cold sources and subscribers behind further operators are decided by the reference-machine oracle / the correspondence on the implementation "
                     "(all histories up to length 5-6 exhaustively plus random ones, hot and synchronous cold sources, late early-leavers, re-subscription inside terminal callbacks). Tie: the implementation's source-observer count "
                     "after every action and every subscriber log must equal the automaton's."),
    "C14": dict(engine="coq-seq", design="DESIGN.md 6 C14",
                technique="machine-checked proof in Coq (frame theorem over every request kind of the worklist machine: operator state is allocated fresh per subscription and written only through that subscription's own observers) + metamorphic differential testing of the implementation (combined vs solitary scenarios) and correspondence with the model",
                text="Theorems C14_fresh_node / C14_node_state_private: in the sequential machine every subscription of every operator allocates a fresh node in the operator's initial state and no request other than "
                     "an event for the node's own upstream observers or its own handler actions changes it - the model has no state shared between subscriptions, so state shared in the crate is a disagreement. "
                     "Partial: that each subscriber receives what it would have received alone is not proved as a bisimulation; it is decided on the implementation: every generated pipeline (C02-C04 operators, "
                     "cold per-attempt scripts, hot subjects, retry/retry_when) is subscribed 2-3 times to ONE Observable value - sequentially, nested from inside a callback, interleaved mid-stream, through retry - and "
                     "each subscriber's log must equal its log in the solitary scenario."),
    "C15": dict(engine="coq-conc", design="DESIGN.md 6 C15",
                technique="machine-checked proof in Coq (the interval/timer loop, the scheduler worker and observe_on's finalize protocol as transition systems: bounded exit after the end of the subscription, for every interleaving) + live-thread set and exit time read off a deterministic scheduling runtime in virtual time over a catalogue operator x terminating cause",
                text="Theorems C15_loop_thread_exits (interval/timer: once the subscription has ended the thread exits within six of its own steps and sleeps at most once more), C15_observe_on_worker_exits (at quiescence the worker of an ended observe_on subscription has exited), "
                     "C15_worker_exits_after_abort. PARTIAL: that every operator nesting them wires its finalize to the scheduler's abort is decided on the implementation. Tie: interval, timer, observe_on, subscribe_on, debounce, timeout, delay and nestings x complete / error / "
                     "unsubscribe at a random virtual time / take / first / take_until / amb / retry downstream, once and three times in a row, random and PCT schedules in virtual time: no scheduler thread alive at quiescence, last thread gone at most one period after the end. "
                     "One genuine defect found and repaired (D21: timeout kept its deadline timer for up to two periods)."),
    "C16": dict(engine="coq-conc", design="DESIGN.md 6 C16",
                technique="machine-checked proof in Coq (invariant of the clocked interval/timer loop for every interleaving with the end of the subscription; a time-ordered machine for timeout that cancels / re-arms its deadline where the code does, proved equal to the definition for every period, gap script with consumer times and ending) + the extracted definitions as oracles on the implementation's (virtual time, event) pairs under a deterministic scheduling runtime",
                text="Theorems C16_ticks_follow_clock (interval(d) delivers 0,1,2,... with tick k at clock (k+1)*d until the subscription ends; timer(d) at most one tick, at d), C16_timeout_follows_clock (items pass through at their arrival times; TimedOut exactly d after the sink of the "
                     "first item followed by a longer silence and never otherwise; nothing afterwards - for every period, script and ending), C16_delay_by_d, C16_sample_debounce_in_order_once (the one-place slot between the source and the single consuming thread of sample / debounce: for every interleaving only emitted items, in source order, none twice). PARTIAL: WHEN debounce fires (its period) is not modelled; time_interval / timestamp are not checked (they read the real clock). Tie: periods 3-20 ms, gap scripts of 1-4 items with gaps around the period (never equal to it), endings complete / error / none, a consumer that "
                     "takes time, timer / interval / sampled Observables subscribed again; the extracted spec_timeout / spec_delay are evaluated on every script and compared with the (virtual time, event) pairs at the subscriber; interval/timer exact times."),
    "C17": dict(engine="coq-seq", design="DESIGN.md 6 C17",
                technique="machine-checked proof in Coq (slot-emptiness lemmas on the worklist machine, the frozen invariant for every continuation, the node-level teardown theorem for the whole catalogue) + reference-counted tokens in every callback, operator closure, posted task and item on the implementation, sequentially and under the deterministic scheduling runtime",
                text="Theorems C17_terminal_empties_the_slots / C17_unsubscribe_empties_the_slots / C17_slots_stay_empty / C17_upstream_slots_empty: a terminal that passes the gate and Observer::unsubscribe empty all callback "
                     "slots (unsubscribe also the teardown slot); for every pipeline and every continuation the subscriber's slots stay empty; every upstream observer of an ended controller is unsubscribed and its map is empty "
                     "(whole catalogue). Partial: that empty slots mean dropped closures and items is Rust's ownership (trusted meta-argument), and the propagation through a whole pipeline tree is checked on the model's final world "
                     "(closure_ok), not proved globally. Tie, sequential: tokens captured in every user callback, operator closure and item must all be released after the subscription ended in each of the three ways and the handles were dropped "
                     "(also for chains shared through ref_count / replay / publish and for observe_on / subscribe_on with a user-defined synchronous scheduler that keeps its last job). Tie, concurrent: the same token count at quiescence under the "
                     "deterministic scheduling runtime for every thread-backed operator and for slow consumers whose backlog is still queued when the subscription ends. Defect D22 (ref_count / replay reference cycle) found here and repaired."),
    "C18": dict(engine="coq-conc", design="DESIGN.md 6 C18",
                technique="machine-checked proof in Coq (invariant + bounded-progress lemma of a poller/source transition system over all interleavings) + correspondence under a deterministic scheduling runtime (result and poll count within the model's exhaustively explored outcome set)",
                text="Theorems C18_result / C18_no_lost_wakeup / C18_eventually_ready: in the to_vec model (waker lock held across the done test and the store; done set before the waker is read) every interleaving, "
                     "with any number of spurious re-polls, yields Ready only after the source terminated, with the source's error or all its items in order; a parked poller always has a token pending "
                     "once the source has finished and reaches Ready within three of its own steps. Tie: the real to_vec is awaited by a minimal parking executor under thousands of controlled schedules; "
                     "result, termination and poll count must lie within the outcomes of the extracted model explored exhaustively."),
    "C07": dict(engine="coq-seq", design="DESIGN.md 6 C07",
                technique="machine-checked proof in Coq (lock-order theorem: threads that request locks in increasing order of one measure over lock instances admit no deadlocked set, for any number of threads, locks, modes and interleavings; soundness of the executable order checker) applied to the nested acquisitions recorded on the real crate under a deterministic scheduling runtime, + schedule exploration for deadlock / self-deadlock / livelock statuses, + sequential correspondence of the SelfDeadlock outcome of the worklist machine",
                text="Theorems C07_ordered_locks_no_deadlock / C07_no_self_deadlock / C07_checker_sound. PARTIAL: Coq decides the lock-order argument and the checker; that the recorded nested acquisitions are all the crate makes, that critical sections terminate "
                     "and that no producer spins are decided by exploration. Tie, concurrent: a catalogue of ~170 concurrent scenarios (those of C05, C08, C09, C11, C12, C18, C19 plus re-entrant callbacks; a third with std's writer-preferring RwLock modelled) under random / PCT schedules: "
                     "every run must end (no deadlock / self-deadlock / step-limit status) and the extracted checker edges_ok must accept every run's nested acquisitions (lock held -> lock requested, by creation site and creation number) for ONE order computed over all runs "
                     "(on the unchanged tree: 26 lock classes, 23 levels, the pipeline chain observer -> controller -> observer ordered by creation number, ~7000 edges, none rejected). Tie, sequential: subscribers that unsubscribe themselves, emit into or subscribe to the subject "
                     "calling them, at every callback index, over the four subject kinds, connectables and short pipelines: a run that must be killed is a violation and must be predicted by the worklist machine. Known finding D14 (re-entrant emit during a Behavior/Replay hand-over)."),
    "C09": dict(engine="coq-conc", design="DESIGN.md 6 C09",
                technique="machine-checked proof in Coq (invariant of the composition posting observer + C08 queue transition system + task body, for every interleaving of emitter, worker and unsubscriber; completeness at quiescence) + correspondence under a deterministic scheduling runtime (script oracle, thread affinity and mutual exclusion on every observed schedule; implementation log set within the model's exhaustively explored log set)",
                text="Theorems C09_observe_on_prefix (at every moment the subscriber has received events 0..m-1 of the source in order, each once; tasks run one at a time on the worker; posted = started ++ discarded ++ queued), "
                     "C09_observe_on_complete (without unsubscribe, at quiescence every event has been delivered, terminal last: the abort only follows the delivered terminal), C09_nothing_after_close / C09_unsubscribe_closes "
                     "(nothing is delivered once unsubscribe has run); C09_subscribe_on_prefix / _complete / _nothing_after_close: the same for subscribe_on (one posted task inside which a synchronous source emits everything, on the worker). Partial: stacking and positions inside a pipeline are decided by the oracle on the implementation (each theorem covers one stage); thread identity is read off the runtime. "
                     "Tie: observe_on at every position of short pipelines and stacked twice over a hot source fed by an emitting thread, subscribe_on likewise over cold sources, with and without a concurrent unsubscribe, "
                     "one Observable value subscribed twice (concurrently / again after the first subscription ended), DFS / random / PCT schedules, spurious wake-ups."),
    "C11": dict(engine="coq-conc", design="DESIGN.md 6 C11",
                technique="machine-checked proof in Coq (invariants of four transition systems at critical-section granularity - live-input set of merge/flat_map, zip queues, amb winner, take slots - for any number of input threads, any scripts, any interleaving; termination at quiescence) + correspondence under a deterministic scheduling runtime (script-based oracle on every observed schedule; implementation log set within the models' exhaustively explored log sets)",
                text="Theorems C11_merge_conserves / C11_merge_terminates (merge, flat_map: each input's items a prefix of its script in order, none twice; at most one complete, last, after every started input delivered everything; at quiescence the complete HAS been issued), "
                     "C11_zip_pairs / C11_zip_all_delivered (the tuple with index m pairs the m-th items; no index twice; at quiescence exactly the indices below the shortest script), C11_amb_one_input (everything delivered is a prefix of ONE input's script), "
                     "C11_take_at_most (at most n items, one complete, nothing after it) - for every interleaving. Partial: concat and the composition operator+take are decided by the oracle on the implementation only; the order in which zip delivers tuples is not claimed "
                     "(the crate delivers tuples out of index order under some schedules - reproduced, C11_zip_out_of_order - which C11's text does not forbid). Tie: merge / zip / amb / concat / flat_map with 2-3 inputs emitting from different threads "
                     "(hot subjects fed by threads, cold sources behind subscribe_on), with and without take(n), under DFS / random / PCT schedules; DFS log sets must lie within the extracted models' log sets. C11_amb_quiescent_delivers_winner: the amb model's script elements are signals of any kind (items and the terminal go through the same election); "
                     "at quiescence exactly the winner's script has been delivered, terminal included - one complete when every input only completes, a loser's error stays out; tied by amb over inputs that all complete empty and over an input failing after another has won. "
                     "The same operator value subscribed again, take(0) over empty and over emitting inputs."),
    "C12": dict(engine="coq-conc", design="DESIGN.md 6 C12",
                technique="machine-checked proof in Coq (invariants of two transition systems at critical-section granularity - Subject observer map; Replay/Behavior history with positions - for any number of producers, any scripts, any interleaving) + correspondence under a deterministic scheduling runtime (per-producer script-position oracle on every observed schedule; implementation log set within the models' exhaustively explored log sets)",
                text="Theorems C12_subject_gap_free / C12_subject_all_items: under every interleaving of any number of producers with a subscribing and an unsubscribing thread an observer of a Subject receives from each producer a block of "
                     "consecutive script positions, each once, in order, and all of them when it is subscribed throughout; C12_replay_late_subscriber / C12_behavior_late_subscriber / C12_history_is_pushed: a subscriber joining a ReplaySubject "
                     "(BehaviorSubject) while pushes are in progress receives every item of the history exactly once in push order (one value and then exactly the later ones). Partial: terminals are not part of these two models (C19 covers terminals "
                     "racing items), the unsubscribing observer of Replay/Behavior is judged by the oracle only. Tie: 1-2 producer threads, a subscriber present throughout, a subscribing and an unsubscribing thread on the real Subject / "
                     "BehaviorSubject / ReplaySubject under DFS, random and PCT schedules; every subscriber log is judged against the producers' scripts and call/return order; DFS log sets must lie within the extracted models' log sets. "
                     "C12_close_never_loses_a_subscriber (Model/ConcClose.v): Subject::error / complete racing a subscriber - with the observers taken out in one critical section a subscriber registered by the time the closer is done has been handed the terminal XOR is still registered, under every interleaving, and (C12_close_then_push_terminal_xor_item) an item pushed afterwards reaches it exactly when it was not handed the terminal; the pinned two-section code loses it (C12_known_D23_witness). Tie: a thread closing a plain Subject while another subscribes, then one more push: the newcomer received the terminal or that push on every schedule. C12_replay_close_hands_over_the_terminal_once (Model/ConcReplayClose.v): ReplaySubject::complete / error racing a subscriber - stored terminal, one-section drain, forwarder + replay gate: the newcomer is handed the terminal exactly once, by the replay or live, under every interleaving; tied by the race-c / race-e cases (a thread closes a Replay/BehaviorSubject while another subscribes). C12_behavior_close_hands_over_the_terminal_once (Model/ConcBehaviorClose.v): the same for BehaviorSubject, whose subscriber keeps the guards on the stored value / error from its check until it has registered (one section); with the guard released in between the newcomer is lost (C12_behavior_unguarded_witness). "
                     "Three genuine defects found and repaired (D15a, D15b, D23)."),
    "C19": dict(engine="coq-conc", design="DESIGN.md 6 C19",
                technique="machine-checked proof in Coq (invariant of a transition system at critical-section granularity, for any number of threads, any call lists, any interleaving) + correspondence under a deterministic scheduling runtime (exhaustive DFS / random / PCT schedules; implementation log set within the model's explored log set)",
                text="Theorems C19_at_most_one_terminal / C19_nothing_started_after_terminal_returned / C19_slots_empty_after_terminal: in the gate model of Observer "
                     "(one step per lock-protected critical section, callback start and return separate) any number of threads issuing any lists of next/error/complete/unsubscribe "
                     "under any interleaving start at most one terminal callback and no callback for a call begun after a terminal callback returned. Because every delivery to a subscriber is such a call, "
                     "this covers merge/flat_map/zip/amb, trigger operators and subjects. Tie: the real crate runs under the scheduling runtime (every lock operation a scheduling point); the extracted "
                     "oracle judges every observed schedule, and for the raw-observer family the implementation's exhaustively enumerated logs must lie in the model's exhaustively explored log set."),
}

NOT_YET = "check under construction in this round (not yet registered)"

ALL = ["C%02d" % i for i in range(1, 20)]


def main():
    checks = []
    for pid in ALL:
        if pid not in CLAIMED:
            continue
        c = CLAIMED[pid]
        checks.append({
            "property_id": pid,
            "quick_cmd": "./vp check %s --tier quick" % pid,
            "thorough_cmd": "./vp check %s --tier thorough" % pid,
            "evidence_file": "evidence/%s.json" % pid,
            "replay_cmd_template": "./vp replay {path}",
            "engine": c["engine"],
            "level_claimed": {"category": "proof", "text": c["text"], "design_ref": c["design"]},
            "level_note": c.get("note", TRUST),
            "technique": c["technique"],
        })
    na = [{"property_id": pid, "reason": NOT_YET} for pid in ALL if pid not in CLAIMED]
    engines = {}
    for pid, c in CLAIMED.items():
        engines.setdefault(c["engine"], []).append(pid)
    kinds = {
        "coq-seq": ("coq/", "Coq 8.16 model of the library (worklist machine mirroring Observer/StreamController/Subject/operators, K-automata of the subject "
                            "and connectable families), theorems in coq/Props, extracted to OCaml and run against the real crate on generated scenarios "
                            "(correspondence + extracted oracles)"),
        "coq-conc": ("coq/", "Coq 8.16 transition systems at critical-section granularity (scheduler queue, to_vec, observer gate, subjects, combinators) with "
                             "invariants proved for all interleavings; the real crate runs under a deterministic scheduling runtime (std facade) and every "
                             "observed history is checked against the extracted transition system and oracles"),
    }
    man = {
        "version": 1,
        "setup_cmd": "./vp setup",
        "hooks": {
            "guard": "rx_verif",
            "enable": "no edit of /repo: checks build an instrumented scratch copy with RUSTFLAGS=--cfg rx_verif",
            "baseline_off_cmd": "cd /repo && cargo test --workspace --no-fail-fast --offline",
            "source_commits": [],
            "add_only": True,
        },
        "checks": checks,
        "not_applicable": na,
        "engines": [{"name": k, "path": kinds[k][0], "serves_properties": sorted(v), "kind_free_text": kinds[k][1]} for k, v in engines.items()],
    }
    with open(os.path.join(VERIF, "MANIFEST.json"), "w") as f:
        json.dump(man, f, indent=1)
    print("MANIFEST.json: %d checks, %d not yet claimed" % (len(checks), len(na)))


if __name__ == "__main__":
    main()
