"""S-expression helpers shared by the generators and ./vp (python3 stdlib only)."""


def dumps(x):
    if isinstance(x, (list, tuple)):
        return "(" + " ".join(dumps(y) for y in x) + ")"
    if isinstance(x, bool):
        return "1" if x else "0"
    return str(x)


def loads(s):
    """Parse ONE s-expression (atoms stay strings)."""
    pos = 0
    n = len(s)

    def skip():
        nonlocal pos
        while pos < n and s[pos] in " \t\r\n":
            pos += 1

    def item():
        nonlocal pos
        skip()
        if pos >= n:
            raise ValueError("eof")
        if s[pos] == "(":
            pos += 1
            out = []
            while True:
                skip()
                if pos >= n:
                    raise ValueError("unbalanced")
                if s[pos] == ")":
                    pos += 1
                    return out
                out.append(item())
        st = pos
        while pos < n and s[pos] not in " \t\r\n()":
            pos += 1
        return s[st:pos]

    return item()


def field(l, name):
    for x in l:
        if isinstance(x, list) and x and x[0] == name:
            return x[1:]
    return []
