#!/usr/bin/env python3
"""Re-assembles DESIGN.md: sections 2-8 from gen/design_body.md, 9-11 from gen/design_tail.md (tables filled from
known_findings.json and seeded/*/{meta.json,detect.txt}); header, section 1 and the appendices are kept from DESIGN.md."""
import json
import os
import re

V = os.path.dirname(os.path.dirname(os.path.abspath(__file__)))
cur = open(os.path.join(V, "DESIGN.md")).read()
head = cur[:cur.index("## 2. Approach in one page")]
app = cur[cur.index("## Appendix A"):]
body = open(os.path.join(V, "gen", "design_body.md")).read()
tail = open(os.path.join(V, "gen", "design_tail.md")).read()
kf = json.load(open(os.path.join(V, "known_findings.json")))["findings"]
fixed = "\n".join("| %s | %s | `%s` | %s |" % (f["id"], f["property"], f["commit"], f["what"].replace("|", "/")[:260]) for f in kf if f["status"] == "fixed")
rows = []
sd = os.path.join(V, "seeded")
for n in sorted(os.listdir(sd)):
    d = os.path.join(sd, n)
    if not os.path.isfile(os.path.join(d, "patch.diff")):
        continue
    m = json.load(open(os.path.join(d, "meta.json")))
    det = [l.strip() for l in open(os.path.join(d, "detect.txt")) if l.startswith("== ")] if os.path.exists(os.path.join(d, "detect.txt")) else []
    res = ", ".join("%s %s" % (x.split()[1], "VIOLATION" if x.endswith("rc=1") else "passes") for x in det)
    needs = re.sub(r"\s+", " ", m.get("needs", "")).replace("|", "/")
    rows.append("| `%s` | %s | %s |" % (n, needs[:230] + ("..." if len(needs) > 230 else ""), res))
    m["detected_by"] = [x.split()[1] for x in det if x.endswith("rc=1")]
    m["not_detected_by"] = [x.split()[1] for x in det if x.endswith("rc=0")]
    if os.path.exists(os.path.join(d, "verify.txt")):
        m["confirmed"] = open(os.path.join(d, "verify.txt")).read().strip()
    m["checked_with"] = ("seeded/seedtool.sh verify <dir> (scratch worktree: suite with the change, demonstration with/without) ; "
                         "seeded/seedtool.sh detect <dir> Cxx (git -C /repo apply, ./vp check Cxx --tier quick, git -C /repo checkout -- .)")
    json.dump(m, open(os.path.join(d, "meta.json"), "w"), indent=1)
tail = tail.replace("@FIXED@", fixed).replace("@SEEDS@", "\n".join(rows))
open(os.path.join(V, "DESIGN.md"), "w").write(head + body + "\n" + tail + "\n---------------------------------------------------------------------------\n\n" + app)
print("DESIGN.md: %d lines, %d seeded changes" % (len(open(os.path.join(V, "DESIGN.md")).read().split("\n")), len(rows)))
