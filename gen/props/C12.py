"""C12 - subjects used from several threads neither lose, duplicate nor reorder items."""
import sx
import vplib

PID = "C12"
ENGINE = "conc"
RULE = ("Subject / BehaviorSubject / ReplaySubject with 1-2 producer threads (scripts of 1-3 distinct items each), a subscriber U0 "
        "subscribed before the threads start and never leaving, a thread subscribing U1 concurrently and a thread unsubscribing U2 "
        "concurrently (U2 subscribed before or after U0); smallest instances over ALL schedules (DFS over the runtime's decisions), the others under random and PCT "
        "schedules; judged per subscriber and per producer against the producers' scripts (U0: all items once in script order; U1 on a "
        "Subject: a gap-free suffix containing every item whose next() began after subscribe returned and none whose next() returned before "
        "subscribe began; U1 on a ReplaySubject: every item exactly once in script order; U1 on a BehaviorSubject: one value, then every "
        "item written after it, each once; U2: a gap-free prefix); the per-producer index sequences are additionally pushed through the "
        "extracted oracle `consecutive`; for the exhaustive instances the set of U1/U2 logs reached by the implementation is compared with "
        "the exhaustively explored log set of the Coq model (impl subset of model); non-trivial = an observation in which U1's subscribe "
        "or U2's unsubscribe overlapped a producer's next() call; distinct = distinct (scenario, projected per-subscriber logs)")
ASSUMPTIONS = ["scheduling points are the facade's lock/condvar/spawn/sleep operations (sequentially consistent memory)",
               "user callbacks return and do not re-enter the library",
               "no producer issues a terminal (terminals racing items are C19's subject family)"]

KINDS = [["subject", "subject"], ["subject", "behavior", 0], ["subject", "replay"]]


def mk(kind, scripts, late, leaver, sched, react=None, leaver_first=False, closing=None):
    objs = [kind, ["pipe", ["hot", 0]]]
    init = [["sub", 0, 0]]
    threads = []
    for p, scr in enumerate(scripts):
        threads.append(["p%d" % p] + [["next", 0, v] for v in scr])
    if leaver:
        # the observer that leaves is the younger one - or the OLDER one (its departure must not disturb the one that stays,
        # whatever key the next newcomer is filed under)
        if leaver_first:
            init.insert(0, ["sub", 2, 0])
        else:
            init.append(["sub", 2, 0])
        threads.append(["u", ["unsub", 2]])
    fini = []
    if closing is not None and closing.startswith("reuse-"):
        # a plain Subject is reusable after a terminal: U2 subscribes, the subject terminates (U2 has ended), U0 subscribes; while the
        # producers push, the FINISHED subscription of U2 is unsubscribed as ordinary clean-up: U0 stays subscribed throughout
        init = [["sub", 2, 0], ["complete", 0] if closing == "reuse-c" else ["error", 0, 5], ["sub", 0, 0]]
        threads.append(["u", ["unsub", 2]])
    if closing == "twosub":
        # TWO threads subscribe at once (U1, U2); afterwards the subject is pushed to, U2 leaves, and it is pushed to again: U0 and U1
        # receive everything, U2 the first batch
        threads.append(["s1", ["sub", 1, 0]])
        threads.append(["s2", ["sub", 2, 0]])
        fini = [["next", 0, 701], ["next", 0, 702], ["unsub", 2], ["next", 0, 703]]
    if closing is not None and closing.startswith("newrace-"):
        # a plain Subject is closed by one thread while another subscribes U1; afterwards the (re-usable) subject is pushed to once
        # more: U1 either was in time for the terminal, or it is a subscriber of the re-used subject and receives the push
        threads.append(["s", ["sub", 1, 0]])
        threads.append(["x", ["complete", 0] if closing == "newrace-c" else ["error", 0, 5]])
        fini = [["next", 0, 777]]
    if late and closing is None:
        threads.append(["s", ["sub", 1, 0]])
    if closing is not None and closing.startswith("race-"):
        # no producers: a thread closes the subject while another one subscribes U1 - whichever comes first, U1 ends with that terminal
        threads.append(["s", ["sub", 1, 0]])
        threads.append(["x", ["complete", 0] if closing == "race-c" else ["error", 0, 5]])
    elif closing is not None and not closing.startswith("reuse-") and not closing.startswith("newrace-") and closing != "twosub":
        # the producers' threads have finished; the subject is closed; only then does U1 subscribe: a ReplaySubject hands it every
        # item ever pushed (once, in push order) and the terminal, a BehaviorSubject the terminal alone
        fini = [["complete", 0] if closing == "c" else ["error", 0, 5], ["sub", 1, 0]]
    if kind[1] == "behavior" and late and closing is None:
        # when everything is over a last subscriber (U3) is handed the subject's final latest value L: a late subscriber that was handed
        # another value must have received L afterwards ("a value and then every later value")
        fini = fini + [["sub", 3, 0]]
    scn = ["conc", ["objects"] + objs, ["init"] + init, ["threads"] + threads, ["fini"] + fini, ["sched"] + sched]
    if sched[0] == "dfs":
        scn.append(["want-choices"])
    return {"scn": scn, "kind": kind[1], "scripts": scripts, "late": late, "leaver": leaver, "sched": sched, "closing": closing}


def scripts_for(rng, np, maxlen):
    return [[100 * (p + 1) + i + 1 for i in range(rng.randrange(1, maxlen + 1))] for p in range(np)]


def generate(rng, tier, seed):
    thorough = tier == "thorough"
    cases = []
    # smallest instances: all schedules
    for kind in KINDS:
        cases.append(mk(kind, [[101]], True, False, ["dfs", 20000 if kind[1] == "subject" else 3000]))
        cases.append(mk(kind, [[101, 102]], True, False, ["dfs", 3000]))
        cases.append(mk(kind, [[101, 102]], False, True, ["dfs", 3000]))
        if kind[1] == "behavior":
            # two producers with one item each and a late subscriber: the window between a producer taking its position and storing
            # its value is a few lock operations wide
            cases.append(mk(kind, [[101], [201]], True, False, ["pct", 3, seed * 1000 + 17, 6000 if thorough else 1500]))
        if thorough:
            cases.append(mk(kind, [[101], [201]], True, False, ["dfs", 6000]))
            cases.append(mk(kind, [[101, 102]], True, True, ["dfs", 6000]))
    n = 60 if thorough else 14
    for _ in range(n):
        for kind in KINDS:
            np = rng.choice([1, 2, 2])
            scripts = scripts_for(rng, np, 3)
            late = rng.random() < 0.8
            leaver = rng.random() < 0.5 or not late
            base = seed * 1000 + rng.randrange(1000)
            lf = rng.random() < 0.5
            cases.append(mk(kind, scripts, late, leaver, ["random", base, 80 if thorough else 30], leaver_first=lf))
            cases.append(mk(kind, scripts, late, leaver, ["pct", 3, base, 40 if thorough else 12], leaver_first=lf))
            if kind[1] in ("replay", "behavior") and rng.random() < 0.5:
                cases.append(mk(kind, [], True, False, ["random", base, 400 if thorough else 150], closing=rng.choice(["race-c", "race-e"])))
                cases.append(mk(kind, [], True, False, ["pct", 3, base, 300 if thorough else 100], closing=cases[-1]["closing"]))
            if kind[1] in ("replay", "behavior") and rng.random() < 0.5:
                cases.append(mk(kind, scripts, True, False, ["random", base, 20 if thorough else 8], closing=rng.choice(["c", "e"])))
            if rng.random() < 0.5:
                cases.append(mk(kind, [], False, False, ["random", base, 120 if thorough else 50], closing="twosub"))
                cases.append(mk(kind, [], False, False, ["pct", 3, base, 120 if thorough else 50], closing="twosub"))
            if kind[1] == "subject" and rng.random() < 0.6:
                cl = rng.choice(["newrace-c", "newrace-e"])
                cases.append(mk(kind, [], False, False, ["random", base, 200 if thorough else 80], closing=cl))
                cases.append(mk(kind, [], False, False, ["pct", 3, base, 200 if thorough else 80], closing=cl))
            if kind[1] == "subject" and rng.random() < 0.6:
                cases.append(mk(kind, scripts, False, False, ["random", base, 30 if thorough else 12], closing=rng.choice(["reuse-c", "reuse-e"])))
    return cases


def sched_of(case, ob):
    s = case["sched"]
    if s[0] == "random":
        return ["random", ob["seed"], 1]
    if s[0] == "pct":
        return ["pct", s[1], ob["seed"], 1]
    if s[0] == "dfs":
        return ["replay"] + [int(c) for c in ob.get("choices", [])]
    return s


def spans(ob):
    """(tid, action sexp) -> (call pos, ret pos) of the driver actions of one observation"""
    out, open_ = [], {}
    for pos, r in enumerate(ob["ev"]):
        if r[3] == "call":
            open_.setdefault(r[2], []).append((pos, r[4]))
        elif r[3] == "ret" and open_.get(r[2]):
            b, a = open_[r[2]].pop()
            out.append((a, b, pos))
    return out


def judge_one(case, ob):
    """-> (list of complaints, per-subscriber projected logs, non-trivial?, per-producer index sequences)"""
    bad = []
    kind, scripts = case["kind"], case["scripts"]
    owner = {v: (p, i) for p, scr in enumerate(scripts) for i, v in enumerate(scr)}
    cbs = [[int(c[0])] + c[1:] for c in vplib.callbacks_of(ob, "cb")]
    sp = spans(ob)
    nexts = {int(a[2]): (b, e) for (a, b, e) in sp if a[0] == "next"}
    sub1 = [(b, e) for (a, b, e) in sp if a[0] == "sub" and int(a[1]) == 1]
    uns2 = [(b, e) for (a, b, e) in sp if a[0] == "unsub" and int(a[1]) == 2]
    logs, seqs = {}, []
    for u in (0, 1, 2):
        mine = [c for c in cbs if c[0] == u]
        closing = case.get("closing")
        if closing == "twosub":
            got = [str(c[1][1]) for c in mine if c[1][0] == "n" and str(c[1][1]) in ("701", "702", "703")]
            want = ["701", "702"] if u == 2 else ["701", "702", "703"]
            if got != want:
                bad.append("U1 and U2 subscribed concurrently, then 701 702 were pushed, U2 left, 703 was pushed: U%d received %s, expected %s" % (u, got, want))
            logs[u] = []
            continue
        if closing and closing.startswith("newrace-"):
            want = closing[-1]
            evs = [[str(x) for x in c[1]] for c in mine]
            if u == 0 and [e_[0] for e_ in evs] != [want]:
                bad.append("U0 was subscribed when the subject was closed with '%s' but received %s" % (want, evs))
            if u == 1 and evs not in ([[want] + ([] if want == "c" else ["5"])], [["n", "777"]]):
                bad.append("U1 subscribed while the subject was being closed with '%s': it received %s - neither the terminal nor the item pushed afterwards" % (want, evs))
            logs[u] = []
            continue
        if closing and closing.startswith("reuse-"):
            if u == 2:
                if [c[1][0] for c in mine] != [closing[-1]]:
                    bad.append("U2 was subscribed when the subject terminated with '%s' but received %s" % (closing[-1], [c[1] for c in mine]))
                logs[u] = []
                continue
            closing = None
        if closing and closing.startswith("race-"):
            if u == 2:
                logs[u] = []
                continue
            want = closing[-1]
            terms = [c[1][0] for c in mine if c[1][0] != "n"]
            if terms != [want] or not mine or mine[-1][1][0] != want:
                bad.append("the subject was closed with '%s' while U1 was subscribing: U%d received %s - it must end with that terminal, once" % (want, u, [c[1] for c in mine]))
            logs[u] = []
            continue
        if closing:
            terms = [c[1][0] for c in mine if c[1][0] != "n"]
            if mine and (terms != [closing] or mine[-1][1][0] != closing):
                bad.append("the subject was closed with '%s' after the producers had finished: U%d received terminals %s (exactly that one, last, expected)" % (closing, u, terms))
            if u == 1 and not mine:
                bad.append("U1 subscribed after the subject had been closed and received nothing at all")
            if u == 1 and kind == "behavior":
                if len(mine) != 1:
                    bad.append("U1 subscribed to a closed BehaviorSubject and received %s (the stored terminal alone expected)" % [c[1] for c in mine])
                logs[u] = []
                continue
        elif any(c[1][0] != "n" for c in mine):
            bad.append("U%d received a terminal %s" % (u, [c[1] for c in mine if c[1][0] != "n"]))
        vals = [int(c[1][1]) for c in mine if c[1][0] == "n"]
        logs[u] = vals
        first_pos = mine[0][3] if mine else None
        head = None
        if kind == "behavior" and ((u in (0, 2)) or (u == 1 and case["late"])) and (u != 2 or case["leaver"]):
            if not vals:
                if u == 1 or u == 0:
                    bad.append("U%d on a BehaviorSubject received no value at all" % u)
                continue
            head, vals = vals[0], vals[1:]
            if u in (0, 2) and head != 0:
                bad.append("U%d subscribed first but was handed %s instead of the initial value" % (u, head))
            if head != 0 and head not in owner:
                bad.append("U%d was handed a value %s nobody pushed" % (u, head))
        for v in vals:
            if v not in owner:
                bad.append("U%d received %s which nobody pushed" % (u, v))
        for p, scr in enumerate(scripts):
            idx = [owner[v][1] for v in vals if v in owner and owner[v][0] == p]
            seqs.append(idx)
            ok_block = all(b == a + 1 for a, b in zip(idx, idx[1:]))
            if not ok_block:
                bad.append("U%d received from producer %d the script positions %s: not consecutive (lost, duplicated or reordered)" % (u, p, idx))
                continue
            if u == 0:
                if idx != list(range(len(scr))):
                    bad.append("U0 stayed subscribed throughout but received positions %s of producer %d's %d items" % (idx, p, len(scr)))
            elif u == 2 and case["leaver"]:
                if idx and idx[0] != 0:
                    bad.append("U2 (unsubscribing) received positions %s of producer %d: not a prefix" % (idx, p))
                if uns2:
                    for i, v in enumerate(scr):
                        if nexts[v][1] < uns2[0][0] and i not in idx:
                            bad.append("U2 missed item %s whose next() returned before unsubscribe began" % v)
            elif u == 1 and case["late"]:
                if kind == "replay":
                    if idx != list(range(len(scr))):
                        bad.append("late subscriber of a ReplaySubject received positions %s of producer %d's %d items (every item exactly once expected)" % (idx, p, len(scr)))
                elif kind == "subject":
                    if idx and idx[-1] != len(scr) - 1:
                        bad.append("U1 (subscribing) received positions %s of producer %d: not a suffix" % (idx, p))
                    for i, v in enumerate(scr):
                        if sub1 and nexts[v][0] > sub1[0][1] and i not in idx:
                            bad.append("U1 missed item %s whose next() began after subscribe returned" % v)
                        if sub1 and nexts[v][1] < sub1[0][0] and i in idx:
                            bad.append("U1 received item %s whose next() returned before subscribe began" % v)
                else:  # behavior
                    if head in owner and owner[head][0] == p:
                        want = list(range(owner[head][1] + 1, len(scr)))
                        if idx != want:
                            bad.append("late subscriber of a BehaviorSubject was handed %s and then received positions %s of that producer (expected %s: every later value, none twice)" % (head, idx, want))
                    else:
                        if idx and idx[-1] != len(scr) - 1:
                            bad.append("late subscriber of a BehaviorSubject received positions %s of producer %d: not a suffix" % (idx, p))
                        for i, v in enumerate(scr):
                            if first_pos is not None and nexts[v][0] > first_pos and i not in idx:
                                bad.append("late subscriber of a BehaviorSubject missed item %s whose next() began after it had been handed %s" % (v, head))
    if kind == "behavior" and case["late"] and not case.get("closing"):
        u3 = [int(c[1][1]) for c in cbs if c[0] == 3 and c[1][0] == "n"]
        u1 = [int(c[1][1]) for c in cbs if c[0] == 1 and c[1][0] == "n"]
        if u3 and u1 and u1[0] != u3[0] and u3[0] not in u1[1:]:
            bad.append("the late subscriber of a BehaviorSubject was handed %s and never received %s, which is the subject's latest value in the end (a later value was lost): it received %s" % (u1[0], u3[0], u1))
    overl = False
    for (b, e) in sub1 + uns2:
        for v, (nb, ne) in nexts.items():
            if nb < e and b < ne:
                overl = True
    return bad, logs, overl, seqs


def classify(case, v):
    return None


def model_key(case):
    return sx.dumps(["subj", case["kind"], ["scripts"] + [["s"] + s for s in case["scripts"]], ["late", int(case["late"])], ["leaver", int(case["leaver"])]])


def judge(cases, runs):
    viol, unshown, nontriv = [], [], set()
    seqs_all = []
    impl_logs = {}
    for ci, (case, obs) in enumerate(zip(cases, runs)):
        for ob in obs:
            if ob["status"] == "dfs-done":
                case["dfs_complete"] = ob["complete"]
                continue
            if ob["status"] != "ok" or ob.get("panics", 0):
                viol.append((ci, sched_of(case, ob), "run ended with status %s panics %s %s" % (ob["status"], ob.get("panics"), ob.get("msg", ""))))
                continue
            bad, logs, overl, seqs = judge_one(case, ob)
            seqs_all.extend((ci, ob, s) for s in seqs)
            if bad:
                viol.append((ci, sched_of(case, ob), "; ".join(bad[:3])))
            proj = sx.dumps([logs[0], logs[1], logs[2]])
            if overl:
                nontriv.add((sx.dumps(case["scn"][1:5]), proj))
            if case["sched"][0] == "dfs":
                impl_logs.setdefault((ci, "u1"), set()).add(" ".join(str(v) for v in logs[1]))
                impl_logs.setdefault((ci, "u2"), set()).add(" ".join(str(v) for v in logs[2]))
    # the extracted oracle on every per-producer index sequence
    if seqs_all:
        outs = vplib.driver_lines(["subj-oracle"], [sx.dumps(["idx"] + s) for (_, _, s) in seqs_all])
        for o, (ci, ob, s) in zip(outs, seqs_all):
            if o != "ok":
                viol.append((ci, sched_of(cases[ci], ob), "extracted oracle `consecutive` rejects the received positions %s: %s" % (s, o)))
    # impl subset of model on the exhaustive instances
    dfs = [ci for ci, c in enumerate(cases) if c["sched"][0] == "dfs"]
    total = covered = 0
    if dfs:
        outs = vplib.driver_lines(["subj-explore"], [model_key(cases[ci]) for ci in dfs])
        for ci, line in zip(dfs, outs):
            x = sx.loads(line)
            for k, u in ((1, "u1"), (2, "u2"))[:len(x) - 1]:
                mset = set(" ".join(str(v) for v in l) for l in x[k][1:])
                iset = impl_logs.get((ci, u), set())
                total += len(mset)
                covered += len(mset & iset)
                extra = iset - mset
                if extra:
                    unshown.append((ci, cases[ci]["sched"], "implementation log(s) %s of %s not among the subject model's logs %s" % (sorted(extra)[:3], u, sorted(mset))))
    import re
    extra_kinds = vplib._count(cases[v[0]]["kind"] + ": " + re.sub(r"[0-9]+", "#", v[2].split(";")[0]) for v in viol)
    extra = {"failure_kinds": extra_kinds, "model_logs_total": total, "model_logs_reached_by_impl": covered,
             "case_kinds": vplib._count(c["kind"] + ("+late" if c["late"] else "") + ("+leaver" if c["leaver"] else "") for c in cases),
             "script_lengths": vplib._count("x".join(str(len(s)) for s in c["scripts"]) for c in cases),
             "dfs_complete": vplib._count(str(c.get("dfs_complete")) for c in cases if c["sched"][0] == "dfs")}
    return {"violations": viol, "unshown": unshown, "nontrivial": nontriv, "extra": extra}
