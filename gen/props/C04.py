"""C04 - errors travel unchanged and recovery operators resubscribe as specified."""
import scen
import sx
from common import ops_of
from scen import C, e, n, op, scn, src, sub

PID = "C04"
ORACLE = "c04"
EXTRA_ORACLES = ["c02", "c03"]     # an error injected at any position of any script travels through C02 / C03 operators exactly as their definitions say (payload id compared)
RULE = ("(a) every C02 operator and chains of depth 2-3 over cold scripts with the error at every position (distinct payload ids), (b) C03 "
        "operators with one erroring input, (c) retry(n) for n = 0..4 and retry_when(p) for every predicate of the family over sources whose "
        "k-th subscription plays its own script (1-4 failing attempts, then a completing / silent / failing one), between transparent and "
        "non-transparent operators; the subscription counter of the instrumented source must equal the number of attempts the definition "
        "allows, (d) on_error_resume_next with every resume target of the family, (e) dematerialize after materialize; non-trivial = the "
        "oracle applies and an error occurred in some script; distinct = distinct scenario")
ASSUMPTIONS = ["RxError payloads are opaque ids; clones alias (id equality = 'downcast_ref yields the original value')",
               "contains turns an error into false (pinned by the crate's own test): it is an error handler; the trigger's terminal is ignored by take_until/skip_until/sample",
               "retry(n): n subscriptions in total, 0 = unbounded (only over sources that eventually stop failing)"]

ITEMS = [1, 2, 3]
TRANSPARENT = ["map", "filter", "scan", "distinct_until_changed", "skip", "tap", "take", "take_while", "skip_while", "start_with", "buffer_with_count",
               "materialize", "count", "sum", "last", "first", "default_if_empty", "ignore_elements", "take_last", "skip_last", "reduce", "min", "max"]


def nontrivial(sc, ob, verdict):
    return verdict != "skip" and "(e " in sx.dumps(sx.field(sc[1:], "srcs"))


def classify(sc, ob, verdict):
    return None


def generate(rng, tier, focus):
    thorough = tier == "thorough"
    cases = []
    eid = [10]

    def fresh_err():
        eid[0] += 1
        return ("e", eid[0] % 50 + 1)

    def fresh_err_ev():
        return e(fresh_err()[1])

    # (a) error at every position through C02 operators and chains
    for _ in range(1200 if thorough else 200):
        xs = [rng.choice(ITEMS) for _ in range(rng.randrange(0, 6))]
        for pos in range(len(xs) + 1):
            s0 = scen.script(xs[:pos], fresh_err())
            d = rng.choice([1, 1, 2, 3])
            p = scen.rand_chain(rng, ["cold", 0], d, names=[x for x in scen.SINGLE_NAMES if x not in ("retry", "retry_when")])
            cases.append((scn(srcs=[src([s0], False)], handles=1, script_=[sub(0, p)]), {"k": "passthrough"}))
    # (b) C03 operators, one input fails
    for _ in range(2500 if thorough else 400):
        opn = rng.choice(["merge", "zip", "amb", "take_until", "skip_until", "sample"])
        ns = 2 if opn in ("take_until", "skip_until", "sample") else rng.choice([2, 3])
        scripts = [scen.script([rng.choice(ITEMS) for _ in range(rng.randrange(0, 4))], rng.choice(["c", "s", fresh_err()])) for _ in range(ns)]
        p = op(opn, [], ["cold", 0], *[["cold", j] for j in range(1, ns)])
        cases.append((scn(srcs=[src([s], False) for s in scripts], handles=1, script_=[sub(0, p)]), {"k": "multi"}))
    # (b') the same over two HOT inputs driven in interleaved order: the error arrives at any moment of the operator's life (before /
    #      after the other input has emitted, after a switch, after the gate opened), and the subjects go on emitting afterwards
    for _ in range(2500 if thorough else 400):
        opn = rng.choice(["merge", "zip", "amb", "take_until", "skip_until", "sample", "switch_on_next", "switch_on_next", "concat"])
        p = scen.multi_op(rng, opn, ["hot", 0], [["hot", 1]])
        if rng.random() < 0.3:
            p = scen.rand_chain(rng, p, 1, names=["map", "filter", "scan", "skip", "take_last", "tap"])
        E = [["emit", rng.randrange(2), n(rng.choice(ITEMS))] for _ in range(rng.randrange(1, 6))]
        E.insert(rng.randrange(0, len(E) + 1), ["emit", rng.randrange(2), fresh_err_ev()])
        if rng.random() < 0.4:
            E.append(["emit", rng.randrange(2), rng.choice([C, fresh_err_ev()])])
        cases.append((scn(subjects=[["subject"], ["subject"]], handles=1, script_=[sub(0, p)] + E), {"k": "multi-hot"}))
    # (c) retry / retry_when
    for _ in range(6000 if thorough else 1000):
        nfail = rng.choice([0, 1, 1, 2, 3, 4])
        atts = [scen.script([rng.choice(ITEMS) for _ in range(rng.randrange(0, 4))], ("e", rng.choice([1, 2, 3]))) for _ in range(nfail)]
        atts.append(scen.script([rng.choice(ITEMS) for _ in range(rng.randrange(0, 4))], rng.choice(["c", "c", "s"])))
        which = rng.random()
        if which < 0.6:
            rop = ("retry", [rng.choice([0, 1, 2, 3, 4])])
        else:
            rop = ("retry_when", [rng.choice([["always"], ["never"], ["eq", 1], ["eq", 2], ["lt", 2], ["lt", 3]])])
            if rop[1][0] == ["always"] and False:
                pass
        pre = scen.rand_chain(rng, ["cold", 0], rng.choice([0, 0, 1]), names=TRANSPARENT)
        p = op(rop[0], rop[1], pre)
        p = scen.rand_chain(rng, p, rng.choice([0, 0, 1]), names=TRANSPARENT)
        cases.append((scn(srcs=[src(atts, rng.random() < 0.2)], handles=1, script_=[sub(0, p)]), {"k": "retry"}))
    # (d) on_error_resume_next
    for _ in range(1500 if thorough else 250):
        xs = [rng.choice(ITEMS) for _ in range(rng.randrange(0, 4))]
        s0 = scen.script(xs, rng.choice([("e", 1), ("e", 2), ("e", 3), "c", "s"]))
        targets = [rng.choice([["just", 8], ["from_iter", 7, 8], ["empty"], ["never"], ["error", 9], ["cold", 1]]) for _ in range(rng.choice([1, 2, 3]))]
        s1 = scen.script([rng.choice(ITEMS) for _ in range(rng.randrange(0, 3))], rng.choice(["c", ("e", 4), "s"]))
        inner = scen.rand_chain(rng, ["cold", 0], rng.choice([0, 1]), names=["map", "filter", "skip", "scan", "tap"])
        cases.append((scn(srcs=[src([s0], False), src([s1], False)], handles=1, script_=[sub(0, op("on_error_resume_next", [], inner, *targets))]), {"k": "resume"}))
    # (e) dematerialize after materialize
    for _ in range(600 if thorough else 100):
        s0 = scen.script([rng.choice(ITEMS) for _ in range(rng.randrange(0, 5))], rng.choice(["c", fresh_err(), "s"]))
        mid = scen.rand_chain(rng, op("materialize", [], ["cold", 0]), rng.choice([0, 0, 1]), names=["tap", "map_to_any", "skip", "take"])
        cases.append((scn(srcs=[src([s0], False)], handles=1, script_=[sub(0, op("dematerialize", [], mid))]), {"k": "mat-demat"}))
    # (f) the retry budget is per subscription: one retry Observable subscribed twice, each against its solitary run
    import C14
    gid = [100000]

    def group():
        gid[0] += 1
        return gid[0]
    cases += C14.retry_twice_cases(rng, 600 if thorough else 120, group)
    # (g) recovery over a SHARED hot source (ref_count over a subject): the error reaches retry / retry_when / on_error_resume_next
    # through the sharing subject's error notification, and the resubscription is made from INSIDE that notification - it
    # must stick: what the source emits afterwards reaches the subscriber
    for _ in range(1500 if thorough else 250):
        nerr = rng.choice([1, 1, 2])
        how = rng.choice(["retry", "retry", "retry_when", "resume"])
        if how == "retry":
            p = op("retry", [rng.choice([nerr + 1, nerr + 2, 0])], ["conn", 0])      # (retry(n): n attempts in all, 0 = unbounded)
        elif how == "retry_when":
            p = op("retry_when", [["always"]], ["conn", 0])
        else:
            nerr = 1
            p = op("on_error_resume_next", [], ["conn", 0], ["conn", 0])
        p = scen.rand_chain(rng, p, rng.choice([0, 0, 1]), names=["map", "tap", "filter"])
        acts, want = [sub(0, p)], []
        val = [10]

        def items():
            out = []
            for _ in range(rng.randrange(0, 3)):
                val[0] += 1
                out.append(val[0])
            return out
        for _ in range(nerr):
            xs = items()
            acts += [["emit", 0, n(x)] for x in xs] + [["emit", 0, e(rng.choice([1, 2, 3]))]]
            want += xs
        xs = items()
        end = rng.choice([C, C, None])
        acts += [["emit", 0, n(x)] for x in xs] + ([["emit", 0, end]] if end else [])
        want += xs
        plain = "map" not in sx.dumps(p) and "filter" not in sx.dumps(p)
        cases.append((scn(subjects=[["subject"]], conns=[["refcount", ["hot", 0]]], handles=1, script_=acts),
                      {"k": "recover-shared-hot", "want": [str(x) for x in want] if plain else None, "end": end is not None}))
    # (h) a shared source (ref_count) that FAILS for a first, plain subscriber (who does not unsubscribe); a second subscriber - plain,
    # or through retry / on_error_resume_next - arrives afterwards: the connection of the failed run must be gone, the source is
    # subscribed afresh (its next attempt) and the newcomer receives that run
    for _ in range(1200 if thorough else 200):
        f1 = scen.script([rng.choice(ITEMS) for _ in range(rng.randrange(0, 3))], ("e", rng.choice([1, 2, 3])))
        xs2 = [rng.choice(ITEMS) for _ in range(rng.randrange(1, 4))]
        ok2 = scen.script(xs2, "c")
        second = rng.choice([["conn", 0], op("retry", [3], ["conn", 0]), op("on_error_resume_next", [], ["conn", 0], ["just", 8]), op("map", [["id"]], ["conn", 0])])
        acts = [sub(0, ["conn", 0]), sub(1, second)]
        cases.append((scn(srcs=[src([f1, ok2, ok2], False)], conns=[["refcount", ["cold", 0]]], handles=2, script_=acts),
                      {"k": "shared-failed-then-newcomer", "want2": [str(x) for x in xs2]}))
    # (j) a cold source that emits items and then FAILS, shared through replay() / ref_count(): the first subscriber (during whose
    # subscribe the whole run happens) receives the items, then the error - and under replay() so does every later one
    for _ in range(900 if thorough else 150):
        xs = [rng.choice(ITEMS) for _ in range(rng.randrange(1, 4))]
        en = rng.choice([("e", 1), ("e", 2), "c"])
        s0 = scen.script(xs, en)
        kind = rng.choice(["replay", "replay", "refcount"])
        via = rng.choice([["conn", 0], ["conn", 0], op("map", [["id"]], ["conn", 0]), op("materialize", [], ["conn", 0])])
        acts = [sub(0, via)] + ([sub(1, ["conn", 0])] if kind == "replay" else [])
        cases.append((scn(srcs=[src([s0, s0], False)], conns=[[kind, ["cold", 0]]], handles=2, script_=acts),
                      {"k": "shared-cold-failing", "want": [str(x) for x in xs], "end": "c" if en == "c" else "e", "mat": via[0] == "op" and via[1] == "materialize", "two": kind == "replay"}))
    # (i) a producer that goes on after its own error, subscribed directly or through operators that add no gate of their own:
    # the error is the subscriber's last event
    for _ in range(1200 if thorough else 200):
        xs = [rng.choice(ITEMS) for _ in range(rng.randrange(0, 3))]
        s0 = scen.script(xs, ("e", rng.choice([1, 2, 3]))) + [n(rng.choice(ITEMS)) for _ in range(rng.randrange(1, 3))] + rng.choice([[], [C], [e(9)]])
        p = rng.choice([["cold", 0], ["cold", 0], ["defer", ["cold", 0]], op("map", [["id"]], ["cold", 0])]) if False else rng.choice([["cold", 0], ["cold", 0], op("map", [["id"]], ["cold", 0]), op("tap", [0], ["cold", 0])])
        cases.append((scn(srcs=[src([s0], False)], handles=1, script_=[sub(0, p)]), {"k": "emits-after-error", "want": [str(x) for x in xs]}))
    return cases


def judge_impl(cases, obs):
    import C14
    out0 = []
    for i, ((sc, info), ob) in enumerate(zip(cases, obs)):
        if ob["out"] != "ok":
            continue
        if info.get("k") == "shared-failed-then-newcomer":
            got = [str(x[2][1]) for x in ob["log"] if x[0] == "t1" and x[2][0] == "n"]
            terms = [x[2][0] for x in ob["log"] if x[0] == "t1" and x[2][0] != "n"]
            if got != info["want2"] or terms != ["c"]:
                out0.append((i, "the subscriber that arrives after the shared source failed for an earlier one received items %s terminals %s; the source's next run emits %s then complete" % (got, terms, info["want2"])))
        if info.get("k") == "shared-cold-failing":
            for u in (["t0", "t1"] if info["two"] else ["t0"]):
                if u == "t0" and info["mat"]:
                    continue      # (materialized view: judged by the correspondence)
                evs = [x[2] for x in ob["log"] if x[0] == u]
                got = [str(x[1]) for x in evs if x[0] == "n"]
                terms = [x[0] for x in evs if x[0] != "n"]
                if got != info["want"] or terms != [info["end"]] or (evs and evs[-1][0] == "n"):
                    out0.append((i, "subscriber %s of a shared cold source that emits %s and then ends with '%s' received %s" % (u, info["want"], info["end"], sx.dumps(evs))))
                    break
        if info.get("k") == "multi-hot" and "amb" not in ops_of(sc):      # (amb keeps the losers subscribed until they next emit: their error is dropped by design)
            # the operator's FIRST input fails while the operator still holds its subscription to it (the subject counts an observer
            # just before the error) and the subscriber is alive: the error is the subscriber's last event
            script = [a for a in sx.field(sc[1:], "script")]
            snaps = {int(s_[0]): s_ for s_ in ob["snaps"]}
            for k, a in enumerate(script):
                if a[0] == "emit" and int(a[1]) == 0 and a[2][0] == "e" and k in snaps:
                    flags, counts = snaps[k][1], snaps[k][2]
                    if str(flags[0]) == "1" and int(counts[0]) >= 1:
                        evs = [x[2] for x in ob["log"] if x[0] == "t0"]
                        if not evs or evs[-1][0] != "e" or str(evs[-1][1]) != str(a[2][1]):
                            out0.append((i, "the first input failed with error %s while the operator was still subscribed to it and the subscriber alive; the subscriber received %s - the error must be its last event" % (a[2][1], sx.dumps(evs))))
                    break
        if info.get("k") == "emits-after-error":
            evs = [x[2] for x in ob["log"] if x[0] == "t0"]
            got = [str(x[1]) for x in evs if x[0] == "n"]
            if not evs or evs[-1][0] != "e" or got != info["want"] or sum(1 for x in evs if x[0] != "n") != 1:
                out0.append((i, "the producer errs after %s and goes on emitting: the subscriber received %s - the error must be its last event" % (info["want"], sx.dumps(evs))))
    return out0 + judge_impl_rest(cases, obs)


def judge_impl_rest(cases, obs):
    import C14
    out = C14.judge_impl(cases, obs)
    for i, ((sc, info), ob) in enumerate(zip(cases, obs)):
        if info.get("k") != "recover-shared-hot" or info.get("want") is None or ob["out"] != "ok":
            continue
        got = [str(x[2][1]) for x in ob["log"] if x[0] == "t0" and x[2][0] == "n"]
        terms = [x[2][0] for x in ob["log"] if x[0] == "t0" and x[2][0] != "n"]
        if got != info["want"] or terms != (["c"] if info["end"] else []):
            out.append((i, "recovery over a shared hot source: the subscriber received items %s terminals %s, the source emitted %s%s around errors that the recovery operator absorbs" % (
                got, terms, info["want"], " then complete" if info["end"] else "")))
    return out
