"""C11 - combinators fed from several threads conserve items and terminate exactly once."""
import sx
import vplib

PID = "C11"
ENGINE = "conc"
RULE = ("merge / zip / amb of 2-3 inputs, concat of 2-3 inputs and flat_map over an outer input, every input emitting a short script of "
        "distinct items and then complete from its own thread - hot Subjects fed by harness threads, or cold from_iter sources moved to "
        "a scheduler thread by subscribe_on - with and without take(n) downstream; smallest instances over ALL schedules (DFS), the others "
        "under random and PCT schedules; judged against the scripts: merge/flat_map/concat: every input's items exactly once in that "
        "input's order (concat: input after input); zip: exactly the tuples pairing the i-th items, each once; amb: the whole script of "
        "exactly one input; take(n): at most n items, each input's items a subsequence of its script; always at most one terminal, as the "
        "last event, and exactly one complete once every thread has finished; for the exhaustive instances the implementation's log set "
        "must lie within the exhaustively explored log set of the Coq model; non-trivial = an observation in which callbacks of two "
        "different inputs' threads were delivered; distinct = distinct (scenario, subscriber log)")
ASSUMPTIONS = ["scheduling points are the facade's lock/condvar/spawn/sleep operations (sequentially consistent memory)",
               "user callbacks return and do not re-enter the library",
               "no input fails (errors racing items are C19's families; error payloads are C04)",
               "the order in which zip DELIVERS tuples is not part of C11 (the crate forms tuples in index order but can deliver them out of order; see DESIGN.md)"]


def scripts_for(rng, k, maxlen, minlen=1):
    return [[100 * (p + 1) + i + 1 for i in range(rng.randrange(minlen, maxlen + 1))] for p in range(k)]


def hot_case(opn, scripts, take, sched, rng=None):
    k = len(scripts)
    objs = [["subject", "subject"] for _ in range(k)]
    pipe = ["op", opn, [], ["hot", 0]] + [["hot", i] for i in range(1, k)]
    if take is not None:
        pipe = ["op", "take", [take], pipe]
    objs.append(["pipe", pipe])
    threads = [["t%d" % i] + [["next", i, v] for v in scr] + [["complete", i]] for i, scr in enumerate(scripts)]
    scn = ["conc", ["objects"] + objs, ["init", ["sub", 0, 0]], ["threads"] + threads, ["fini"], ["sched"] + sched]
    if sched[0] == "dfs":
        scn.append(["want-choices"])
    return {"scn": scn, "kind": opn, "scripts": scripts, "take": take, "sched": sched, "src": "hot"}


def cold(scr):
    return ["op", "subscribe_on", [], ["from_iter"] + scr]


def cold_case(opn, scripts, take, sched, again=None, sync_first=False):
    # sync_first: the first input is a plain synchronous source (it has completed before the next input is even subscribed), the
    # others emit from their own threads
    pipe = ["op", opn, [], (["from_iter"] + scripts[0]) if sync_first else cold(scripts[0])] + [cold(s) for s in scripts[1:]]
    if take is not None:
        pipe = ["op", "take", [take], pipe]
    # again: the SAME Observable value is subscribed a second time - "after" the first subscription has ended or while it is "running"
    init = [["sub", 0, 0]] + ([["sub", 1, 0]] if again == "running" else [])
    fini = [["sleep", 50], ["sub", 1, 0]] if again == "after" else []
    scn = ["conc", ["objects", ["pipe", pipe]], ["init"] + init, ["threads"], ["fini"] + fini, ["sched"] + sched]
    return {"scn": scn, "kind": opn, "scripts": scripts, "take": take, "sched": sched, "src": "cold", "users": [0, 1] if again else [0]}


def flat_case(outer, inners, take, sched):
    # outer items 0..len(inners)-1 select the inner pipe by `mod`
    pipe = ["op", "flat_map", [["mod"]], ["hot", 0]] + [cold(s) for s in inners]
    if take is not None:
        pipe = ["op", "take", [take], pipe]
    threads = [["o"] + [["next", 0, x] for x in outer] + [["complete", 0]]]
    scn = ["conc", ["objects", ["subject", "subject"], ["pipe", pipe]], ["init", ["sub", 0, 0]], ["threads"] + threads, ["fini"], ["sched"] + sched]
    return {"scn": scn, "kind": "flat_map", "scripts": [inners[x % len(inners)] for x in outer], "take": take, "sched": sched, "src": "cold"}


def flat_merge_case(inners, take, sched):
    # the OUTER items arrive from two threads at once (merge does not serialise): inner observers are registered concurrently
    pipe = ["op", "flat_map", [["mod"]], ["op", "merge", [], ["hot", 0], ["hot", 1]]] + [cold(s) for s in inners]
    if take is not None:
        pipe = ["op", "take", [take], pipe]
    threads = [["a", ["next", 0, 0], ["complete", 0]], ["b", ["next", 1, 1], ["complete", 1]]]
    scn = ["conc", ["objects", ["subject", "subject"], ["subject", "subject"], ["pipe", pipe]], ["init", ["sub", 0, 0]], ["threads"] + threads, ["fini"], ["sched"] + sched]
    return {"scn": scn, "kind": "flat_map", "scripts": [inners[0], inners[1]], "take": take, "sched": sched, "src": "cold"}


def generate(rng, tier, seed):
    thorough = tier == "thorough"
    cases = []
    for opn in ("merge", "zip", "amb"):
        cases.append(hot_case(opn, [[101], [201]], None, ["dfs", 4000]))
        cases.append(hot_case(opn, [[101, 102], [201]], None, ["dfs", 4000]))
        if thorough:
            cases.append(hot_case(opn, [[101, 102], [201, 202]], None, ["dfs", 40000]))
    n = 50 if thorough else 10
    for _ in range(n):
        for opn in ("merge", "zip", "amb"):
            k = rng.choice([2, 2, 3])
            scripts = scripts_for(rng, k, 3)
            total = sum(len(s) for s in scripts)
            take = rng.choice([None, None, 0, 1, 2, max(1, total - 1)])
            base = seed * 1000 + rng.randrange(1000)
            cases.append(hot_case(opn, scripts, take, ["random", base, 60 if thorough else 25]))
            cases.append(hot_case(opn, scripts, take, ["pct", 3, base, 30 if thorough else 10]))
            if rng.random() < 0.5:
                cases.append(cold_case(opn, scripts, take, ["random", base, 30 if thorough else 12]))
        # amb with an input that completes without ever emitting: if it signals first it wins (empty output), otherwise it is a
        # loser whose only signal - its completion - must not end the winner's stream
        scripts = scripts_for(rng, rng.choice([1, 2]), 3) + [[]]
        rng.shuffle(scripts)
        base = seed * 1000 + rng.randrange(1000)
        cases.append(hot_case("amb", scripts, None, ["random", base, 60 if thorough else 25]))
        cases.append(hot_case("amb", scripts, None, ["pct", 3, base, 30 if thorough else 10]))
        # a synchronous input next to threaded ones: it has come and gone before the others are subscribed
        cases.append(cold_case(rng.choice(["merge", "merge", "concat"]), scripts_for(rng, rng.choice([2, 3]), 3), None, ["random", base + 5, 20 if thorough else 8], sync_first=True))
        # amb whose inputs ALL complete without emitting (the first completion wins: exactly one complete, no item)
        cases.append(hot_case("amb", [[] for _ in range(rng.choice([2, 3]))], None, ["random", base, 30 if thorough else 12]))
        # amb whose race is decided by an item of one input; later ANOTHER input fails: the loser's error is not let through, the
        # winner's remaining items and its complete still arrive (ordered by virtual time: the sentence "amb lets exactly one input
        # through" carries no "none fails" proviso)
        w = rng.randrange(2)
        thr = [["t%d" % w, ["next", w, 101], ["sleep", 4], ["next", w, 102], ["complete", w]], ["t%d" % (1 - w), ["sleep", 2], ["error", 1 - w, 5]]]
        scn = ["conc", ["objects", ["subject", "subject"], ["subject", "subject"], ["pipe", ["op", "amb", [], ["hot", 0], ["hot", 1]]]], ["init", ["sub", 0, 0]],
               ["threads"] + thr, ["fini"], ["sched", "random", base, 10 if thorough else 5]]
        cases.append({"scn": scn, "kind": "amb", "scripts": [[101, 102], []] if w == 0 else [[], [101, 102]], "take": None, "sched": ["random", base, 10 if thorough else 5], "src": "hot", "loser_fails": True})
        k = rng.choice([2, 3])
        scripts = scripts_for(rng, k, 3)
        base = seed * 1000 + rng.randrange(1000)
        cases.append(cold_case("concat", scripts, rng.choice([None, None, 2]), ["random", base, 40 if thorough else 15]))
        # the same operator value subscribed again (after the first subscription has ended, or while it runs): each subscription
        # gets all of every input
        opn2 = rng.choice(["concat", "concat", "merge", "zip"])
        cases.append(cold_case(opn2, scripts, None, ["random", base + 1, 24 if thorough else 10], again=rng.choice(["after", "running"])))
        cases.append(cold_case(opn2, scripts, rng.choice([1, 2]), ["random", base + 2, 24 if thorough else 10], again="after"))
        # take(0) over inputs that complete without emitting: nothing but exactly one complete
        cases.append(cold_case(rng.choice(["merge", "concat", "zip"]), [[] for _ in range(rng.choice([1, 2, 3]))], rng.choice([0, 0, 1]), ["random", base + 3, 16 if thorough else 8]))
        cases.append(hot_case(rng.choice(["merge", "zip"]), [[], []], 0, ["random", base + 4, 16 if thorough else 8]))
        inners = scripts_for(rng, 2, 3)
        outer = rng.choice([[0, 1], [1, 0], [0, 1, 0]])
        cases.append(flat_case(outer, inners, rng.choice([None, None, 2]), ["random", base, 40 if thorough else 15]))
        cases.append(flat_merge_case(scripts_for(rng, 2, 3), None, ["random", base, 60 if thorough else 25]))
        cases.append(flat_merge_case(scripts_for(rng, 2, 3), None, ["pct", 3, base, 30 if thorough else 12]))
    return cases


def sched_of(case, ob):
    s = case["sched"]
    if s[0] == "random":
        return ["random", ob["seed"], 1]
    if s[0] == "pct":
        return ["pct", s[1], ob["seed"], 1]
    if s[0] == "dfs":
        return ["replay"] + [int(c) for c in ob.get("choices", [])]
    return s


def is_subseq(a, b):
    it = iter(b)
    return all(x in it for x in a)


def flat(v):
    return [int(x) for x in v[1:]] if isinstance(v, list) else [int(v)]


def judge_one(case, ob):
    bad, logs, multi = [], [], False
    for u in case.get("users", [0]):
        b, l, m = judge_user(case, ob, u)
        bad += [("U%d: " % u if u else "") + x for x in b]
        logs.append(l)
        multi = multi or m
    return bad, " | ".join(logs), multi


def judge_user(case, ob, u):
    bad = []
    kind, scripts, take = case["kind"], case["scripts"], case["take"]
    cbs = [c for c in vplib.callbacks_of(ob, "cb") if int(c[0]) == u]
    evs = [c[1] for c in cbs]
    kinds = [e[0] for e in evs]
    terms = [k for k in kinds if k != "n"]
    if len(terms) > 1:
        bad.append("%d terminal callbacks %s" % (len(terms), terms))
    if terms and kinds[-1] == "n":
        bad.append("an item was delivered after the terminal: %s" % kinds)
    if "e" in kinds:
        bad.append("the error of an input that had already lost amb's race was delivered" if case.get("loser_fails") else "an error was delivered although no input fails")
    items = [e[1] for e in evs if e[0] == "n"]
    log = " ".join("(" + " ".join(str(x) for x in flat(v)) + ")" if isinstance(v, list) else str(int(v)) for v in items)
    if take is not None and len(items) > take:
        bad.append("take(%d) delivered %d items" % (take, len(items)))
    owner = {v: (p, i) for p, scr in enumerate(scripts) for i, v in enumerate(scr)}
    if kind in ("merge", "concat", "flat_map", "amb"):
        vals = [int(v) for v in items]
        for v in vals:
            if v not in owner:
                bad.append("received %s which no input emitted" % v)
        if kind == "flat_map" and len(set(map(tuple, scripts))) < len(scripts):
            # the same inner script subscribed twice: compare multisets and the merged order only
            want = sorted(v for s in scripts for v in s)
            if take is None and sorted(vals) != want:
                bad.append("flat_map delivered %s, expected the multiset %s" % (vals, want))
        else:
            per = [[owner[v][1] for v in vals if v in owner and owner[v][0] == p] for p in range(len(scripts))]
            for p, idx in enumerate(per):
                if take is None and kind != "amb":
                    if idx != list(range(len(scripts[p]))):
                        bad.append("input %d's items arrived as script positions %s (expected each of its %d items once, in order)" % (p, idx, len(scripts[p])))
                elif not is_subseq(idx, list(range(len(scripts[p])))) or len(set(idx)) != len(idx):
                    bad.append("input %d's items arrived as script positions %s: not in script order / repeated" % (p, idx))
            if kind == "amb":
                through = [p for p, idx in enumerate(per) if idx]
                if len(through) > 1:
                    bad.append("amb let %d inputs through: positions per input %s" % (len(through), per))
                if take is None and through and per[through[0]] != list(range(len(scripts[through[0]]))):
                    bad.append("amb's winner %d delivered positions %s of its %d items" % (through[0], per[through[0]], len(scripts[through[0]])))
                if take is None and not through and all(len(sc_) > 0 for sc_ in scripts):
                    bad.append("amb delivered nothing although every input emits")
            if kind == "concat" and take is None:
                want = [v for s in scripts for v in s]
                if vals != want:
                    bad.append("concat delivered %s, expected %s" % (vals, want))
    elif kind == "zip":
        m = min(len(s) for s in scripts)
        rows = [[s[i] for s in scripts] for i in range(m)]
        got = [flat(v) for v in items]
        for g in got:
            if g not in rows:
                bad.append("zip delivered %s which does not pair the i-th items of %s" % (g, scripts))
        if len(set(map(tuple, got))) != len(got):
            bad.append("zip delivered a tuple twice: %s" % got)
        if take is None and sorted(got) != sorted(rows):
            bad.append("zip delivered %s, expected exactly the tuples %s" % (got, rows))
    # exactly one complete once every thread has finished (the run has reached quiescence)
    if ob["status"] == "ok" and terms != ["c"]:
        bad.append("every input has completed but the subscriber saw terminals %s" % terms)
    tids = set(c[5] for c in cbs if c[1][0] == "n")
    return bad, log + (" c" if terms == ["c"] else ""), len(tids) >= 2


def judge(cases, runs):
    viol, unshown, nontriv = [], [], set()
    impl_logs = {}
    for ci, (case, obs) in enumerate(zip(cases, runs)):
        for ob in obs:
            if ob["status"] == "dfs-done":
                case["dfs_complete"] = ob["complete"]
                continue
            if ob["status"] != "ok" or ob.get("panics", 0):
                viol.append((ci, sched_of(case, ob), "run ended with status %s panics %s %s" % (ob["status"], ob.get("panics"), ob.get("msg", ""))))
                continue
            bad, log, multi = judge_one(case, ob)
            if bad:
                viol.append((ci, sched_of(case, ob), "; ".join(bad[:3])))
            if multi:
                nontriv.add((sx.dumps(case["scn"][1:5]), log))
            if case["sched"][0] == "dfs":
                impl_logs.setdefault(ci, set()).add(log)
    dfs = [ci for ci, c in enumerate(cases) if c["sched"][0] == "dfs"]
    total = covered = 0
    if dfs:
        outs = vplib.driver_lines(["comb-explore"], [sx.dumps(["comb", cases[ci]["kind"], ["scripts"] + [["s"] + s for s in cases[ci]["scripts"]]]) for ci in dfs])
        for ci, line in zip(dfs, outs):
            x = sx.loads(line)
            kind = cases[ci]["kind"]

            def norm(l):
                return " ".join("(" + " ".join(str(v) for v in t) + ")" if isinstance(t, list) else str(t) for t in l)
            mset = set(norm(l) for l in x[1:])
            if kind != "merge":          # the zip and amb models stop before the complete
                iset = set(l[:-2].strip() if l.endswith(" c") else l for l in impl_logs.get(ci, set()))
            else:
                iset = impl_logs.get(ci, set())
            total += len(mset)
            covered += len(mset & iset)
            extra = iset - mset
            if extra:
                unshown.append((ci, cases[ci]["sched"], "implementation log(s) %s not among the %s model's logs %s" % (sorted(extra)[:3], kind, sorted(mset)[:8])))
    import re
    extra = {"failure_kinds": vplib._count(cases[v[0]]["kind"] + ": " + re.sub(r"[0-9]+", "#", v[2].split(";")[0]) for v in viol),
             "model_logs_total": total, "model_logs_reached_by_impl": covered,
             "case_kinds": vplib._count(c["kind"] + "/" + c["src"] + ("+take" if c["take"] is not None else "") for c in cases),
             "inputs": vplib._count(str(len(c["scripts"])) for c in cases),
             "dfs_complete": vplib._count(str(c.get("dfs_complete")) for c in cases if c["sched"][0] == "dfs")}
    return {"violations": viol, "unshown": unshown, "nontrivial": nontriv, "extra": extra}
