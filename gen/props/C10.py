"""C10 - subjects multicast to exactly the current observers; late joiners get history (sequential histories)."""
import itertools

import scen
import sx
from common import ops_of
from scen import C, e, n, op, scn, src, sub

PID = "C10"
ORACLE = "c10"
TIE_ORACLES = ["c10k"]     # implementation = SubjK (the automaton the refinement theorems are about)
RULE = ("call histories over {subscribe_i, unsubscribe_i, next(v), error, complete} with up to 3 observers and 3 values on each of the four "
        "subject kinds, observers attached directly and through an identity operator; quick: all histories of length <= 4 over a reduced "
        "alphabet plus random ones up to length 9, thorough: exhaustive to length 6 plus 40k random; non-trivial = the oracle applies and "
        "some observer received an event")
ASSUMPTIONS = ["plain Subject / AsyncSubject do not remember a terminal (pinned by the crate: a late joiner is registered and hears nothing)",
               "AsyncSubject hands a subscriber the last item pushed since it joined (crate convention: subject.observable().take_last(1))",
               "histories that use a history-keeping subject after its own terminal are outside the oracle, inside the correspondence"]

KINDS = [["subject"], ["behavior", 0], ["replay"], ["async"]]


def nontrivial(sc, ob, verdict):
    return verdict != "skip" and bool(ob["log"])


def classify(sc, ob, verdict):
    return None


def mk(kind, hist, via, shared=None):
    """shared: None, or a pipe built ONCE (an Observable value) that every subscriber without its own `via` subscribes"""
    acts = []
    used = set()
    for h in hist:
        if h[0] == "sub":
            if h[1] in used:
                continue
            used.add(h[1])
            p = ["hot", 0]
            if via.get(h[1]):
                p = via[h[1]](p)
            elif shared is not None:
                p = ["ref", 0]
            acts.append(sub(h[1], p))
        elif h[0] == "unsub":
            acts.append(["unsub", h[1]])
        else:
            acts.append(["emit", 0, h[1]])
    return scn(subjects=[kind], handles=3, script_=acts, defs=[shared] if shared is not None else [])


VIA = [None, lambda p: op("map", [["id"]], p), lambda p: op("map_to_any", [], p), lambda p: op("filter", [["true"]], p)]


def generate(rng, tier, focus):
    cases = []
    thorough = tier == "thorough"
    alpha_small = [("sub", 0), ("sub", 1), ("unsub", 0), ("emit", n(1)), ("emit", n(2)), ("emit", C), ("emit", e(3))]
    L = 6 if thorough else 4
    for kind in KINDS:
        for k in range(1, L + 1):
            for hist in itertools.product(alpha_small, repeat=k):
                if not thorough and k == 4 and rng.random() < 0.6:
                    continue
                if thorough and k >= 5 and rng.random() < (0.8 if k == 5 else 0.97):
                    continue
                cases.append((mk(kind, hist, {}), {"k": "exhaustive"}))
    alpha = [("sub", 0), ("sub", 1), ("sub", 2), ("unsub", 0), ("unsub", 1), ("unsub", 2), ("emit", n(1)), ("emit", n(2)), ("emit", n(3)),
             ("emit", n(1)), ("emit", C), ("emit", e(3))]
    for _ in range(40000 if thorough else 2500):
        kind = rng.choice(KINDS)
        hist = [rng.choice(alpha) for _ in range(rng.randrange(3, 10))]
        via = {i: rng.choice(VIA) for i in range(3)}
        cases.append((mk(kind, hist, via), {"k": "random"}))
    # several subscribers of ONE Observable value (let o = subject.observable(); o.subscribe(..) twice)
    for _ in range(12000 if thorough else 1500):
        kind = rng.choice(KINDS)
        hist = [rng.choice(alpha) for _ in range(rng.randrange(3, 10))]
        shared = rng.choice([["hot", 0], ["hot", 0], op("map", [["id"]], ["hot", 0]), op("filter", [["true"]], ["hot", 0])])
        cases.append((mk(kind, hist, {}, shared), {"k": "shared-value"}))
    return cases
