"""C10 - subjects multicast to exactly the current observers; late joiners get history (sequential histories)."""
import itertools

import scen
import sx
from common import ops_of
from scen import C, e, n, op, scn, src, sub

PID = "C10"
ORACLE = "c10"
TIE_ORACLES = ["c10k"]     # implementation = SubjK (the automaton the refinement theorems are about)
RULE = ("call histories over {subscribe_i, unsubscribe_i, next(v), error, complete} with up to 3 observers and 3 values on each of the four "
        "subject kinds, observers attached directly and through an identity operator; quick: all histories of length <= 4 over a reduced "
        "alphabet plus random ones up to length 9, thorough: exhaustive to length 6 plus 40k random; non-trivial = the oracle applies and "
        "some observer received an event")
ASSUMPTIONS = ["plain Subject / AsyncSubject do not remember a terminal (pinned by the crate: a late joiner is registered and hears nothing)",
               "AsyncSubject hands a subscriber the last item pushed since it joined (crate convention: subject.observable().take_last(1))",
               "histories that use a history-keeping subject after its own terminal are outside the oracle, inside the correspondence"]

KINDS = [["subject"], ["behavior", 0], ["replay"], ["async"]]


def nontrivial(sc, ob, verdict):
    return verdict != "skip" and bool(ob["log"])


def classify(sc, ob, verdict):
    return None


def mk(kind, hist, via, shared=None):
    """shared: None, or a pipe built ONCE (an Observable value) that every subscriber without its own `via` subscribes"""
    acts = []
    used = set()
    for h in hist:
        if h[0] == "sub":
            if h[1] in used:
                continue
            used.add(h[1])
            p = ["hot", 0]
            if via.get(h[1]):
                p = via[h[1]](p)
            elif shared is not None:
                p = ["ref", 0]
            acts.append(sub(h[1], p))
        elif h[0] == "unsub":
            acts.append(["unsub", h[1]])
        else:
            acts.append(["emit", 0, h[1]])
    return scn(subjects=[kind], handles=3, script_=acts, defs=[shared] if shared is not None else [])


VIA = [None, lambda p: op("map", [["id"]], p), lambda p: op("map_to_any", [], p), lambda p: op("filter", [["true"]], p)]


def generate(rng, tier, focus):
    cases = []
    thorough = tier == "thorough"
    alpha_small = [("sub", 0), ("sub", 1), ("unsub", 0), ("emit", n(1)), ("emit", n(2)), ("emit", C), ("emit", e(3))]
    L = 6 if thorough else 4
    for kind in KINDS:
        for k in range(1, L + 1):
            for hist in itertools.product(alpha_small, repeat=k):
                if not thorough and k == 4 and rng.random() < 0.6:
                    continue
                if thorough and k >= 5 and rng.random() < (0.8 if k == 5 else 0.97):
                    continue
                cases.append((mk(kind, hist, {}), {"k": "exhaustive"}))
    alpha = [("sub", 0), ("sub", 1), ("sub", 2), ("unsub", 0), ("unsub", 1), ("unsub", 2), ("emit", n(1)), ("emit", n(2)), ("emit", n(3)),
             ("emit", n(1)), ("emit", C), ("emit", e(3))]
    for _ in range(40000 if thorough else 2500):
        kind = rng.choice(KINDS)
        hist = [rng.choice(alpha) for _ in range(rng.randrange(3, 10))]
        via = {i: rng.choice(VIA) for i in range(3)}
        cases.append((mk(kind, hist, via), {"k": "random"}))
    # several subscribers of ONE Observable value (let o = subject.observable(); o.subscribe(..) twice)
    for _ in range(12000 if thorough else 1500):
        kind = rng.choice(KINDS)
        hist = [rng.choice(alpha) for _ in range(rng.randrange(3, 10))]
        shared = rng.choice([["hot", 0], ["hot", 0], op("map", [["id"]], ["hot", 0]), op("filter", [["true"]], ["hot", 0])])
        cases.append((mk(kind, hist, {}, shared), {"k": "shared-value"}))
    # a subscription made INSIDE the subject's terminal notification - by an operator (concat / on_error_resume_next over the same
    # subject twice) or by the subscriber's own callback: a history-keeping subject must hand the newcomer its stored terminal
    for _ in range(4000 if thorough else 600):
        kind = rng.choice([["behavior", 0], ["replay"]])
        term = rng.choice([C, e(3)])
        how = rng.choice(["concat", "resume", "react"])
        pre = [["emit", 0, n(rng.choice([1, 2, 3]))] for _ in range(rng.randrange(0, 3))]
        mid = [["emit", 0, n(rng.choice([1, 2, 3]))] for _ in range(rng.randrange(0, 3))]
        post = [["emit", 0, rng.choice([n(1), C, e(3)])] for _ in range(rng.randrange(0, 2))]
        if how == "concat":
            p = op("concat", [], ["hot", 0], ["hot", 0])
            term = C
            subs = [sub(0, p)]
        elif how == "resume":
            p = op("on_error_resume_next", [], ["hot", 0], ["hot", 0])
            term = e(3)
            subs = [sub(0, p)]
        else:
            # the subscriber's i-th callback subscribes a second observer; i ranges over every callback including the terminal one
            ncb = (1 if kind[0] == "behavior" else len(pre)) + len(mid)
            subs = [sub(0, ["hot", 0], (rng.choice([ncb, ncb, max(0, ncb - 1), 0]), ["sub", 1, ["hot", 0]]))]
        if rng.random() < 0.3:
            subs.append(sub(2, ["hot", 0]))
        acts = pre + subs + mid + [["emit", 0, term]] + post
        cases.append((scn(subjects=[kind], handles=3, script_=acts), {"k": "sub-in-terminal", "how": how, "term": term}))
    # a newcomer that subscribes from inside a callback of another subscriber:
    #  (a) plain Subject, inside the TERMINAL callback: the subject is re-usable, the newcomer receives whatever is pushed afterwards;
    #  (b) ReplaySubject, inside the j-th NEXT callback: the newcomer is handed the whole history INCLUDING the item being delivered,
    #      once, and then the live stream
    for _ in range(1600 if thorough else 260):
        if rng.random() < 0.5:
            m = rng.randrange(0, 3)
            term = rng.choice([C, e(3)])
            post = [rng.choice([n(5), n(6)]) for _ in range(rng.randrange(1, 4))] + rng.choice([[], [C], [e(4)]])
            subs = [sub(0, ["hot", 0], (m, ["sub", 1, ["hot", 0]]))] + ([sub(2, ["hot", 0])] if rng.random() < 0.4 else [])
            rng.shuffle(subs)
            acts = subs + [["emit", 0, n(rng.choice([1, 2, 3]))] for _ in range(m)] + [["emit", 0, term]] + [["emit", 0, x] for x in post]
            cases.append((scn(subjects=[["subject"]], handles=3, script_=acts), {"k": "newcomer-in-callback", "want1": [sx.dumps(x) for x in post]}))
        else:
            items = [n(rng.choice([1, 2, 3])) for _ in range(rng.randrange(1, 5))]
            j = rng.randrange(0, len(items))
            pre = rng.randrange(0, j + 1)           # subscriber 0 arrives after `pre` items (it is replayed those first)
            term = rng.choice([[], [C], [e(3)]])
            acts = [["emit", 0, x] for x in items[:pre]] + [sub(0, ["hot", 0], (j, ["sub", 1, ["hot", 0]]))] + [["emit", 0, x] for x in items[pre:]] + [["emit", 0, x] for x in term]
            cases.append((scn(subjects=[["replay"]], handles=3, script_=acts), {"k": "newcomer-in-callback", "want1": [sx.dumps(x) for x in items + term]}))
    # feedback from INSIDE the terminal notification: every subscriber reacts to its terminal callback by pushing into the same subject
    # (next / error / complete): whoever was subscribed when the subject terminated gets exactly that terminal, and nothing that is
    # pushed while the notification is still going round (all subscribers react alike: the visiting order is unspecified)
    for _ in range(1500 if thorough else 250):
        kind = rng.choice([["subject"], ["subject"], ["replay"], ["async"]])
        nsub = rng.choice([2, 2, 3])
        m = rng.randrange(0, 3)
        term = rng.choice([C, C, e(3)])
        back = rng.choice([n(7), n(7), e(5), C])
        tcb = 0 if kind[0] == "async" and term == e(3) else (m if kind[0] != "async" else (1 if m else 0))
        subs = [sub(u, ["hot", 0], (tcb, ["emit", 0, back])) for u in range(nsub)]
        acts = subs + [["emit", 0, n(rng.choice([1, 2, 3]))] for _ in range(m)] + [["emit", 0, term]]
        items = [a[2] for a in acts if a[0] == "emit" and a[2][0] == "n"]
        want = (items if kind[0] != "async" else (items[-1:] if term == C else [])) + [term]
        cases.append((scn(subjects=[kind], handles=3, script_=acts), {"k": "emit-in-terminal", "want": [sx.dumps(x) for x in want], "nsub": nsub}))
    # an observer attached through an operator that ENDS the subscription during the hand-over (take / first / take_while /
    # element_at over a subject with a stored history): the subject must not go on holding it
    for _ in range(3000 if thorough else 500):
        kind = rng.choice([["replay"], ["replay"], ["behavior", 0], ["subject"]])
        pre = [["emit", 0, n(rng.choice([1, 2, 3]))] for _ in range(rng.randrange(0, 4))]
        cutop = rng.choice([["take", [rng.choice([1, 2, 3])]], ["first", []], ["take_while", [rng.choice([["lt", 2], ["lt", 3], ["false"]])]],
                            ["element_at", [rng.choice([1, 2])]], ["contains", [rng.choice([1, 2])]]])
        acts = pre + [sub(0, ["hot", 0])] + [sub(1, op(cutop[0], cutop[1], ["hot", 0]))]
        acts += [["emit", 0, n(rng.choice([1, 2, 3]))] for _ in range(rng.randrange(0, 3))]
        if rng.random() < 0.6:
            acts.append(["unsub", 0])
        if rng.random() < 0.3:
            acts.append(["unsub", 1])
        cases.append((scn(subjects=[kind], handles=3, script_=acts), {"k": "leave-during-handover"}))
    return cases


def judge_impl(cases, obs):
    """sub-in-terminal: whoever is subscribed to a BehaviorSubject / ReplaySubject when it terminates, or subscribes afterwards -
    also from inside the terminal notification itself - ends with that terminal, exactly once (concat / on_error_resume_next over
    the same subject twice: the second subscription is made inside the first one's terminal handler and is handed the stored terminal)"""
    out = []
    for i, ((sc, info), ob) in enumerate(zip(cases, obs)):
        if info.get("k") == "leave-during-handover" and ob["out"] == "ok" and ob["snaps"]:
            # every subscriber holds exactly one registration while it is subscribed: after the last action the subject holds as
            # many observers as there are subscriptions still alive
            _, flags, counts = ob["snaps"][-1]
            alive = sum(1 for f in flags if str(f) == "1")
            if int(counts[0]) != alive:
                out.append((i, "the subject holds %s observer(s) after the last action, but %d subscription(s) are still alive (flags %s): an observer that ended during the hand-over was kept" % (
                    counts[0], alive, " ".join(str(f) for f in flags))))
        if info.get("k") == "newcomer-in-callback" and ob["out"] == "ok":
            got = [sx.dumps(x[2]) for x in ob["log"] if x[0] == "t1"]
            if got != info["want1"]:
                out.append((i, "the subscriber made from inside another subscriber's callback received %s, expected %s (Subject: everything pushed after it joined; ReplaySubject: the whole history, the item being delivered included, once)" % (" ".join(got), " ".join(info["want1"]))))
        if info.get("k") == "emit-in-terminal" and ob["out"] == "ok":
            for u in range(info["nsub"]):
                got = [sx.dumps(x[2]) for x in ob["log"] if x[0] == "t%d" % u]
                if got != info["want"]:
                    out.append((i, "subscriber %d, subscribed from the start, received %s instead of %s: what a subscriber pushes from inside its terminal callback reached another subscriber of the terminated subject (or replaced its terminal)" % (u, " ".join(got), " ".join(info["want"]))))
                    break
        if info.get("k") != "sub-in-terminal" or ob["out"] != "ok":
            continue
        want = sx.dumps(info["term"])
        logs = {}
        for x in ob["log"]:
            logs.setdefault(x[0], []).append(sx.dumps(x[2]))
        for u, l in sorted(logs.items()):
            terms = [y for y in l if y.startswith("(c") or y.startswith("(e")]
            if not l:
                continue
            if terms != [want] or l[-1] != want:
                out.append((i, "subscriber %s of a history-keeping subject that terminated with %s received %s: it must end with that terminal, once" % (u, want, " ".join(l))))
                break
        # the subscriber made inside a callback must have been handed something (at least the stored terminal)
        if info["how"] == "react" and "t1" not in logs and any(x[0] == "t0" for x in ob["log"]):
            n0 = len(logs.get("t0", []))
            r = [a for a in sx.field(sc[1:], "script") if a[0] == "sub" and a[1] == 0][0]
            idx = [q[1] for q in r[3:] if q[0] == "react"][0]
            if n0 > idx:
                out.append((i, "the observer subscribed from inside callback #%d of a history-keeping subject that has terminated received nothing (not even the stored terminal)" % idx))
    return out
