"""C05 - unsubscribe stops delivery, is idempotent, is reflected by is_subscribed (sequential part)."""
import scen
import vplib
import sx
from common import ops_of
from scen import C, e, n, op, scn, src, sub

PID = "C05"
CONC_MODULE = "C05c"
EXTRA_ORACLES = ["c13"]     # "unsubscribe again or after a terminal has no effect" - also not on the OTHER subscribers of a shared connection
ORACLE = "c05"
RULE = ("pipelines of depth 0-3 over cold sources (the subscriber unsubscribes itself from inside its i-th callback, every i) and over "
        "hot subjects of the four kinds (driver unsubscribes at every position of the emit script: before the first item, between any "
        "two events, after the terminal, repeatedly); non-trivial = an unsubscribe (driver or self) actually occurs in the scenario and "
        "the oracle applies")
ASSUMPTIONS = ["sequential part only here; the cross-thread part runs under the scheduling runtime (gen/props/C05x)",
               "a callback that unsubscribes itself during the synchronous part of subscribe() has no Subscription yet: no effect (harness convention, mirrored by the model)"]


def nontrivial(sc, ob, verdict):
    if verdict == "skip":
        return False
    txt = sx.dumps(sc)
    return "(unsub" in txt


def classify(sc, ob, verdict):
    return None


KINDS = [["subject"], ["behavior", 0], ["replay"], ["async"]]


def generate(rng, tier, focus):
    cases = []
    thorough = tier == "thorough"
    items = [1, 2, 3]
    # hot sources: unsubscribe at every position
    for _ in range(1500 if thorough else 220):
        kind = rng.choice(KINDS)
        d = rng.choice([0, 1, 2, 3] if thorough else [0, 1, 2])
        p = scen.rand_chain(rng, ["hot", 0], d)
        emits = [["emit", 0, n(rng.choice(items))] for _ in range(rng.randrange(1, 5))]
        if rng.random() < 0.6:
            emits.append(["emit", 0, rng.choice([C, e(4)])])
            if rng.random() < 0.4:
                emits.append(["emit", 0, n(9)])
        for pos in range(0, len(emits) + 1):
            acts = [sub(0, p)] + emits[:pos] + [["unsub", 0]] + emits[pos:]
            if rng.random() < 0.3:
                acts.insert(rng.randrange(pos + 2, len(acts) + 1), ["unsub", 0])
            cases.append((scn(subjects=[kind], handles=1, script_=acts), {"k": "hot-unsub"}))
    # two subscribers on one subject, one leaves
    for _ in range(600 if thorough else 100):
        kind = rng.choice(KINDS)
        acts = [sub(0, scen.rand_chain(rng, ["hot", 0], rng.choice([0, 1]))), sub(1, scen.rand_chain(rng, ["hot", 0], rng.choice([0, 1])))]
        for _ in range(rng.randrange(2, 7)):
            acts.append(rng.choice([["emit", 0, n(rng.choice(items))], ["emit", 0, n(rng.choice(items))], ["unsub", rng.randrange(2)], ["emit", 0, C]]))
        cases.append((scn(subjects=[kind], handles=2, script_=acts), {"k": "hot-two"}))
    # hot source behind a multi-source operator
    for _ in range(1800 if thorough else 300):
        nm = rng.choice(["merge", "zip", "amb", "amb", "take_until", "skip_until", "sample", "concat", "flat_map", "combine_latest", "sequence_equal"])
        p = scen.multi_op(rng, nm, ["hot", 0], [["hot", 1]])
        acts = [sub(0, scen.rand_chain(rng, p, rng.choice([0, 1])))]
        for _ in range(rng.randrange(2, 7)):
            acts.append(["emit", rng.randrange(2), rng.choice([n(1), n(2), n(3), C, e(4)])])
        acts.insert(rng.randrange(1, len(acts) + 1) if rng.random() < 0.6 else len(acts), ["unsub", 0])
        cases.append((scn(subjects=[["subject"], ["subject"]], handles=1, script_=acts), {"k": "hot-multi"}))
    # cold: emissions come from a hot subject so that the Subscription exists; the subscriber leaves from inside callback i
    for _ in range(1500 if thorough else 220):
        kind = rng.choice(KINDS)
        p = scen.rand_chain(rng, ["hot", 0], rng.choice([0, 1, 2]))
        i = rng.randrange(0, 4)
        acts = [sub(0, p, (i, ["unsub-self"]))]
        for _ in range(rng.randrange(2, 7)):
            acts.append(["emit", 0, rng.choice([n(1), n(2), n(3), n(2), C, e(3)])])
        cases.append((scn(subjects=[kind], handles=1, script_=acts), {"k": "self-unsub"}))
    # cold synchronous sources: self-unsubscribe has no Subscription yet; later driver unsubscribe after the terminal
    for _ in range(400 if thorough else 80):
        s = scen.script([rng.choice(items) for _ in range(rng.randrange(0, 5))], rng.choice(["c", ("e", 5), "s"]))
        p = scen.rand_chain(rng, ["cold", 0], rng.choice([0, 1, 2]))
        acts = [sub(0, p, (rng.randrange(3), ["unsub-self"])), ["unsub", 0], ["unsub", 0]]
        cases.append((scn(srcs=[src([s], rng.random() < 0.5)], handles=1, script_=acts), {"k": "cold"}))
    # hand-driven sources that never look at is_subscribed: unsubscribe at every position, then the source goes on (items, error, complete)
    for _ in range(1200 if thorough else 200):
        d = rng.choice([0, 0, 1, 2])
        p = scen.rand_chain(rng, ["manual", 0], d)
        pushes = [["push", 0, n(rng.choice(items))] for _ in range(rng.randrange(1, 4))]
        tail = [["push", 0, rng.choice([n(7), e(4), C])] for _ in range(rng.randrange(1, 4))]
        for pos in range(0, len(pushes) + 1):
            acts = [sub(0, p)] + pushes[:pos] + [["unsub", 0]] + pushes[pos:] + tail
            cases.append((scn(handles=1, script_=acts), {"k": "manual-unsub"}))
        i = rng.randrange(0, 3)
        cases.append((scn(handles=1, script_=[sub(0, p, (i, ["unsub-self"]))] + pushes + tail), {"k": "manual-self-unsub"}))
    # stale / repeated unsubscription on a shared connection (ref_count, replay): it must not disturb the other subscribers
    import C13
    for kind in ["refcount", "replay"]:
        for acts in C13.enum_histories(kind, 5, rng, 0.5 if thorough else 0.2):
            if sum(1 for a in acts if a[0] == "unsub") >= 1 and any(a[0] == "emit" and a[2][0] in ("c", "e") for a in acts):
                cases.append((scn(subjects=[["subject"]], conns=[[kind, ["hot", 0]]], handles=3, script_=acts), {"k": "conn-stale-unsub"}))
    # ... and over a COLD source that has run to its terminal inside the first subscribe: an unsubscribe after that terminal (once,
    # twice) must have no effect - the next subscriber gets the recorded history (replay) / a fresh run (ref_count), the source is
    # not subscribed behind anybody's back (c13 counts source subscriptions through the probes)
    for _ in range(1500 if thorough else 250):
        kind = rng.choice(["replay", "replay", "refcount"])
        s0 = scen.script([rng.choice(items) for _ in range(rng.randrange(0, 4))], rng.choice(["c", "c", ("e", 5)]))
        acts = [sub(0, ["conn", 0])]
        if rng.random() < 0.4:
            acts.append(sub(1, ["conn", 0]))
        acts += [["unsub", 0]] * rng.choice([1, 1, 2])
        acts.append(sub(2, ["conn", 0]))
        if rng.random() < 0.5:
            acts += [["unsub", rng.choice([0, 1, 2])], ["unsub", 2]]
        cases.append((scn(srcs=[src([s0], rng.random() < 0.3)], conns=[[kind, ["cold", 0]]], handles=3, script_=acts), {"k": "conn-cold-unsub-after-terminal"}))
    # "is_subscribed() is true from subscribe until the first terminal or unsubscribe": every single-source operator with every
    # boundary parameter DIRECTLY below the subscriber (and under one more operator), fed items one by one: the flag after every
    # driver action is judged (an operator that gives up without a terminal turns it false too early)
    for _ in range(4 if thorough else 1):
        for cnt in scen.COUNTS:
            insts = [("take", [cnt]), ("take_last", [cnt]), ("skip", [cnt]), ("skip_last", [cnt]), ("element_at", [cnt])]
            for nm, ps in insts + ([rng.choice(scen.single_ops(rng)) for _ in range(6)]):
                if nm in ("retry", "retry_when", "dematerialize"):
                    continue
                for outer in (None, rng.choice(scen.single_ops(rng))):
                    if outer is not None and outer[0] in ("retry", "retry_when", "dematerialize"):
                        continue
                    p = op(nm, ps, ["hot", 0])
                    if outer is not None:
                        p = op(outer[0], outer[1], p)
                    emits = [["emit", 0, n(rng.choice(items))] for _ in range(rng.randrange(1, 5))]
                    if rng.random() < 0.5:
                        emits.append(["emit", 0, rng.choice([C, e(4)])])
                    cases.append((scn(subjects=[rng.choice(KINDS)], handles=1, script_=[sub(0, p)] + emits + [["unsub", 0]]), {"k": "flag-boundary"}))
    return cases


def run(tier, seed):
    import sys
    import C05c
    return vplib.run_both(sys.modules[__name__], C05c, tier, seed)
