"""C06 - every way a subscription ends tears down everything upstream of it."""
import scen
import sx
from common import ops_of
from scen import C, e, n, op, scn, src, sub

PID = "C06"
ORACLE = "c06"
MODEL_MUST_NOT = "closure=0"    # at quiescence of the MODEL: ended controllers have empty maps and closed upstream observers (ties Tear.v to Step.v)
RULE = ("instrumented cold sources (a probe of is_subscribed before every emission attempt; scripts longer than what the consumer "
        "takes, not polling) and hot subjects (observer counts) under every terminating cause of the statement - unsubscribe (driver, "
        "self from callback i), terminal, take/first/element_at/take_while/take_until/contains/all/sequence_equal/amb/retry/erroring "
        "sibling of merge/flat_map/zip - at every position, pipelines of depth <= 3, unbounded producers (repeat) cut by a terminating "
        "operator; non-trivial = some probe or count is actually constrained (the subscription ended while a source had events left or a subject was joined)")
ASSUMPTIONS = ["cold sources are attributed to handle 0; other handles subscribe hot sources only",
               "amb's losers are judged by the model correspondence (they may see one more emission attempt)"]

ENDERS = ["take", "first", "element_at", "take_while", "contains", "all", "take_until", "amb", "sequence_equal", "retry", "merge", "flat_map", "zip",
          "dematerialize", "on_error_resume_next", "switch_on_next", "skip_until", "sample", "concat"]


def nontrivial(sc, ob, verdict):
    if verdict == "skip":
        return False
    ended = any(x[2][0] in ("c", "e") for x in ob["log"] if x[0] == "t0") or "(unsub" in sx.dumps(sc)
    return ended and (len(ob["probes"]) > 0 or len(sx.field(sc[1:], "subjects")) > 0)


def classify(sc, ob, verdict):
    # D18: a ReplaySubject joined after its terminal keeps the forwarding observer registered
    subj = sx.field(sc[1:], "subjects")
    if any(s[0] == "replay" for s in subj):
        acts = sx.field(sc[1:], "script")
        seen_term = False
        for a in acts:
            if a[0] == "emit" and a[2][0] in ("c", "e"):
                seen_term = True
            if a[0] == "sub" and seen_term:
                return "D18"
            for r in a[3:] if a[0] == "sub" else []:
                pass
    return None



def judge_impl(cases, obs):
    """recover-probed-sibling: the hand-driven source is subscribed once per attempt, so when it pushes, every observer but the
    one of the current attempt belongs to an attempt that has been given up: it must already be unsubscribed; after the
    subscriber's own end (terminal delivered or unsubscribe returned) all of them must be."""
    out = []
    for i, ((sc, info), ob) in enumerate(zip(cases, obs)):
        if info.get("k") == "unbounded" and ob["out"] == "hang":
            out.append((i, "an unbounded producer did not stop when the subscription ended: subscribe() never returned (the run had to be killed)"))
        if info.get("k") != "recover-probed-sibling" or ob["out"] != "ok":
            continue
        seq_ = [(s, j, alive, ll, cur) for (s, j, idx, alive, ll, cur) in [tuple(int(v) for v in pr) for pr in ob["probes"]] if s >= 1000 and idx == 0]
        k = 0
        while k < len(seq_):
            m = k
            while m + 1 < len(seq_) and seq_[m + 1][1] == seq_[m][1] + 1:
                m += 1
            group = seq_[k:m + 1]      # one push: observers 0..m-k
            for (s, j, alive, ll, cur) in group[:-1]:
                if alive:
                    out.append((i, "the hand-driven source still holds a SUBSCRIBED observer (#%d of %d) of an attempt that was given up when it pushes during action %d" % (j, len(group), cur)))
                    break
            k = m + 1
    return out


def ender(rng, p, hot_trigger=None):
    nm = rng.choice(["take", "first", "element_at", "take_while", "contains", "all", "dematerialize", "take_until", "amb", "sequence_equal",
                     "merge_err", "zip_err", "flat_map_err", "retry", "resume", "switch"])
    k = rng.choice([0, 1, 2, 3])
    if nm == "take":
        return op("take", [k], p)
    if nm == "first":
        return op("first", [], p)
    if nm == "element_at":
        return op("element_at", [k], p)
    if nm == "take_while":
        return op("take_while", [rng.choice(scen.PREDS)], p)
    if nm == "contains":
        return op("contains", [rng.choice([1, 2, 3])], p)
    if nm == "all":
        return op("all", [rng.choice(scen.PREDS)], p)
    if nm == "dematerialize":
        return op("dematerialize", [], op("map", [["id"]], p))
    if nm == "take_until":
        return op("take_until", [], p, rng.choice([["just", 1], ["never"], ["empty"], ["cold", 1]] + ([["hot", 0]] if hot_trigger else [])))
    if nm == "amb":
        return op("amb", [], p, rng.choice([["just", 7], ["never"], ["cold", 1], ["empty"]]))
    if nm == "sequence_equal":
        return op("sequence_equal", [], p, rng.choice([["from_iter", 1, 2], ["cold", 1], ["from_iter", 1, 3, 2]]))
    if nm == "merge_err":
        return op("merge", [], p, rng.choice([["error", 3], ["cold", 1]]))
    if nm == "zip_err":
        return op("zip", [], p, rng.choice([["error", 3], ["cold", 1], ["from_iter", 1]]))
    if nm == "flat_map_err":
        return op("flat_map", [["mod"]], p, ["just", 5], ["error", 2], ["cold", 1])
    if nm == "retry":
        return op("retry", [rng.choice([1, 2, 3])], p)
    if nm == "resume":
        return op("on_error_resume_next", [], p, ["just", 8], ["cold", 1])
    return op("switch_on_next", [], p, rng.choice([["just", 4], ["cold", 1], ["never"]]))


def generate(rng, tier, focus):
    cases = []
    thorough = tier == "thorough"
    items = [1, 2, 3]
    for _ in range(9000 if thorough else 1300):
        xs = [rng.choice(items) for _ in range(rng.randrange(0, 7))]
        en = rng.choice(["c", ("e", 5), "s", "c"])
        s0 = scen.script(xs, en)
        if rng.random() < 0.25:   # a source that keeps going after its own terminal
            s0 = s0 + [n(9), rng.choice([C, e(6)])]
        s1 = scen.script([rng.choice(items) for _ in range(rng.randrange(0, 4))], rng.choice(["c", ("e", 7), "s"]))
        p = scen.rand_chain(rng, ["cold", 0], rng.choice([0, 1]))
        p = ender(rng, p)
        p = scen.rand_chain(rng, p, rng.choice([0, 0, 1]))
        reacts = []
        if rng.random() < 0.15:
            reacts.append((rng.randrange(3), ["unsub-self"]))
        atts0 = [s0] if rng.random() < 0.7 else [s0, scen.script([rng.choice(items) for _ in range(3)], rng.choice(["c", ("e", 5)]))]
        cases.append((scn(srcs=[src(atts0, rng.random() < 0.15), src([s1], rng.random() < 0.3)], handles=1, script_=[sub(0, p, *reacts)]), {"k": "cold"}))
    # a synchronous cold source below ref_count / replay, the only subscriber leaves from inside the emission
    for _ in range(1500 if thorough else 250):
        xs = [rng.choice(items) for _ in range(rng.randrange(1, 7))]
        s0 = scen.script(xs, rng.choice(["c", ("e", 5), "s"]))
        kind = rng.choice(["refcount", "replay"])
        p = ender(rng, scen.rand_chain(rng, ["conn", 0], rng.choice([0, 1])))
        if "cold" in sx.dumps(p):
            continue
        reacts = [(rng.randrange(3), ["unsub-self"])] if rng.random() < 0.2 else []
        cases.append((scn(srcs=[src([s0], rng.random() < 0.3)], conns=[[kind, ["cold", 0]]], handles=1, script_=[sub(0, p, *reacts)]), {"k": "conn-cold"}))
    # dematerialize fed with reified terminals that are NOT the source's last act (hand-built material streams)
    for _ in range(1200 if thorough else 200):
        def mat():
            return rng.choice([["mn", rng.choice(items)], ["mn", rng.choice(items)], ["mc"], ["me", 4]])
        ms = [n(mat()) for _ in range(rng.randrange(1, 6))]
        if rng.random() < 0.5:
            p = scen.rand_chain(rng, op("dematerialize", [], ["hot", 0]), rng.choice([0, 0, 1]))
            acts = [sub(0, p)] + [["emit", 0, m] for m in ms] + [["emit", 0, rng.choice([n(["mn", 9]), C])]]
            cases.append((scn(subjects=[["subject"]], handles=1, script_=acts), {"k": "demat-hot"}))
        else:
            p = scen.rand_chain(rng, op("dematerialize", [], ["cold", 0]), rng.choice([0, 0, 1]))
            s0 = ms + rng.choice([[C], [], [n(["mn", 9]), C]])
            cases.append((scn(srcs=[src([s0], True)], handles=1, script_=[sub(0, p)]), {"k": "demat-cold"}))
    # unbounded producers
    for _ in range(400 if thorough else 80):
        p = [rng.choice(["repeat", "from_iter_repeat"]), rng.choice(items)]
        if rng.random() < 0.5:
            p = op(rng.choice(["map", "scan", "tap", "materialize"]), {"map": [["add", 1]], "scan": ["add"], "tap": [0], "materialize": []}[p[0]] if False else [], p) if False else p
        cut = rng.choice([("take", [rng.choice([1, 2, 3])]), ("first", []), ("element_at", [rng.choice([1, 2])]), ("take_while", [["false"]]),
                          ("all", [["false"]]), ("take_until", None), ("amb", None)])
        if cut[0] == "take_until":
            q = op("take_until", [], p, ["just", 1])
        elif cut[0] == "amb":
            q = op("amb", [], ["just", 5], p)
        else:
            q = op(cut[0], cut[1], p)
        cases.append((scn(handles=1, script_=[sub(0, q)]), {"k": "unbounded"}))
    # a failed attempt whose sibling is a LIVE hot source: retry / retry_when / on_error_resume_next resubscribe from inside the error
    # handler; the next attempt (a synchronous cold source) runs, and from inside one of its callbacks the subscriber emits into the
    # hot source: the failed attempt must no longer be listening (its observer left the subject before the next attempt started)
    for _ in range(2500 if thorough else 400):
        multi = rng.choice(["merge", "merge", "zip", "amb", "combine_latest"])
        fail = scen.script([rng.choice(items) for _ in range(rng.randrange(0, 3))], ("e", 5))
        second = scen.script([rng.choice(items) for _ in range(rng.randrange(1, 4))], rng.choice(["c", ("e", 5), "s"]))
        ins = [["hot", 0], ["cold", 0]]
        if rng.random() < 0.3:
            ins.reverse()
        inner = scen.multi_op(rng, multi, ins[0], [ins[1]])
        rec = rng.choice(["retry", "retry", "resume", "retry_when"])
        if rec == "retry":
            p = op("retry", [rng.choice([1, 2])], inner)
        elif rec == "retry_when":
            if second[-1][0] == "e":
                second = second[:-1] + [C]      # (the last attempt repeats: an erroring one would be retried for ever)
            p = op("retry_when", [rng.choice([["always"], ["eq", 5], ["lt", 9]])], inner)
        else:
            p = op("on_error_resume_next", [], inner, op("merge", [], ["hot", 0], ["cold", 1]))
        reacts = [(i, ["emit", 0, n(rng.choice([7, 8]))]) for i in sorted(rng.sample(range(5), rng.choice([1, 1, 2])))]
        acts = [["emit", 0, n(rng.choice(items))] for _ in range(rng.choice([0, 0, 1]))] + [sub(0, p, *reacts)]
        acts += [["emit", 0, rng.choice([n(1), n(2), C, e(3)])] for _ in range(rng.randrange(1, 4))]
        if rng.random() < 0.4:
            acts.insert(rng.randrange(len(acts) - 1, len(acts) + 1), ["unsub", 0])
        cases.append((scn(srcs=[src([fail, second], rng.random() < 0.3), src([second], False)], subjects=[["subject"]], handles=1, script_=acts), {"k": "recover-live-sibling"}))
    # the same with an INSTRUMENTED hot sibling (a hand-driven source that keeps every observer it was handed and records
    # is_subscribed of each of them when it pushes): the push comes from inside a callback of the next attempt, or from the driver
    for _ in range(2500 if thorough else 400):
        multi = rng.choice(["merge", "merge", "zip", "amb", "combine_latest", "flat_map"])
        fail = scen.script([rng.choice(items) for _ in range(rng.randrange(0, 3))], ("e", 5))
        second = scen.script([rng.choice(items) for _ in range(rng.randrange(1, 4))], rng.choice(["c", ("e", 5), "s"]))
        ins = [["manual", 0], ["cold", 0]]
        if rng.random() < 0.3 and multi != "flat_map":
            ins.reverse()
        if multi == "flat_map":      # (the hand-driven source is the outer one: subscribed once per attempt)
            inner = op("flat_map", [["mod"]], ins[0], ins[1], ["just", 4])
        else:
            inner = scen.multi_op(rng, multi, ins[0], [ins[1]])
        rec = rng.choice(["retry", "retry", "resume", "retry_when"])
        if rec == "retry":
            p = op("retry", [rng.choice([1, 2])], inner)
        elif rec == "retry_when":
            if second[-1][0] == "e":
                second = second[:-1] + [C]
            p = op("retry_when", [rng.choice([["always"], ["eq", 5], ["lt", 9]])], inner)
        else:
            p = op("on_error_resume_next", [], inner, op("merge", [], ["manual", 0], ["cold", 1]))
        p = scen.rand_chain(rng, p, rng.choice([0, 0, 1]), names=["map", "filter", "tap", "skip", "take", "materialize"])
        reacts = [(i, ["push", 0, n(rng.choice([7, 8]))]) for i in sorted(rng.sample(range(4), rng.choice([1, 1, 2])))]
        acts = [sub(0, p, *reacts)] + [["push", 0, rng.choice([n(1), n(2), C, e(3)])] for _ in range(rng.randrange(1, 4))]
        if rng.random() < 0.4:
            acts.insert(rng.randrange(len(acts) - 1, len(acts) + 1), ["unsub", 0])
        acts.append(["push", 0, n(9)])
        cases.append((scn(srcs=[src([fail, second], rng.random() < 0.3), src([second], False)], handles=1, script_=acts), {"k": "recover-probed-sibling"}))
    # flat_map whose inner observables churn (three hot inner sources; an older one completes, a newer one is opened while a third
    # is still running), ended by unsubscribe / take / an error: no inner source may keep an observer
    for _ in range(1500 if thorough else 250):
        x, y, z = rng.sample([1, 2, 3], 3)
        val = lambda h: rng.choice([h - 1, h + 2])          # (v mod 3) + 1 == h
        noise = lambda hs: [["emit", rng.choice(hs), n(rng.choice([7, 8, 9]))] for _ in range(rng.choice([0, 0, 1]))]
        evs = [["emit", 0, n(val(x))]] + noise([x]) + [["emit", 0, n(val(y))]] + noise([x, y]) + [["emit", x, C]] + noise([y]) + \
              [["emit", 0, n(val(z))]] + noise([y, z])
        p = op("flat_map", [["mod"]], ["hot", 0], ["hot", 1], ["hot", 2], ["hot", 3])
        how = rng.choice(["unsub", "unsub", "error", "take"])
        if how == "unsub":
            evs.append(["unsub", 0])
        elif how == "error":
            evs.append(["emit", rng.choice([0, z]), e(7)])
        else:
            p = op("take", [sum(1 for a in evs if a[0] == "emit" and a[1] != 0 and a[2][0] == "n") + 1], p)
            evs.append(["emit", z, n(9)])
        cases.append((scn(subjects=[["subject"]] * 4, handles=1, script_=[sub(0, p)] + evs + [["emit", y, n(5)]]), {"k": "flat_map-churn"}))
    # recovery over a SHARED hot source (ref_count of a subject): the resubscription is made from inside the sharing subject's error
    # notification; when the subscriber finally leaves, the source must be released
    for _ in range(1200 if thorough else 200):
        how = rng.choice(["retry", "retry", "retry_when", "resume"])
        if how == "retry":
            p = op("retry", [rng.choice([0, 3])], ["conn", 0])
        elif how == "retry_when":
            p = op("retry_when", [["always"]], ["conn", 0])
        else:
            p = op("on_error_resume_next", [], ["conn", 0], ["conn", 0])
        acts = [sub(0, p)] + [["emit", 0, n(rng.choice(items))] for _ in range(rng.randrange(0, 3))] + [["emit", 0, e(rng.choice([1, 2]))]]
        acts += [["emit", 0, n(rng.choice(items))] for _ in range(rng.randrange(0, 3))]
        acts += rng.choice([[["unsub", 0]], [["unsub", 0]], [["emit", 0, C]]]) + [["emit", 0, n(9)]]
        cases.append((scn(subjects=[["subject"]], conns=[["refcount", ["hot", 0]]], handles=1, script_=acts), {"k": "recover-shared-hot"}))
    # hot sources: subjects must not keep the observer
    kinds = [["subject"], ["behavior", 0], ["replay"], ["async"]]
    for _ in range(5000 if thorough else 700):
        subj = [rng.choice(kinds), rng.choice(kinds)]
        p = scen.rand_chain(rng, ["hot", 0], rng.choice([0, 1]))
        r = rng.random()
        if r < 0.5:
            p = ender(rng, p, hot_trigger=True)
            if "cold" in sx.dumps(p):
                pass
        elif r < 0.8:
            nm = rng.choice(["merge", "zip", "amb", "take_until", "skip_until", "sample", "concat", "switch_on_next", "combine_latest", "sequence_equal"])
            p = scen.multi_op(rng, nm, p, [["hot", 1]])
        p = scen.rand_chain(rng, p, rng.choice([0, 0, 1]))
        acts = [sub(0, p)]
        if rng.random() < 0.4:      # the subjects already have a history when the subscriber arrives (Behavior / Replay hand it over)
            acts = [["emit", rng.randrange(2), n(rng.choice(items))] for _ in range(rng.randrange(1, 4))] + acts
        if rng.random() < 0.3:
            acts.append(sub(1, scen.rand_chain(rng, ["hot", rng.randrange(2)], rng.choice([0, 1]))))
        for _ in range(rng.randrange(2, 8)):
            acts.append(["emit", rng.randrange(2), rng.choice([n(1), n(2), n(3), n(2), C, e(3)])])
        if rng.random() < 0.5:
            first_sub = [i for i, a in enumerate(acts) if a[0] == "sub"][0]
            acts.insert(rng.randrange(first_sub + 1, len(acts) + 1), ["unsub", 0])
        if rng.random() < 0.3:
            acts.append(["unsub", 1])
        s1 = scen.script([rng.choice(items) for _ in range(rng.randrange(0, 4))], rng.choice(["c", ("e", 7), "s"]))
        cases.append((scn(srcs=[src([s1]), src([s1])], subjects=subj, handles=2, script_=acts), {"k": "hot"}))
    import common
    cases += common.conn_stress(rng, 2400 if thorough else 400)
    return cases
