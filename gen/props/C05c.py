"""C05, cross-thread part: sources and subscribers on different threads, unsubscribe racing emissions."""
import sx
import vplib

PID = "C05"
ENGINE = "conc"
RULE = ("an emitter thread (1-2) pushing 2-4 items (and possibly a terminal) into a subject / a raw observer while another thread calls "
        "Subscription::unsubscribe (or drops a utils::Using guard owning the subscription, or calls Observer::unsubscribe), through 0-2 operators, under random / PCT schedules and DFS for the smallest; "
        "no callback may START for a call that began after the unsubscribe call returned, is_subscribed must read false after it; "
        "non-trivial = at least one emission call began after the unsubscribe returned, or overlapped it; distinct = projected observation")
ASSUMPTIONS = ["scheduling points are the facade's lock/condvar/spawn/sleep operations", "user callbacks return"]


def generate(rng, tier, seed):
    thorough = tier == "thorough"
    cases = []
    nrun = 120 if thorough else 40
    chains = [lambda p: p, lambda p: ["op", "map", [["add", 1]], p], lambda p: ["op", "filter", [["true"]], ["op", "map", [["id"]], p]],
              lambda p: ["op", "take", [3], p], lambda p: ["op", "scan", ["add"], p], lambda p: ["op", "distinct_until_changed", [], p]]
    for _ in range(40 if thorough else 12):
        kind = rng.choice([["subject", "subject"], ["subject", "behavior", 0], ["subject", "replay"]])
        pipe = rng.choice(chains)(["hot", 0])
        items = [["next", 0, i + 1] for i in range(rng.randrange(2, 5))]
        if rng.random() < 0.4:
            items.append(rng.choice([["complete", 0], ["error", 0, 5]]))
        # the subscription is ended by Subscription::unsubscribe or by dropping a utils::Using guard that owns it
        threads = [["em"] + items, ["un", rng.choice([["unsub", 0], ["unsub", 0], ["using", 0], ["using-panic", 0]]), ["issub", 0]]]
        if rng.random() < 0.3:
            threads.append(["em2", ["next", 0, 8], ["next", 0, 9]])
        base = seed * 1000 + rng.randrange(1000)
        for sched in (["random", base, nrun], ["pct", 3, base, nrun // 2]):
            cases.append({"scn": ["conc", ["objects", kind, ["pipe", pipe]], ["init", ["sub", 0, 0]], ["threads"] + threads, ["fini", ["issub", 0], ["count", 0]], ["sched"] + sched],
                          "sched": sched, "kind": "subject"})
    # raw observer
    for _ in range(20 if thorough else 6):
        calls = [["onext", 0, i + 1] for i in range(rng.randrange(2, 4))] + ([rng.choice([["ocomplete", 0], ["oerror", 0, 5]])] if rng.random() < 0.5 else [])
        base = seed * 1000 + rng.randrange(1000)
        cases.append({"scn": ["conc", ["objects", ["observer"]], ["init"], ["threads", ["em"] + calls, ["un", ["ounsub", 0], ["oissub", 0]]], ["fini"], ["sched", "random", base, nrun]],
                      "sched": ["random", base, nrun], "kind": "raw"})
    cases.append({"scn": ["conc", ["objects", ["observer"]], ["init"], ["threads", ["em", ["onext", 0, 1], ["onext", 0, 2]], ["un", ["ounsub", 0]]], ["fini"], ["sched", "dfs", 4000], ["want-choices"]],
                  "sched": ["dfs", 4000], "kind": "raw"})
    return cases


def sched_of(case, ob):
    s = case["sched"]
    if s[0] == "random":
        return ["random", ob["seed"], 1]
    if s[0] == "pct":
        return ["pct", s[1], ob["seed"], 1]
    if s[0] == "dfs":
        return ["replay"] + [int(c) for c in ob.get("choices", [])]
    return s


def judge(cases, runs):
    viol, nontriv = [], set()
    for ci, (case, obs) in enumerate(zip(cases, runs)):
        tag = "ocb" if case["kind"] == "raw" else "cb"
        for ob in obs:
            if ob["status"] == "dfs-done":
                continue
            sd = sched_of(case, ob)
            if ob["status"] != "ok" or ob.get("panics", 0):
                viol.append((ci, sd, "run ended with status %s panics %s" % (ob["status"], ob.get("panics"))))
                continue
            unsub_ret = None
            for pos, r in enumerate(ob["ev"]):
                if r[3] == "ret" and r[4][0] in ("unsub", "ounsub", "using", "using-panic") and unsub_ret is None:
                    unsub_ret = pos
            cbs = vplib.callbacks_of(ob, tag)
            if unsub_ret is not None:
                late = [c for c in cbs if c[2] > unsub_ret and str(c[0]) == "0"]
                if late:
                    viol.append((ci, sd, "callback %s started for a call that began after unsubscribe had returned" % sx.dumps(late[0][1])))
                for pos, r in enumerate(ob["ev"]):
                    if pos > unsub_ret and r[3] in ("issub", "oissub") and str(r[5]) == "1":
                        viol.append((ci, sd, "is_subscribed() is true after unsubscribe returned"))
                n_after = len([1 for pos, r in enumerate(ob["ev"]) if pos > unsub_ret and r[3] == "call" and r[4][0] in ("next", "onext", "error", "oerror", "complete", "ocomplete")])
                if n_after:
                    nontriv.add((sx.dumps(case["scn"][1:5]), " ".join(sx.dumps(c[1]) for c in cbs), n_after))
    return {"violations": viol, "unshown": [], "nontrivial": nontriv, "extra": {"conc_case_kinds": vplib._count(c["kind"] for c in cases)}}
