"""C19 - the observer contract also holds when a pipeline's inputs race on different threads."""
import itertools

import sx
import vplib

PID = "C19"
ENGINE = "conc"
RULE = ("(a) raw Observer: 2-3 threads each issuing 1-3 calls of next/error/complete/unsubscribe on one observer, every program with at least "
        "one terminal, half of the random ones with a further thread that polls is_subscribed; small programs exhaustively over all schedules (DFS on the runtime's decisions), the others under random and PCT "
        "schedules; (b) families: merge / zip / amb / flat_map / concat inputs, a source racing the trigger of take_until / skip_until / "
        "sample, and the four subject kinds with next racing error/complete, each fed from 2-3 threads; callbacks are stamped start/return "
        "in log order; non-trivial = an observation (projected to the sequence of callback starts) in which a terminal callback ran and at "
        "least one other call overlapped or followed it; distinct = distinct (scenario, projected observation)")
ASSUMPTIONS = ["scheduling points are the facade's lock/condvar/spawn/sleep operations (sequentially consistent memory)",
               "user callbacks return and do not re-enter the library",
               "the set of observable logs of the raw-observer family is compared with the exhaustively explored log set of the Coq gate model (impl subset of model)"]

CALLS = [["onext", 0, 1], ["onext", 0, 2], ["oerror", 0, 5], ["ocomplete", 0], ["ounsub", 0]]


def gcall(c):
    return {"onext": ["next", c[2]] if c[0] == "onext" else None, "oerror": ["error"], "ocomplete": ["complete"], "ounsub": ["unsub"]}[c[0]]


def raw_case(progs, sched):
    threads = [["t%d" % i] + p for i, p in enumerate(progs)]
    return {"scn": ["conc", ["objects", ["observer"]], ["init"], ["threads"] + threads, ["fini", ["oissub", 0]], ["sched"] + sched] + ([["want-choices"]] if sched[0] == "dfs" else []),
            "kind": "raw", "progs": progs, "sched": sched}


def fam_case(name, objects, init, threads, sched, fini=()):
    return {"scn": ["conc", ["objects"] + objects, ["init"] + init, ["threads"] + threads, ["fini"] + list(fini), ["sched"] + sched],
            "kind": name, "sched": sched}


def generate(rng, tier, seed):
    thorough = tier == "thorough"
    cases = []
    # (a) raw observer, exhaustive for tiny programs
    tiny = []
    for a in CALLS:
        for b in CALLS:
            tiny.append([[a], [b]])
    for a, b, c in itertools.product(CALLS, repeat=3):
        if rng.random() < (0.5 if thorough else 0.12):
            tiny.append([[a, b], [c]])
    for progs in tiny:
        if any(x[0] in ("oerror", "ocomplete") for p in progs for x in p):
            cases.append(raw_case(progs, ["dfs", 4000]))
    for _ in range(400 if thorough else 60):
        nt = rng.choice([2, 3, 3])
        progs = [[rng.choice(CALLS) for _ in range(rng.randrange(1, 4))] for _ in range(nt)]
        if not any(x[0] in ("oerror", "ocomplete") for p in progs for x in p):
            progs[0].append(rng.choice([["oerror", 0, 5], ["ocomplete", 0]]))
        if rng.random() < 0.5:
            # a further thread that only polls is_subscribed (it takes the slots' read locks while the others signal)
            progs = progs + [[["oissub", 0] for _ in range(rng.randrange(2, 5))]]
        cases.append(raw_case(progs, ["random", seed * 1000 + rng.randrange(1000), 120 if thorough else 40]))
        cases.append(raw_case(progs, ["pct", 3, seed * 1000 + rng.randrange(1000), 60 if thorough else 20]))
    # (b) families
    nrun = 150 if thorough else 40
    term = lambda h: rng.choice([["error", h, 5], ["complete", h]])
    for _ in range(30 if thorough else 8):
        for opn in ["merge", "zip", "amb", "concat", "combine_latest"]:
            ps = [] if opn != "combine_latest" else ["list"]
            objs = [["subject", "subject"], ["subject", "subject"], ["pipe", ["op", opn, ps, ["hot", 0], ["hot", 1]]]]
            thr = [["a", ["next", 0, 1], ["next", 0, 2], term(0)], ["b", ["next", 1, 11], term(1), ["next", 1, 12]]]
            rng.shuffle(thr[0][1:])
            cases.append(fam_case(opn, objs, [["sub", 0, 0]], thr, ["random", seed * 1000 + rng.randrange(1000), nrun]))
        objs = [["subject", "subject"], ["subject", "subject"], ["pipe", ["op", "flat_map", [["mod"]], ["hot", 0], ["hot", 1], ["hot", 1]]]]
        cases.append(fam_case("flat_map", objs, [["sub", 0, 0], ["next", 0, 1]],
                              [["a", ["next", 0, 2], term(0)], ["b", ["next", 1, 11], term(1), ["next", 1, 12]]],
                              ["random", seed * 1000 + rng.randrange(1000), nrun]))
        for opn in ["take_until", "skip_until", "sample"]:
            objs = [["subject", "subject"], ["subject", "subject"], ["pipe", ["op", opn, [], ["hot", 0], ["hot", 1]]]]
            thr = [["src", ["next", 0, 1], ["next", 0, 2], term(0), ["next", 0, 3]], ["trg", ["next", 1, 9], ["next", 1, 9], term(1)]]
            cases.append(fam_case(opn, objs, [["sub", 0, 0]], thr, ["random", seed * 1000 + rng.randrange(1000), nrun]))
        for kind in [["subject", "subject"], ["subject", "behavior", 0], ["subject", "replay"], ["subject", "async"]]:
            objs = [kind, ["pipe", ["hot", 0]], ["pipe", ["op", "map", [["id"]], ["hot", 0]]]]
            thr = [["p", ["next", 0, 1], ["next", 0, 2], ["next", 0, 3]], ["q", rng.choice([["error", 0, 5], ["complete", 0]])],
                   ["r", rng.choice([["error", 0, 6], ["complete", 0], ["next", 0, 4]])]]
            cases.append(fam_case("subject-" + kind[1], objs, [["sub", 0, 0], ["sub", 1, 1]], thr, ["random", seed * 1000 + rng.randrange(1000), nrun]))
    return cases


def sched_of(case, ob):
    s = case["sched"]
    if s[0] == "random":
        return ["random", ob["seed"], 1]
    if s[0] == "pct":
        return ["pct", s[1], ob["seed"], 1]
    if s[0] == "dfs":
        return ["replay"] + [int(c) for c in ob.get("choices", [])]
    return s


def kind_of(e):
    return e[0] if isinstance(e, list) else str(e)


def judge(cases, runs):
    viol, unshown, nontriv = [], [], set()
    oracle_in, where = [], []
    model_in, model_idx = [], []
    proj_by_case = {}
    bad_status = {}
    for ci, (case, obs) in enumerate(zip(cases, runs)):
        tag = "ocb" if case["kind"] == "raw" else "cb"
        if case["kind"] == "raw" and case["sched"][0] == "dfs":
            model_in.append(sx.dumps(["progs"] + [["t"] + [gcall(c) for c in p] for p in case["progs"]]))
            model_idx.append(ci)
        for ob in obs:
            if ob["status"] == "dfs-done":
                case["dfs_complete"] = ob["complete"]
                continue
            if ob["status"] != "ok" or ob.get("panics", 0):
                viol.append((ci, sched_of(case, ob), "run ended with status %s panics %s %s" % (ob["status"], ob.get("panics"), ob.get("msg", ""))))
                continue
            cbs = vplib.callbacks_of(ob, tag)
            subs = sorted(set(c[0] for c in cbs))
            for u in subs:
                mine = [c for c in cbs if c[0] == u]
                oracle_in.append(sx.dumps(["cbs"] + [[kind_of(c[1]), c[2] + 1, c[3] + 1, c[4] + 1] for c in mine]))
                where.append((ci, ob))
                proj = " ".join(kind_of(c[1]) + (str(c[1][1]) if kind_of(c[1]) == "n" else "") for c in mine)
                proj_by_case.setdefault(ci, set()).add((u, proj))
                terms = [c for c in mine if kind_of(c[1]) in ("e", "c")]
                if terms and len(mine) >= 1:
                    nontriv.add((sx.dumps(case["scn"][1:5]), u, proj))
    verdicts = vplib.driver_lines(["gate-oracle"], oracle_in) if oracle_in else []
    for v, (ci, ob) in zip(verdicts, where):
        if v != "ok":
            viol.append((ci, sched_of(cases[ci], ob), "observer contract under races violated: " + v))
    # impl subset of model for the raw family (exhaustively explored on both sides)
    covered, total = 0, 0
    if model_in:
        outs = vplib.driver_lines(["gate-explore"], model_in)
        for ci, line in zip(model_idx, outs):
            x = sx.loads(line)
            mset = set(" ".join(l) for l in x[2:])
            iset = set(p for (_, p) in proj_by_case.get(ci, set()))
            total += len(mset)
            covered += len(mset & iset)
            extra = iset - mset
            if extra:
                unshown.append((ci, cases[ci]["sched"], "implementation log(s) %s not among the gate model's logs %s" % (sorted(extra), sorted(mset))))
    extra = {"model_logs_total": total, "model_logs_reached_by_impl": covered,
             "case_kinds": vplib._count(c["kind"] for c in cases),
             "dfs_complete": vplib._count(str(c.get("dfs_complete")) for c in cases if c["sched"][0] == "dfs")}
    return {"violations": viol, "unshown": unshown, "nontrivial": nontriv, "extra": extra}
