"""C07 - no call into the library blocks forever (sequential part: callbacks that re-enter the library on their own thread)."""
import scen
import sx
import vplib
from common import ops_of
from scen import C, e, n, scn, sub

PID = "C07"
CONC_MODULE = "C07c"
ORACLE = "c01"
RULE = ("a subscriber of a Subject / BehaviorSubject / ReplaySubject / AsyncSubject (with and without stored history), of publish / "
        "ref_count / replay over it, or of a 1-2 operator pipeline over it reacts inside its i-th callback (every i in 0..3) by "
        "unsubscribing itself, emitting an item or a terminal into the subject it is being called from, or subscribing a further "
        "observer to it; every driver call must return: an implementation run that has to be killed is a violation (the harness kills a "
        "run that makes no progress); the worklist machine - which holds the history lock across the hand-over callbacks and operator "
        "state locks across their sinks exactly where the code does - must predict the same outcome; non-trivial = a scenario whose "
        "reaction actually fired (the reacting callback index was reached)")
ASSUMPTIONS = ["sequential part; the cross-thread part runs under the scheduling runtime (gen/props/C07c.py)",
               "user callbacks return (the reactions are finite)"]


def nontrivial(sc, ob, verdict):
    # the reaction fired iff the reacting subscriber received more than i callbacks or the run hung
    return ob["out"] == "hang" or len(ob["log"]) >= 2


def classify(sc, ob, verdict):
    if ob["out"] != "hang":
        return None
    om = vplib.parse_obs(vplib.run_model([sx.dumps(sc)])[0])
    if om["out"] == "hang" and "self-deadlock" in om["extra"]:
        return "D14"
    return None


def judge_impl(cases, obs):
    return [(i, "a call into the library did not return (the run had to be killed)") for i, o in enumerate(obs) if o["out"] == "hang"]


KINDS = [["subject"], ["behavior", 0], ["replay"], ["async"]]


def reactions(rng, h, nxt):
    return [["unsub-self"], ["emit", h, n(7)], ["emit", h, C], ["emit", h, e(3)], ["sub", nxt, ["hot", h]]]


def generate(rng, tier, focus):
    thorough = tier == "thorough"
    cases = []
    for _ in range(40 if thorough else 8):
        for kind in KINDS:
            for r in reactions(rng, 0, 1):
                for i in (0, 1, 2, 3):
                    d = rng.choice([0, 0, 1, 2])
                    p = scen.rand_chain(rng, ["hot", 0], d)
                    pre = [["emit", 0, n(rng.choice([1, 2]))] for _ in range(rng.choice([0, 1, 2]))]
                    post = [["emit", 0, n(rng.choice([3, 4, 5]))] for _ in range(rng.randrange(1, 4))] + [["emit", 0, rng.choice([C, e(4)])]]
                    acts = pre + [sub(0, p, (i, r))] + post
                    cases.append((scn(subjects=[kind], handles=2, script_=acts), {"k": "subject-" + r[0] + ("-" + str(r[2][0]) if r[0] == "emit" else "")}))
    # a subscriber that feeds the operator's own (hand-driven) source from inside its callback: operators that hold a state lock
    # across their sink (scan, group_by, window, buffer) against those that do not
    for _ in range(40 if thorough else 8):
        for nm, ps in [("scan", [rng.choice(scen.FN2)]), ("map", [["add", 1]]), ("filter", [["true"]]), ("distinct_until_changed", []),
                       ("group_by", [2]), ("window_with_count", [2]), ("buffer_with_count", [2]), ("take", [3]), ("skip", [1]), ("start_with", [[8]][0])]:
            i = rng.randrange(0, 3)
            p = ["op", nm, ps, ["manual", 0]]
            if rng.random() < 0.3:
                p = scen.rand_chain(rng, p, 1)
            acts = [sub(0, p, (i, ["push", 0, n(rng.choice([5, 6]))]))] + [["push", 0, n(rng.choice([1, 2, 3]))] for _ in range(rng.randrange(1, 4))] + [["push", 0, C]]
            cases.append((scn(handles=1, script_=acts), {"k": "feedback-" + nm}))
    # ... and the same for the operators with several inputs over plain Subjects: the subscriber answers an item by pushing into one of
    # the operator's inputs (request / response ping-pong over zip, combine_latest, merge, ...): an operator that delivers while it
    # holds its state lock makes that push wait for its own thread
    for _ in range(120 if thorough else 24):
        nm = rng.choice(["zip", "zip", "combine_latest", "merge", "sequence_equal", "sample", "take_until", "skip_until", "amb", "switch_on_next"])
        p = scen.multi_op(rng, nm, ["hot", 0], [["hot", 1]])
        i = rng.randrange(0, 2)
        acts = [sub(0, p, (i, ["emit", rng.randrange(2), n(rng.choice([5, 6]))]))]
        for _k in range(rng.randrange(2, 6)):
            acts.append(["emit", rng.randrange(2), n(rng.choice([1, 2, 3]))])
        acts += [["emit", 0, C], ["emit", 1, C]]
        cases.append((scn(subjects=[["subject"], ["subject"]], handles=1, script_=acts), {"k": "feedback-multi"}))
    # an unbounded synchronous producer shared through ref_count / replay below an operator whose subscription has already ended when it
    # gets to subscribe it: the producer must not be started (nobody could ever stop it)
    for _ in range(20 if thorough else 6):
        for ck in ["refcount", "replay"]:
            v = rng.choice([1, 2])
            shapes = [["op", "take_until", [], ["conn", 0], ["just", 1]],
                      ["op", "merge", [], ["error", 3], ["conn", 0]],
                      ["op", "zip", [], ["error", 3], ["conn", 0]]]
            if ck == "refcount":
                # (under replay() an endless synchronous source never lets the subscriber reach its replay: connect does not return, by design)
                shapes += [["op", "take", [rng.choice([1, 2])], ["conn", 0]], ["op", "amb", [], ["just", 5], ["conn", 0]]]
            for p in shapes:
                if rng.random() < 0.3:
                    p = scen.rand_chain(rng, p, 1, names=["map", "filter", "take", "skip"])
                cases.append((scn(conns=[[ck, ["repeat", v]]], handles=1, script_=[sub(0, p)]), {"k": "shared-unbounded"}))
    # unbounded synchronous producers (repeat, from_iter over an endless iterator) cut by an operator that has all it needs, directly
    # and behind further operators: subscribe() must return
    for _ in range(12 if thorough else 3):
        for srcp in (["repeat", rng.choice([1, 2])], ["from_iter_repeat", rng.choice([1, 2])]):
            for cut in (["take", [rng.choice([1, 2, 3])]], ["first", []], ["element_at", [rng.choice([1, 2])]], ["take_while", [["false"]]],
                        ["contains", [srcp[1]]], ["all", [["false"]]], ["take_until", None], ["amb", None]):
                p = srcp
                if rng.random() < 0.4:
                    p = scen.rand_chain(rng, p, 1, names=["map", "filter", "scan", "tap", "distinct_until_changed", "skip"])
                    if "filter" in sx.dumps(p) or "distinct_until_changed" in sx.dumps(p):
                        p = srcp       # (an operator that may drop every item of a constant stream spins by design)
                    if cut[0] == "contains" and ("map" in sx.dumps(p) or "scan" in sx.dumps(p)):
                        p = srcp       # (contains(v) over a stream whose values were changed never finds v: spins by design)
                if cut[0] == "take_until":
                    q = ["op", "take_until", [], p, ["just", 1]]
                elif cut[0] == "amb":
                    q = ["op", "amb", [], ["just", 5], p]
                else:
                    q = ["op", cut[0], cut[1], p]
                cases.append((scn(handles=1, script_=[sub(0, q)]), {"k": "unbounded-cut"}))
    # ref_count / replay / publish over a SYNCHRONOUS cold source: a callback subscribes the same shared observable again while the first subscriber's subscribe is still connecting and running the source
    for _ in range(30 if thorough else 8):
        for ck in ["refcount", "replay"]:
            s0 = scen.script([rng.choice([1, 2, 3]) for _ in range(rng.randrange(1, 4))], rng.choice(["c", "c", ("e", 5)]))
            i = rng.randrange(0, 3)
            # (through a callback only: one subscriber registered TWICE at the same subject - flat_map back onto the shared
            # observable - receives the two feeds in the subject's hash-map order, which no model can predict)
            acts = [sub(0, ["conn", 0], (i, ["sub", 1, ["conn", 0]]))]
            cases.append((scn(srcs=[scen.src([s0, s0], False)], conns=[[ck, ["cold", 0]]], handles=2, script_=acts), {"k": "conn-cold-nested-" + ck}))
    # connectables over a hot source
    for _ in range(60 if thorough else 12):
        for ck in ["publish", "refcount", "replay"]:
            r = rng.choice(reactions(rng, 0, 1)[:4] + [["sub", 1, ["conn", 0]]])
            i = rng.randrange(0, 3)
            acts = [sub(0, ["conn", 0], (i, r))]
            if ck == "publish":
                acts.append(["connect", 0, 0])
            acts += [["emit", 0, n(rng.choice([1, 2, 3]))] for _ in range(rng.randrange(1, 4))] + [["emit", 0, rng.choice([C, e(4)])]]
            cases.append((scn(subjects=[["subject"]], conns=[[ck, ["hot", 0]]], handles=2, script_=acts), {"k": "conn-" + ck}))
    return cases


def run(tier, seed):
    import sys
    import C07c
    return vplib.run_both(sys.modules[__name__], C07c, tier, seed)
