"""C03 - combining operators interleave, pair and switch their inputs as defined."""
import itertools

import scen
import vplib
import sx
from common import ops_of
from scen import C, e, n, op, scn, src, sub

PID = "C03"
ORACLE = "c03"
TIE_ORACLES = ["c03m"]     # implementation = MLoc (the local semantics of the handler table the operator theorems are about)
RULE = ("1-4 sources per combining operator (merge, zip, amb, take_until, skip_until, sample, combine_latest, sequence_equal judged against "
        "their ReactiveX definition; concat, flat_map, switch_on_next, on_error_resume_next and nestings with C02 operators judged by the "
        "three-way correspondence with the model): hot sources driven step by step - every interleaving of scripts of total length <= 4 "
        "(thorough: 5) over {n1,n2,c,e} for two sources exhaustively, random interleavings for 3-4 sources - and cold sources that run to "
        "completion at subscribe time; non-trivial = the oracle applies and at least two sources signalled; distinct = distinct scenario")
ASSUMPTIONS = ["hot sources are plain Subjects: what a source emits after its own terminal does not exist",
               "zip completes when all inputs have completed (crate convention, DESIGN 1.2); the trigger's own terminal does not end take_until/skip_until/sample",
               "subscription order of cold sources is the crate's (source first, then the others in order; trigger before stream)"]

SPEC_OPS = ["merge", "zip", "amb", "take_until", "skip_until", "sample", "concat", "on_error_resume_next", "combine_latest", "sequence_equal"]


def nontrivial(sc, ob, verdict):
    if verdict == "skip":
        return False
    srcs = set()
    for a in sx.field(sc[1:], "script"):
        if a[0] == "emit":
            srcs.add(a[1])
    cold = [s for s in sx.field(sc[1:], "srcs") if any(p and p[0] == "att" and len(p) > 1 for p in s)]
    return len(srcs) >= 2 or len(cold) >= 2


def classify(sc, ob, verdict):
    """the two recorded findings are mirrored by the model (combine_latest is written there as zip + map, sequence_equal as the
    comparison of the zipped prefix, exactly as in the crate): a failing observation belongs to D9 / D10 only if the MODEL
    produces the very same observation - anything else on these operators is a new violation"""
    ops = ops_of(sc)
    if "combine_latest" not in ops and "sequence_equal" not in ops:
        return None
    om = vplib.parse_obs(vplib.run_model([sx.dumps(sc)])[0])
    if vplib.project_default(om) != vplib.project_default(ob):
        return None
    return "D9" if "combine_latest" in ops else "D10"


def judge_impl(cases, obs):
    out = []
    for i, ((sc, info), ob) in enumerate(zip(cases, obs)):
        if info.get("k") == "sequence_equal3" and ob["out"] == "ok":
            evs = [sx.dumps(x[2]) for x in ob["log"] if x[0] == "t0"]
            want = ["(n (b %s))" % ("1" if info["want"] == "t" else "0"), "(c)"]
            if evs != want and evs != [w.replace("(b 1)", "true").replace("(b 0)", "false") for w in want]:
                out.append((i, "sequence_equal over three completing sources of equal length that are %s delivered %s" % ("identical" if info["want"] == "t" else "NOT identical", " ".join(evs))))
        if info.get("k") != "feedback" or info.get("op") != "switch_on_next" or ob["out"] != "ok":
            continue
        vals = [int(x[2][1]) for x in ob["log"] if x[0] == "t0" and x[2][0] == "n"]
        seen_target = False
        for v in vals:
            if v >= 100:
                seen_target = True
            elif seen_target:
                out.append((i, "switch_on_next delivered the source's item %d after an item of the target had come through: %s" % (v, vals)))
                break
    return out


def mk_hot(opn, nsrc, emits, rng):
    ps = [] if opn != "combine_latest" else [rng.choice(["list", "sum"])]
    p = op(opn, ps, ["hot", 0], *[["hot", j] for j in range(1, nsrc)])
    return scn(subjects=[["subject"]] * nsrc, handles=1, script_=[sub(0, p)] + [["emit", h, ev] for (h, ev) in emits])


def generate(rng, tier, focus):
    thorough = tier == "thorough"
    cases = []
    alpha = [n(1), n(2), C, e(7)]
    L = 5 if thorough else 4
    # two hot sources, every interleaving up to length L
    evs = [(h, ev) for h in (0, 1) for ev in alpha]
    for opn in SPEC_OPS:
        for k in range(1, L + 1):
            for t in itertools.product(evs, repeat=k):
                if k >= 4 and rng.random() > (0.35 if thorough else 0.12):
                    continue
                cases.append((mk_hot(opn, 2, list(t), rng), {"k": "hot2"}))
    # 3-4 hot sources, random interleavings
    for _ in range(6000 if thorough else 900):
        opn = rng.choice(["merge", "zip", "amb", "combine_latest"])
        ns = rng.choice([3, 3, 4])
        t = [(rng.randrange(ns), rng.choice([n(1), n(2), n(3), n(2), C, e(7)])) for _ in range(rng.randrange(3, 10))]
        cases.append((mk_hot(opn, ns, t, rng), {"k": "hot34"}))
    # cold sources: run to completion at subscribe time
    for _ in range(5000 if thorough else 800):
        opn = rng.choice(SPEC_OPS)
        ns = 2 if opn in ("take_until", "skip_until", "sample", "sequence_equal") else rng.choice([1, 2, 2, 3, 4])
        scripts = [scen.script([rng.choice([1, 2, 3]) for _ in range(rng.randrange(0, 4))], rng.choice(["c", "c", ("e", 5), "s"])) for _ in range(ns)]
        ps = [] if opn != "combine_latest" else [rng.choice(["list", "sum"])]
        p = op(opn, ps, ["cold", 0], *[["cold", j] for j in range(1, ns)])
        cases.append((scn(srcs=[src([s], False) for s in scripts], handles=1, script_=[sub(0, p)]), {"k": "cold"}))
    # dynamic / crate-specific operators and nestings: three-way correspondence only
    for _ in range(5000 if thorough else 800):
        opn = rng.choice(["concat", "flat_map", "switch_on_next", "merge", "zip", "amb", "take_until", "skip_until", "sample", "on_error_resume_next"])
        hot = rng.random() < 0.6
        if hot:
            a = scen.rand_chain(rng, ["hot", 0], rng.choice([0, 1]))
            b = scen.rand_chain(rng, ["hot", 1], rng.choice([0, 1]))
            p = scen.rand_chain(rng, scen.multi_op(rng, opn, a, [b, ["hot", 2]][: rng.choice([1, 2])]), rng.choice([0, 1]))
            acts = [sub(0, p)] + [["emit", rng.randrange(3), rng.choice([n(1), n(2), n(3), C, e(7)])] for _ in range(rng.randrange(2, 9))]
            cases.append((scn(subjects=[["subject"]] * 3, handles=1, script_=acts), {"k": "nest-hot"}))
        else:
            scripts = [scen.script([rng.choice([1, 2, 3]) for _ in range(rng.randrange(0, 4))], rng.choice(["c", "c", ("e", 5), "s"])) for _ in range(3)]
            a = scen.rand_chain(rng, ["cold", 0], rng.choice([0, 1]))
            b = scen.rand_chain(rng, ["cold", 1], rng.choice([0, 1]))
            p = scen.rand_chain(rng, scen.multi_op(rng, opn, a, [b, ["cold", 2]][: rng.choice([1, 2])]), rng.choice([0, 1]))
            cases.append((scn(srcs=[src([s, s], False) for s in scripts], handles=1, script_=[sub(0, p)]), {"k": "nest-cold"}))
    # dynamic operators over hot sources: every interleaving of short scripts (judged by the three-way correspondence)
    ev3 = [(h, ev) for h in (0, 1, 2) for ev in (n(1), n(2), C, e(7))]
    for opn, ps, others in [("flat_map", [["mod"]], [["hot", 1], ["hot", 2]]), ("concat", [], [["hot", 1], ["hot", 2]]),
                            ("switch_on_next", [], [["hot", 1]]), ("on_error_resume_next", [], [["hot", 1], ["hot", 2]]),
                            ("flat_map", [["mod"]], [["hot", 1], ["just", 5]])]:
        p = op(opn, ps, ["hot", 0], *others)
        for k in range(2, (5 if thorough else 4) + 1):
            for t in itertools.product(ev3, repeat=k):
                if rng.random() > ((0.08 if thorough else 0.03) if k >= 4 else (0.5 if k == 3 else 1.0)):
                    continue
                cases.append((scn(subjects=[["subject"]] * 3, handles=1, script_=[sub(0, p)] + [["emit", h, ev] for (h, ev) in t]), {"k": "dyn-hot"}))
    # sequence_equal over THREE completing sources of equal length (so that the known prefix-comparison finding D10 does not apply):
    # true iff all three emitted the same sequence - a deviation of the middle one included
    for _ in range(900 if thorough else 150):
        base_ = [rng.choice([1, 2, 3]) for _ in range(rng.randrange(1, 4))]
        seqs = [list(base_), list(base_), list(base_)]
        if rng.random() < 0.6:
            who = rng.choice([0, 1, 1, 2])
            pos = rng.randrange(len(base_))
            seqs[who][pos] = seqs[who][pos] % 3 + 1
        srcs_ = [src([scen.script(q, "c")], False) for q in seqs]
        p = op("sequence_equal", [], ["cold", 0], ["cold", 1], ["cold", 2])
        cases.append((scn(srcs=srcs_, handles=1, script_=[sub(0, p)]), {"k": "sequence_equal3", "want": "t" if seqs[0] == seqs[1] == seqs[2] else "f"}))
    # feedback: the subscriber, from inside its i-th callback, emits into one of the operator's hot sources (the operator is
    # re-entered while it is delivering); judged by the correspondence, and for switch_on_next by its rule: once the target has
    # emitted, nothing of the source comes through any more
    for _ in range(3000 if thorough else 450):
        opn = rng.choice(["switch_on_next", "switch_on_next", "merge", "amb", "take_until", "skip_until", "sample", "concat", "zip"])
        p = scen.multi_op(rng, opn, ["hot", 0], [["hot", 1]])
        i = rng.randrange(0, 3)
        fh = rng.choice([0, 1])
        fb = (i, ["emit", fh, n(100 * fh + rng.choice([70, 80]))])          # (items of source h are 100*h + v)
        evs = []
        for _ in range(rng.randrange(2, 7)):
            h = rng.choice([0, 1])
            evs.append(["emit", h, rng.choice([n(100 * h + 1), n(100 * h + 2), n(100 * h + 3), n(100 * h + 4), C])])
        cases.append((scn(subjects=[["subject"]] * 2, handles=1, script_=[sub(0, p, fb)] + evs), {"k": "feedback", "op": opn}))
    # flat_map whose set of inner observables CHURNS: three hot inner sources, opened by outer items (value mod 3), completing at
    # random moments while others are still running and further ones are opened afterwards (the registration of a running inner
    # observable must survive the departure of an older one and the arrival of a newer one)
    for _ in range(6000 if thorough else 900):
        evs = []
        for _ in range(rng.randrange(5, 11)):
            r = rng.random()
            if r < 0.4:
                evs.append(["emit", 0, n(rng.choice([0, 1, 2, 3, 4, 5]))])
            elif r < 0.7:
                evs.append(["emit", rng.choice([1, 2, 3]), n(rng.choice([7, 8, 9]))])
            elif r < 0.9:
                evs.append(["emit", rng.choice([1, 2, 3]), C])
            else:
                evs.append(["emit", 0, rng.choice([C, C, e(7)])])
        p = op("flat_map", [["mod"]], ["hot", 0], ["hot", 1], ["hot", 2], ["hot", 3])
        if rng.random() < 0.2:
            p = scen.rand_chain(rng, p, 1, names=["map", "filter", "take", "skip"])
        cases.append((scn(subjects=[["subject"]] * 4, handles=1, script_=[sub(0, p)] + evs), {"k": "flat_map-churn"}))
    # ... directed: a and b are opened, a completes, c is opened (on a third source), b completes, the outer source completes,
    # and only then c emits and completes - with random further items in between
    for _ in range(1200 if thorough else 200):
        x, y, z = rng.sample([1, 2, 3], 3)
        val = lambda h: rng.choice([h - 1, h + 2])          # (v mod 3) + 1 == h
        noise = lambda hs: [["emit", rng.choice(hs), n(rng.choice([7, 8, 9]))] for _ in range(rng.choice([0, 0, 1]))]
        evs = [["emit", 0, n(val(x))]] + noise([x]) + [["emit", 0, n(val(y))]] + noise([x, y]) + [["emit", x, C]] + noise([y]) + \
              [["emit", 0, n(val(z))]] + noise([y, z]) + [["emit", y, C]] + noise([z]) + [["emit", 0, C]] + \
              [["emit", z, n(rng.choice([7, 8, 9]))], ["emit", z, rng.choice([C, e(7)])]]
        p = op("flat_map", [["mod"]], ["hot", 0], ["hot", 1], ["hot", 2], ["hot", 3])
        cases.append((scn(subjects=[["subject"]] * 4, handles=1, script_=[sub(0, p)] + evs), {"k": "flat_map-churn-directed"}))
    return cases
