"""C08 - scheduler queue: FIFO, one task at a time, each at most once, clean stop."""
import sx
import vplib

PID = "C08"
ENGINE = "conc"
RULE = ("[bursts of 40-300 posts from one client under PCT] 1-3 client threads issuing up to 4 post/abort calls each on one new-thread scheduler, tasks that themselves post or abort or "
        "sleep, under random / PCT schedules and exhaustive DFS for the smallest instances, with spurious wake-ups switched on for part "
        "of the runs; every observed call/return + task start/end history must be a linearisation accepted by the extracted queue "
        "transition system (Wing-Gong search), tasks must run on one thread that is not a posting thread, never two at once; the worker "
        "must be gone at quiescence iff an abort was issued; the default scheduler must run the task inside post; non-trivial = a history "
        "with at least two posts from different threads or an abort overlapping a post or a task; distinct = distinct abstract history")
ASSUMPTIONS = ["scheduling points are the facade's lock/condvar/spawn/sleep operations",
               "tasks return; the worker thread is identified as the crate-spawned (unnamed) thread"]


def post(t, *body):
    return ["post", 0, t] + list(body)


def generate(rng, tier, seed):
    thorough = tier == "thorough"
    cases = []
    tid = [0]

    def fresh():
        tid[0] += 1
        return tid[0]

    def body(depth=0):
        r = rng.random()
        if r < 0.5 or depth > 0:
            return []
        if r < 0.7:
            return [post(fresh())]
        if r < 0.85:
            return [["abort", 0]]
        return [["sleep", rng.choice([1, 2])]]

    def script(n):
        out = []
        for _ in range(n):
            if rng.random() < 0.78:
                out.append(post(fresh(), *body()))
            else:
                out.append(["abort", 0])
        return out

    def mk(threads, init, fini, sched, spurious=False, kind="new_thread"):
        scn = ["conc", ["objects", ["sched", kind]], ["init"] + init, ["threads"] + threads, ["fini"] + fini, ["sched"] + sched]
        if spurious:
            scn.append(["spurious"])
        if sched[0] == "dfs":
            scn.append(["want-choices"])
        return {"scn": scn, "sched": sched, "kind": kind}

    # smallest instances, all schedules
    for _ in range(24 if thorough else 8):
        tid[0] = 0
        cases.append(mk([["a", post(fresh())], ["b", rng.choice([post(fresh()), ["abort", 0]])]], [], [], ["dfs", 2500]))
    for _ in range(400 if thorough else 70):
        tid[0] = 0
        nt = rng.choice([1, 2, 2, 3])
        threads = [["c%d" % i] + script(rng.randrange(1, 5)) for i in range(nt)]
        init = script(rng.choice([0, 0, 1]))
        fini = rng.choice([[], [["sleep", 5]], [["sleep", 5], ["abort", 0]], [["abort", 0]]])
        base = seed * 1000 + rng.randrange(1000)
        cases.append(mk(threads, init, fini, ["random", base, 60 if thorough else 25], spurious=rng.random() < 0.4))
        cases.append(mk(threads, init, fini, ["pct", 3, base, 30 if thorough else 10]))
    # bursts: one client posts 40-300 plain tasks while the worker lags behind (PCT gives a client priority in part of the
    # schedules), then the queue is left to drain or aborted: whatever bound or batching the queue uses must not show
    for nb in ([40, 130, 300] if thorough else [40, 300]):      # (the linearisation search of queue-accept grows steeply beyond this)
        for fini in ([[], [["sleep", 5], ["abort", 0]]] if thorough else [[]]):
            tid[0] = 0
            nt = 1      # (one client: with two, the linearisation search has to guess the order of every overlapping pair of posts)
            threads = [["c%d" % i] + [post(fresh()) for _ in range(nb // nt)] for i in range(nt)]
            base = seed * 1000 + rng.randrange(1000)
            cases.append(mk(threads, [], fini, ["pct", 3, base, 8 if thorough else 4]))
            cases.append(mk(threads, [], fini, ["random", base, 4 if thorough else 2]))
    # a task that posts from INSIDE the worker while a large backlog is queued behind it (a queue that makes posters wait must not
    # make the worker wait for itself)
    for nb in ([100, 300] if thorough else [300]):
        tid[0] = 0
        first = post(fresh(), ["sleep", 1], post(fresh()))        # (while the task sleeps the client posts the whole backlog)
        threads = [["c0", first] + [post(fresh()) for _ in range(nb)]]
        base = seed * 1000 + rng.randrange(1000)
        cases.append(mk(threads, [], [], ["pct", 3, base, 8 if thorough else 4]))
    # the scenario's own handle of the scheduler is dropped (no abort) while tasks are queued: they still run
    for _ in range(12 if thorough else 4):
        tid[0] = 0
        k = rng.randrange(2, 6)
        threads = [["c0", post(fresh(), ["sleep", rng.choice([1, 2])])] + [post(fresh()) for _ in range(k)] + [["drop-sched", 0]]]
        base = seed * 1000 + rng.randrange(1000)
        cases.append(mk(threads, [], [], ["random", base, 40 if thorough else 15]))
        cases.append(mk(threads, [], [], ["pct", 3, base, 20 if thorough else 8]))
    # a task whose closure owns a resource guard: when the scheduler lets go of the finished task the guard's destructor - user code
    # running on the worker thread between two tasks - posts the clean-up task (or aborts): the scheduler must not be holding its
    # queue while it drops a task
    for _ in range(12 if thorough else 5):
        tid[0] = 0
        g = ["post-guarded", 0, fresh(), rng.choice([post(fresh()), post(fresh()), ["abort", 0]])]
        threads = [["c0"] + [post(fresh()) for _ in range(rng.randrange(0, 2))] + [g] + [post(fresh()) for _ in range(rng.randrange(0, 3))]]
        if rng.random() < 0.4:
            threads.append(["c1", post(fresh())])
        base = seed * 1000 + rng.randrange(1000)
        cases.append(mk(threads, [], [], ["random", base, 30 if thorough else 12]))
        cases.append(mk(threads, [], [], ["pct", 3, base, 16 if thorough else 6]))
    # two schedulers: a task running on A's worker posts to B, whose worker is parked on its empty queue (a wake-up that is skipped
    # "because the poster is a worker thread" is lost: the flag is per thread, not per queue)
    for _ in range(10 if thorough else 4):
        base = seed * 1000 + rng.randrange(1000)
        scn = ["conc", ["objects", ["sched", "new_thread"], ["sched", "new_thread"]], ["init", ["post", 1, 1]],
               ["threads", ["c0", ["sleep", 5], ["post", 0, 2, ["post", 1, 3]], ["sleep", 5], ["post", 0, 4, ["post", 1, 5], ["post", 1, 6]]]], ["fini", ["sleep", 5]],
               ["sched", "random", base, 12 if thorough else 6]]
        cases.append({"scn": scn, "sched": ["random", base, 12 if thorough else 6], "kind": "new_thread", "two": True})
    # default scheduler: post runs the task synchronously
    for _ in range(20 if thorough else 6):
        tid[0] = 0
        cases.append(mk([["a"] + script(3), ["b"] + script(2)], [], [], ["random", seed * 1000 + rng.randrange(1000), 10], kind="default"))
    return cases


def sched_of(case, ob):
    s = case["sched"]
    if s[0] == "random":
        return ["random", ob["seed"], 1]
    if s[0] == "pct":
        return ["pct", s[1], ob["seed"], 1]
    if s[0] == "dfs":
        return ["replay"] + [int(c) for c in ob.get("choices", [])]
    return s


def abstract(ob, sched=None):
    """cobs -> (abstract history, worker tids, per-task (start pos, end pos, tid)); sched: only the events of that scheduler object"""
    hist, tasks, order = [], {}, []
    owner = {}
    for r in ob["ev"]:
        if r[3] == "call" and r[4][0] in ("post", "post-guarded"):
            owner[str(r[4][2])] = str(r[4][1])
    mine = lambda t: sched is None or owner.get(str(t)) == str(sched)
    for pos, r in enumerate(ob["ev"]):
        tid, tag = r[2], r[3]
        if tag in ("call", "ret"):
            a = r[4]
            if a[0] in ("post", "post-guarded"):
                if mine(a[2]):
                    hist.append([tag, tid, "post", a[2]])
            elif a[0] == "abort":
                if sched is None or str(a[1]) == str(sched):
                    hist.append([tag, tid, "stop"])
        elif tag in ("task-start", "task-end") and not mine(r[4]):
            continue
        elif tag == "task-start":
            hist.append(["start", r[4]])
            tasks[r[4]] = [pos, None, tid]
            order.append(r[4])
        elif tag == "task-end":
            hist.append(["end", r[4]])
            if r[4] in tasks:
                tasks[r[4]][1] = pos
    return hist, tasks, order


def judge(cases, runs):
    viol, unshown, nontriv = [], [], set()
    acc_in, where = [], []
    for ci, (case, obs) in enumerate(zip(cases, runs)):
        for ob in obs:
            if ob["status"] == "dfs-done":
                case["dfs_complete"] = ob["complete"]
                continue
            sd = sched_of(case, ob)
            if ob["status"] != "ok" or ob.get("panics", 0):
                viol.append((ci, sd, "run ended with status %s panics %s %s: a call into the scheduler did not return" % (ob["status"], ob.get("panics"), ob.get("msg", ""))))
                continue
            if case.get("two"):
                # two schedulers, no abort: each one's history is judged on its own; both workers are parked at quiescence
                for sidx in (0, 1):
                    h2, t2, _o = abstract(ob, sidx)
                    acc_in.append(sx.dumps(["hist", "waiting"] + h2))
                    where.append((ci, sd, h2, "waiting"))
                    nontriv.add(sx.dumps(h2) + "two")
                continue
            hist, tasks, order = abstract(ob)
            names = set(n[0] for n in ob["names"])
            if case["kind"] == "default":
                # the task runs inside post, on the posting thread
                stack = {}
                ok = True
                for h in hist:
                    pass
                for t, (sp, ep, tid) in tasks.items():
                    calls = [p for p, r in enumerate(ob["ev"]) if r[3] == "call" and r[4][0] == "post" and str(r[4][2]) == str(t)]
                    rets = [p for p, r in enumerate(ob["ev"]) if r[3] == "ret" and r[4][0] == "post" and str(r[4][2]) == str(t)]
                    if not calls or not rets or not (calls[0] < sp < (ep or 10 ** 9) < rets[0]) or ob["ev"][calls[0]][2] != tid:
                        viol.append((ci, sd, "default scheduler: task %s did not run synchronously inside post" % t))
                posted = [h[3] for h in hist if h[0] == "call" and h[2] == "post"]
                if sorted(map(str, posted)) != sorted(map(str, tasks.keys())):
                    viol.append((ci, sd, "default scheduler: posted %s ran %s" % (posted, list(tasks.keys()))))
                continue
            # "every task posted before abort is either run or discarded by abort": a task whose post() had returned before an abort()
            # began and that never started must have been let go of (its closure destroyed) during the run - not kept in a queue
            # that nobody will ever look at again
            dropped = set(str(r[4]) for r in ob["ev"] if r[3] == "task-drop")
            post_ret = {str(r[4][2]): pos for pos, r in enumerate(ob["ev"]) if r[3] == "ret" and r[4][0] in ("post", "post-guarded")}
            aborts = [pos for pos, r in enumerate(ob["ev"]) if r[3] == "call" and r[4][0] == "abort"]
            abort_rets = [pos for pos, r in enumerate(ob["ev"]) if r[3] == "ret" and r[4][0] == "abort"]
            if aborts and len(abort_rets) == len(aborts):
                kept = [t for t, pos in post_ret.items() if pos < aborts[-1] and t not in [str(x) for x in tasks] and t not in dropped]
                if kept:
                    viol.append((ci, sd, "task(s) %s were posted before an abort, never ran and were never discarded (their closures are still owned by the scheduler at quiescence)" % sorted(kept)))
            wtids = set(v[2] for v in tasks.values())
            if len(wtids) > 1:
                viol.append((ci, sd, "tasks ran on more than one thread: %s" % sorted(wtids)))
            if wtids & names:
                viol.append((ci, sd, "a task ran on a posting thread"))
            # one at a time (also implied by acceptance)
            live_workers = [l for l in ob["live"] if l[0] not in names]
            final = "exited"
            if live_workers:
                final = "waiting" if str(live_workers[0][1]).startswith("WaitingCondvar") else "running"
            acc_in.append(sx.dumps(["hist", final] + hist))
            where.append((ci, sd, hist, final))
            posters = set(h[1] for h in hist if h[0] == "call")
            if len(posters) >= 2 or any(h[0] == "call" and h[2] == "stop" for h in hist):
                nontriv.add(sx.dumps(hist) + final)
    verdicts = vplib.driver_lines(["queue-accept"], acc_in) if acc_in else []
    gaveup = 0
    for v, (ci, sd, hist, final) in zip(verdicts, where):
        if v == "giveup":
            gaveup += 1          # the linearisation search ran out of its budget: this history is not judged (counted in the evidence)
            continue
        if v != "ok":
            viol.append((ci, sd, "history not accepted by the queue transition system (final worker state %s): %s" % (final, sx.dumps(hist))))
    extra = {"histories_checked_by_linearisation": len(acc_in) - gaveup, "linearisation_search_gave_up": gaveup, "case_kinds": vplib._count(c["kind"] + "/" + c["sched"][0] for c in cases),
             "dfs_complete": vplib._count(str(c.get("dfs_complete")) for c in cases if c["sched"][0] == "dfs")}
    return {"violations": viol, "unshown": unshown, "nontrivial": nontriv, "extra": extra}
