"""C17, thread part: items and callbacks held by scheduler queues / worker threads are released when the subscription ends."""
import sx
import vplib
import C15

PID = "C17"
ENGINE = "conc"
RULE = ("the thread-backed operators and sources of C15's catalogue (observe_on, subscribe_on, delay, debounce, timeout, sample, interval, "
        "timer and nestings, ended by complete / error / unsubscribe / take downstream) plus slow consumers behind observe_on / delay whose "
        "backlog of queued items is still waiting when the subscription ends, under random / PCT schedules in virtual time; every emitted "
        "item and every callback / operator closure carries a drop-counted token; judged at quiescence when the run ended normally, no "
        "thread is left, every subscription has ended and every handle of the scenario has been dropped: no token may be left alive; "
        "non-trivial = a judged run in which a worker thread was started; distinct = distinct (pipeline, ending)")
ASSUMPTIONS = ["scheduling points are the facade's lock/condvar/spawn/sleep operations; a finished thread has dropped its closure (FnOnce consumed inside the controlled thread body)",
               "tokens of earlier runs of the same process whose threads are parked for ever are constant: the count is taken relative to the start of the run"]


def generate(rng, tier, seed):
    thorough = tier == "thorough"
    cases = []
    runs = 10 if thorough else 4
    for _ in range(4 if thorough else 1):
        for entry in C15.catalogue(rng):
            nm, pipe, period, cause = entry[:4]
            extra_objs = entry[4] if len(entry) > 4 else []
            threads = [["u", ["sleep", rng.choice([0, 1, period + 1, 2 * period + 1])], ["unsub", 0]]] if cause == "unsub" else []
            scn = ["conc", ["objects"] + extra_objs + [["pipe", pipe]], ["init", ["sub", 0, 0]], ["threads"] + threads, ["fini"],
                   ["sched", "random", seed * 1000 + rng.randrange(1000), runs]]
            cases.append({"scn": scn, "name": nm + ("+unsub" if cause and "unsub" not in nm else "")})
        for nm, pipe, period, emit, cause in C15.hot_catalogue(rng):
            threads = [["e"] + emit]
            if cause == "unsub":
                threads.append(["u", ["sleep", rng.choice([1, period + 1, 3 * period])], ["unsub", 0]])
            scn = ["conc", ["objects", ["subject", "subject"], ["pipe", pipe]], ["init", ["sub", 0, 0]], ["threads"] + threads, ["fini"],
                   ["sched", "random", seed * 1000 + rng.randrange(1000), runs]]
            cases.append({"scn": scn, "name": nm + ("+unsub" if cause else "")})
    # a slow consumer: its first callback takes `slow` ms on the worker thread while the producer queues up more items; then the
    # subscription ends (unsubscribe from a third thread, take(1) above the worker, or the source's terminal) with items still queued
    for _ in range(24 if thorough else 8):
        slow = rng.choice([5, 10])
        nitems = rng.choice([2, 3, 5])
        wrap = rng.choice([lambda p: ["op", "observe_on", [], p], lambda p: ["op", "observe_on", [], p], lambda p: ["op", "delay", [2], p],
                           lambda p: ["op", "map", [["add", 1]], ["op", "observe_on", [], p]], lambda p: ["op", "observe_on", [], ["op", "observe_on", [], p]]])
        ending = rng.choice(["unsub", "take", "term", "unsub-in-cb"])
        pipe = wrap(["hot", 0])
        emit = [["sleep", 1]] + [["next", 0, i + 1] for i in range(nitems)]
        threads = [["e"] + emit]
        react = [["react", 0, ["sleep", slow]]]
        if ending == "take":
            pipe = ["op", "take", [1], pipe]
        elif ending == "term":
            threads[0] += [rng.choice([["complete", 0], ["error", 0, 5]])]
        elif ending == "unsub":
            threads.append(["u", ["sleep", rng.choice([2, slow - 1, slow + 1])], ["unsub", 0]])
        else:
            react = [["react", 0, ["sleep", slow], ["unsub", 0]]]
        scn = ["conc", ["objects", ["subject", "subject"], ["pipe", pipe]], ["init", ["sub", 0, 0] + react], ["threads"] + threads, ["fini"],
               ["sched", rng.choice(["random", "random"]), seed * 1000 + rng.randrange(1000), runs * 2]]
        cases.append({"scn": scn, "name": "backlog(%s)+%s" % (sx.dumps(pipe), ending)})
    # the same over a cold source: everything is queued during subscribe, the first item ends the subscription
    for pipe in (["op", "take", [1], ["op", "observe_on", [], ["from_iter", 1, 2, 3, 4]]],
                 ["op", "first", [], ["op", "observe_on", [], ["op", "map", [["add", 1]], ["from_iter", 1, 2, 3]]]],
                 ["op", "take", [2], ["op", "delay", [2], ["from_iter", 1, 2, 3, 4]]],
                 ["op", "take_while", [["lt", 2]], ["op", "subscribe_on", [], ["op", "observe_on", [], ["from_iter", 1, 2, 3]]]]):
        scn = ["conc", ["objects", ["pipe", pipe]], ["init", ["sub", 0, 0]], ["threads"], ["fini"], ["sched", "random", seed * 1000 + rng.randrange(1000), runs * 2]]
        cases.append({"scn": scn, "name": "backlog-cold(%s)" % sx.dumps(pipe)})
    return cases


def sched_of(case, ob):
    s = [f for f in case["scn"] if isinstance(f, list) and f and f[0] == "sched"][0]
    if s[1] == "pct":
        return ["pct", int(s[2]), ob["seed"], 1]
    return ["random", ob["seed"], 1]


def judge(cases, runs):
    viol, nontriv = [], set()
    judged = 0
    for ci, (case, obs) in enumerate(zip(cases, runs)):
        for ob in obs:
            sd = sched_of(case, ob)
            if ob["status"] != "ok" or ob.get("panics", 0) or str(ob.get("timelimit", "0")) != "0":
                continue                # (thread release / hangs are C15's and C07's business)
            names = set(int(t) for t, _ in ob.get("names", []))
            if ob.get("live"):
                continue
            subs = set(str(r[4][1]) for r in ob["ev"] if r[3] == "call" and r[4][0] == "sub")
            ended = set(str(r[4]) for r in ob["ev"] if r[3] == "cb" and r[5][0] in ("c", "e")) | set(str(r[4][1]) for r in ob["ev"] if r[3] == "ret" and r[4][0] == "unsub")
            if not subs <= ended:
                continue
            judged += 1
            li, lc = ob.get("left", [0, 0])
            if li != 0 or lc != 0:
                viol.append((ci, sd, "every subscription has ended, every thread has finished and every handle has been dropped, yet %d emitted item(s) and %d callback / operator closure(s) are still owned by something" % (li, lc)))
            if any(int(r[2]) not in names for r in ob["ev"]):      # something happened on a thread the harness did not start
                nontriv.add((case["name"],))
    import re
    return {"violations": viol, "unshown": [], "nontrivial": nontriv,
            "extra": {"judged_runs": judged, "conc_failure_kinds": vplib._count(cases[v[0]]["name"][:60] for v in viol)}}
