"""C07 (concurrent part) - no call into the library blocks forever: schedule exploration + lock-order certificate."""
import copy
import random

import sx
import vplib

PID = "C07"
ENGINE = "conc"
RULE = ("catalogue = the concurrent scenarios of C05, C08, C09, C11, C12, C18 and C19 (every operator that owns shared state: subjects, "
        "merge/zip/amb/concat/flat_map/take, trigger operators, observe_on/subscribe_on, scheduler queue, to_vec, raw observers) plus "
        "callbacks that re-enter the library on their own thread (unsubscribing themselves, emitting into another subject, subscribing "
        "again), each under random / PCT schedules, a third of them with std's writer-preferring RwLock modelled; every run must end with "
        "all threads finished or parked on a condvar (statuses deadlock / self-deadlock / step-limit are violations); every nested lock "
        "acquisition of every run (lock held -> lock requested, by creation site and creation number) is recorded and the whole set must "
        "be accepted by the extracted Coq checker edges_ok for ONE order computed over all runs (level per lock class from the condensation "
        "of the class graph, creation number within a level); non-trivial = a run with at least two threads that both made nested "
        "acquisitions; distinct = distinct (scenario, set of nested class pairs)")
ASSUMPTIONS = ["scheduling points are the facade's lock/condvar/spawn/sleep operations",
               "user callbacks return; sources are finite",
               "the nested acquisitions recorded over the catalogue are taken to be all the crate makes (coverage of thread-local control flow, not of interleavings: the theorem covers the interleavings)",
               "critical sections terminate (no lock is held across an unbounded wait: condvar waits release their mutex; C08 covers wake-ups)"]

MAX_RUNS = 6


def cap(scn, seedshift):
    """same scenario, few schedules, with lock-order recording"""
    out = []
    for f in scn:
        if isinstance(f, list) and f and f[0] == "sched":
            if f[1] == "dfs":
                out.append(["sched", "random", 7 + seedshift, MAX_RUNS])
            elif f[1] == "pct":
                out.append(["sched", "pct", f[2], f[3], min(int(f[4]), MAX_RUNS)])
            elif f[1] == "random":
                out.append(["sched", "random", f[2], min(int(f[3]), MAX_RUNS)])
            else:
                out.append(f)
        elif isinstance(f, list) and f and f[0] == "want-choices":
            continue
        else:
            out.append(f)
    out.append(["want-edges"])
    return out


def reentrant_cases(rng, seed):
    cases = []
    for _ in range(12):
        kind = rng.choice([["subject", "subject"], ["subject", "replay"], ["subject", "behavior", 0]])
        op = rng.choice([None, "map", "observe_on"])
        pipe = ["hot", 0] if op is None else (["op", "map", [["add", 0]], ["hot", 0]] if op == "map" else ["op", "observe_on", [], ["hot", 0]])
        react = rng.choice([["react", 1, ["unsub", 0]], ["react", 0, ["next", 1, 5]], ["react", 0, ["sub", 1, 1]], ["react", 1, ["unsub", 0], ["next", 1, 6]]])
        objs = [kind, ["subject", "subject"], ["pipe", pipe], ["pipe", ["hot", 1]]]
        threads = [["a", ["next", 0, 1], ["next", 0, 2], ["complete", 0]], ["b", ["next", 1, 11], ["next", 0, 3]]]
        scn = ["conc", ["objects"] + objs, ["init", ["sub", 0, 0] + [react], ["sub", 2, 1]], ["threads"] + threads, ["fini"],
               ["sched", "random", seed * 1000 + rng.randrange(1000), MAX_RUNS], ["want-edges"]]
        cases.append({"scn": scn, "from": "reentrant"})
    # feedback through an operator that delivers on its OWN thread (or holds an item back): the subscriber, called on that thread,
    # emits into the subject that feeds the operator
    for opn, ps, others in [("debounce", [5], []), ("delay", [3], []), ("timeout", [60], []), ("observe_on", [], []), ("sample", [], [["interval", 5]])]:
        for i in (0, 1):
            pipe = ["op", opn, ps, ["hot", 0]] + others
            objs = [["subject", "subject"], ["pipe", pipe]]
            threads = [["a", ["sleep", 1], ["next", 0, 1], ["sleep", 40], ["next", 0, 2], ["sleep", 40], ["unsub", 0]]]
            scn = ["conc", ["objects"] + objs, ["init", ["sub", 0, 0, ["react", i, ["next", 0, 5 + i]]]], ["threads"] + threads, ["fini"],
                   ["sched", "random", seed * 1000 + rng.randrange(1000), MAX_RUNS], ["want-edges"]]
            cases.append({"scn": scn, "from": "feedback-" + opn})
    # time-based operators driven by the SYNCHRONOUS default scheduler: the deadline of timeout fires inside the very call that armed
    # it (the item's next() returns after the period with TimedOut delivered), an interval ticks on the subscribing thread until the
    # operator above it lets go of it - every such call must return
    d = rng.choice([3, 5])
    sync = [(["op", "timeout_sync", [d], ["hot", 0]], [["a", ["sleep", 1], ["next", 0, 1], ["next", 0, 2], ["complete", 0]]], []),
            (["op", "timeout_sync", [d], ["from_iter", 1, 2]], [], []),
            (["op", "map", [["add", 1]], ["op", "timeout_sync", [d], ["hot", 0]]], [["a", ["next", 0, 1]], ["b", ["sleep", 1], ["next", 0, 2]]], []),
            (["op", "take", [2], ["interval_sync", d]], [], []),
            (["op", "skip_until", [], ["from_iter", 1, 2], ["interval_sync", d]], [], []),
            (["op", "take_until", [], ["hot", 0], ["interval_sync", d]], [], []),
            (["op", "take", [2], ["op", "amb", [], ["interval_sync", d], ["never"]]], [], [])]
    for pipe, threads, reacts in sync:
        scn = ["conc", ["objects", ["subject", "subject"], ["pipe", pipe]], ["init", ["sub", 0, 0] + reacts], ["threads"] + threads, ["fini"],
               ["sched", "random", seed * 1000 + rng.randrange(1000), 3], ["want-edges"]]
        cases.append({"scn": scn, "from": "sync-scheduler"})
    return cases


def generate(rng, tier, seed):
    thorough = tier == "thorough"
    cases = []
    per = 60 if thorough else 22
    for name in ["C05c", "C08", "C09", "C11", "C12", "C18", "C19"]:
        mod = vplib.load_prop(name)
        sub = mod.generate(random.Random(seed * 7 + len(name)), "quick", seed)
        r2 = random.Random(seed)
        r2.shuffle(sub)
        for k, c in enumerate(sub[:per]):
            if name == "C18" and c.get("en") == "s":
                continue          # a future that must stay pending parks its poller by design
            scn = cap(copy.deepcopy(c["scn"]), k)
            if k % 3 == 0 and not any(isinstance(f, list) and f and f[0] == "writer-pref" for f in scn):
                scn.append(["writer-pref"])
            cases.append({"scn": scn, "from": name})
    cases += reentrant_cases(rng, seed)
    return cases


def sccs(nodes, succ):
    """Tarjan, iterative; returns the list of components in reverse topological order"""
    index, low, onstack, stack, comps, counter = {}, {}, set(), [], [], [0]
    for root in nodes:
        if root in index:
            continue
        work = [(root, iter(succ.get(root, ())))]
        index[root] = low[root] = counter[0]
        counter[0] += 1
        stack.append(root)
        onstack.add(root)
        while work:
            v, it = work[-1]
            adv = False
            for w in it:
                if w not in index:
                    index[w] = low[w] = counter[0]
                    counter[0] += 1
                    stack.append(w)
                    onstack.add(w)
                    work.append((w, iter(succ.get(w, ()))))
                    adv = True
                    break
                elif w in onstack:
                    low[v] = min(low[v], index[w])
            if adv:
                continue
            work.pop()
            if work:
                low[work[-1][0]] = min(low[work[-1][0]], low[v])
            if low[v] == index[v]:
                comp = []
                while True:
                    w = stack.pop()
                    onstack.discard(w)
                    comp.append(w)
                    if w == v:
                        break
                comps.append(comp)
    return comps


def site(s):
    s = s.split("@")[0]
    return s.split("/src/")[-1]


def judge(cases, runs):
    viol, unshown, nontriv = [], [], set()
    per_run = []          # (case index, seed, [(hcls, hid, wcls, wid)])
    classes = {}
    cls_succ = {}
    recursive = {}
    for ci, (case, obs) in enumerate(zip(cases, runs)):
        for ob in obs:
            if ob["status"] == "dfs-done":
                continue
            sd = ["random", ob.get("seed", 0), 1]
            for f in case["scn"]:
                if isinstance(f, list) and f and f[0] == "sched" and f[1] == "pct":
                    sd = ["pct", f[2], ob.get("seed", 0), 1]
            if ob["status"] != "ok" or ob.get("panics", 0):
                viol.append((ci, sd, "run ended with status %s (panics %s): %s" % (ob["status"], ob.get("panics"), str(ob.get("detail", ob.get("msg", "")))[:600])))
                continue
            if str(ob.get("timelimit", "0")) != "0" and case["from"] == "sync-scheduler":
                viol.append((ci, sd, "virtual time limit reached: a ticker driven by the synchronous scheduler keeps its (subscribing / emitting) thread for ever - the call into the library never returns"))
                continue
            es = []
            threads_nesting = set()
            for e in ob.get("edges", []):
                h, hid, w, wid = site(e[0]), int(e[1]), site(e[2]), int(e[3])
                for c in (h, w):
                    if c not in classes:
                        classes[c] = len(classes)
                cls_succ.setdefault(h, set()).add(w)
                es.append((classes[h], hid, classes[w], wid))
            per_run.append((ci, sd, es))
            if len(es) >= 2:
                nontriv.add((case["from"], sx.dumps(case["scn"][1:5]), tuple(sorted(set((a, c) for a, _, c, _ in es)))))
    # one order for all runs: level = position of the class's strongly connected component in the condensation
    comps = sccs(sorted(classes), {k: sorted(v) for k, v in cls_succ.items()})
    comps.reverse()                                   # topological order: sources first
    level = {}
    for k, comp in enumerate(comps):
        for c in comp:
            level[c] = k
    updown = {}
    for ci, sd, es in per_run:
        inv = {v: k for k, v in classes.items()}
        for (a, ai, b, bi) in es:
            if level[inv[a]] == level[inv[b]]:
                u = updown.setdefault(level[inv[a]], [0, 0])
                u[0 if ai < bi else 1] += 1
    down = [lv for lv, (u, d) in updown.items() if d > u]
    bound = 1 + max([max(ai, bi) for _, _, es in per_run for (_, ai, _, bi) in es] + [1])
    lv_sx = ["levels"] + [[classes[c], level[c]] for c in sorted(classes, key=lambda c: classes[c])]
    lines, idx = [], []
    for k, (ci, sd, es) in enumerate(per_run):
        if es:
            lines.append(sx.dumps(["lc", bound, lv_sx, ["down"] + down, ["edges"] + [list(e) for e in sorted(set(es))]]))
            idx.append(k)
    outs = vplib.driver_lines(["lock-check"], lines) if lines else []
    inv = {v: k for k, v in classes.items()}
    rejected = 0
    for o, k in zip(outs, idx):
        if o != "ok":
            rejected += 1
            ci, sd, es = per_run[k]
            try:
                x = sx.loads(o)
                what = "%s #%s held while requesting %s #%s" % (inv[int(x[1])], x[2], inv[int(x[3])], x[4])
            except Exception:
                what = o
            viol.append((ci, sd, "lock-order inversion: the extracted checker edges_ok rejects the nested acquisitions of this run against the order of all runs: " + what))
    extra = {"lock_classes": len(classes), "levels": len(comps), "levels_with_several_classes": len([c for c in comps if len(c) > 1]),
             "levels_ordered_by_creation_number": {str(k): ("down" if k in down else "up") + " %d/%d" % tuple(v) for k, v in sorted(updown.items())},
             "runs_with_nested_acquisitions": len(idx), "runs_rejected_by_checker": rejected,
             "class_order": [" < ".join(sorted(c)) for c in comps][:40],
             "catalogue": vplib._count(c["from"] for c in cases),
             "writer_pref_cases": len([c for c in cases if any(isinstance(f, list) and f and f[0] == "writer-pref" for f in c["scn"])])}
    return {"violations": viol, "unshown": unshown, "nontrivial": nontriv, "extra": extra}
