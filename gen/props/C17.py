"""C17 - a finished subscription releases the user's callbacks and items."""
import re

import scen
import sx
from common import ops_of
from scen import C, e, n, op, scn, src, sub

PID = "C17"
ORACLE = "c01"
MODEL_MUST_NOT = "closure=0"
RULE = ("pipelines of C02-C04 operators (depth 1-3, multi-source included) over finite cold sources and hot subjects, ended in each of the "
        "three ways - complete, error, unsubscribe (driver, or from inside a callback) - with a reference-counted token captured in every "
        "user callback, every closure passed to an operator and every emitted item; after the scenario every handle the harness owns "
        "(subscriptions, observables, subjects, connectables) is dropped and the number of live tokens must be back at its value before the "
        "scenario; judged only when every subscription of the scenario has ended; non-trivial = the pipeline has at least one operator "
        "closure or buffered item and tokens were alive before the handles were dropped; distinct = distinct scenario")
ASSUMPTIONS = ["Rust ownership: closures live only in the slots of observers, controllers, subjects, queues and Subscriptions; an empty slot has dropped its closure (trusted meta-argument)",
               "a subscription that has NOT ended may legitimately keep its callbacks (reference cycle observer -> teardown -> controller): such scenarios are not judged"]

ITEMS = [1, 2, 3]


def nontrivial(sc, ob, verdict):
    m = re.search(r"live_before (-?\d+) (-?\d+) live_after (-?\d+) (-?\d+) base (-?\d+) (-?\d+)", ob["extra"])
    return bool(m) and (int(m.group(1)) > int(m.group(5)) or int(m.group(2)) > int(m.group(6))) and bool(ops_of(sc))


def classify(sc, ob, verdict):
    return None


def generate(rng, tier, focus):
    thorough = tier == "thorough"
    cases = []
    names = [x for x in scen.SINGLE_NAMES]
    for _ in range(5000 if thorough else 800):
        xs = [rng.choice(ITEMS) for _ in range(rng.randrange(0, 6))]
        en = rng.choice(["c", "c", ("e", 5), "s"])
        s0 = scen.script(xs, en)
        s1 = scen.script([rng.choice(ITEMS) for _ in range(rng.randrange(0, 4))], rng.choice(["c", ("e", 7), "s"]))
        p = scen.rand_chain(rng, ["cold", 0], rng.choice([1, 1, 2]), names=names)
        if rng.random() < 0.4:
            nm = rng.choice(scen.MULTI_NAMES)
            p = scen.multi_op(rng, nm, p, [scen.rand_chain(rng, ["cold", 1], rng.choice([0, 1]), names=names)])
        p = scen.rand_chain(rng, p, rng.choice([0, 1]), names=names)
        reacts = [(rng.randrange(3), ["unsub-self"])] if rng.random() < 0.15 else []
        acts = [sub(0, p, *reacts)]
        if en == "s" or rng.random() < 0.3:
            acts.append(["unsub", 0])
        cases.append((scn(srcs=[src([s0, s0], False), src([s1, s1], False)], handles=1, script_=acts), {"k": "cold"}))
    kinds = [["subject"], ["behavior", 0], ["replay"], ["async"]]
    for _ in range(5000 if thorough else 800):
        subj = [rng.choice(kinds), rng.choice(kinds)]
        p = scen.rand_chain(rng, ["hot", 0], rng.choice([0, 1, 2]), names=names)
        if rng.random() < 0.5:
            nm = rng.choice(scen.MULTI_NAMES)
            p = scen.multi_op(rng, nm, p, [scen.rand_chain(rng, ["hot", 1], rng.choice([0, 1]), names=names)])
        p = scen.rand_chain(rng, p, rng.choice([0, 1]), names=names)
        acts = [sub(0, p)]
        for _ in range(rng.randrange(1, 7)):
            acts.append(["emit", rng.randrange(2), rng.choice([n(1), n(2), n(3), n(2), C, e(3)])])
        ending = rng.choice(["unsub", "term0", "both"])
        if ending in ("term0", "both"):
            acts.append(["emit", 0, rng.choice([C, e(4)])])
            acts.append(["emit", 1, rng.choice([C, e(4)])])
        if ending in ("unsub", "both"):
            acts.insert(rng.randrange(1, len(acts) + 1), ["unsub", 0])
        cases.append((scn(subjects=subj, handles=1, script_=acts), {"k": "hot"}))
    # flat_map whose inner observables churn (three hot inner sources; an older one completes, a newer one is opened while a third
    # is still running), ended by unsubscribe or by an inner error: every inner chain must be released
    for _ in range(1500 if thorough else 250):
        x, y, z = rng.sample([1, 2, 3], 3)
        val = lambda h: rng.choice([h - 1, h + 2])          # (v mod 3) + 1 == h
        noise = lambda hs: [["emit", rng.choice(hs), n(rng.choice([7, 8, 9]))] for _ in range(rng.choice([0, 0, 1]))]
        evs = [["emit", 0, n(val(x))]] + noise([x]) + [["emit", 0, n(val(y))]] + noise([x, y]) + [["emit", x, C]] + noise([y]) + \
              [["emit", 0, n(val(z))]] + noise([y, z])
        evs += rng.choice([[["unsub", 0]], [["emit", z, e(7)]], [["emit", y, C], ["emit", 0, C], ["emit", z, C]], [["emit", y, C], ["unsub", 0]]])
        inner = lambda h: scen.rand_chain(rng, ["hot", h], rng.choice([0, 1]), names=["map", "filter", "skip_last", "take_last", "scan", "tap"])
        p = op("flat_map", [["mod"]], ["hot", 0], inner(1), inner(2), inner(3))
        cases.append((scn(subjects=[["subject"]] * 4, handles=1, script_=[sub(0, p)] + evs), {"k": "flat_map-churn"}))
    # dematerialize fed with hand-built material streams whose reified terminal is NOT the source's last act (the source stays
    # silent or goes on afterwards): everything above dematerialize must be released all the same
    for _ in range(1200 if thorough else 200):
        def mat():
            return rng.choice([["mn", rng.choice(ITEMS)], ["mn", rng.choice(ITEMS)], ["mc"], ["me", 4]])
        ms = [n(mat()) for _ in range(rng.randrange(1, 6))]
        if not any(m[1][0] in ("mc", "me") for m in ms):
            ms.append(n(rng.choice([["mc"], ["me", 4]])))
        mid = lambda srcp: scen.rand_chain(rng, srcp, rng.choice([1, 1, 2]), names=["map", "filter", "tap", "skip", "take_last", "skip_last"])
        if rng.random() < 0.5:
            p = scen.rand_chain(rng, op("dematerialize", [], mid(["hot", 0])), rng.choice([0, 0, 1]), names=["map", "tap"])
            if "take_last" in sx.dumps(p) or "skip_last" in sx.dumps(p):
                continue        # (they hold the material items back until the hot source terminates: the subscription has not ended)
            acts = [sub(0, p)] + [["emit", 0, m] for m in ms] + rng.choice([[], [["emit", 0, n(["mn", 9])]]])
            cases.append((scn(subjects=[["subject"]], handles=1, script_=acts), {"k": "demat-hot"}))
        else:
            p = scen.rand_chain(rng, op("dematerialize", [], mid(["cold", 0])), rng.choice([0, 0, 1]), names=["map", "tap"])
            s0 = ms + rng.choice([[], [n(["mn", 9])]])           # no terminal of its own: Observable::create returns
            cases.append((scn(srcs=[src([s0], False)], handles=1, script_=[sub(0, p)]), {"k": "demat-cold"}))
    return cases


def judge_impl(cases, obs):
    out = []
    for i, ((sc, tags), ob) in enumerate(zip(cases, obs)):
        if ob["out"] != "ok" or not ob["snaps"]:
            continue
        flags = ob["snaps"][-1][1]
        if any(str(f) == "1" for f in flags):
            continue                       # some subscription has not ended
        # recorders subscribed to window / group observables are subscriptions too: all of them must have ended
        n_children = sum(1 for (u, _a, ev) in ob["log"] if ev == ["n", ["obs"]])
        ended_children = set()
        for (u, _a, ev) in ob["log"]:
            if u.startswith("c") and ev[0] in ("c", "e"):
                ended_children.add(u)
        if n_children != len(ended_children):
            continue          # (an open window / group recorder is a subscription that has not ended - also when the operator that made it was torn down)
        m = re.search(r"live_before (-?\d+) (-?\d+) live_after (-?\d+) (-?\d+) base (-?\d+) (-?\d+)", ob["extra"])
        if not m:
            continue
        la, lc, ba, bc = int(m.group(3)), int(m.group(4)), int(m.group(5)), int(m.group(6))
        if la != ba or lc != bc:
            out.append((i, "after every subscription ended and all handles were dropped %d item token(s) and %d closure token(s) are still owned by the library" % (la - ba, lc - bc)))
    return out
