"""C17 - a finished subscription releases the user's callbacks and items."""
import re

import scen
import vplib
import sx
from common import ops_of
from scen import C, e, n, op, scn, src, sub

PID = "C17"
CONC_MODULE = "C17c"
ORACLE = "c01"
MODEL_MUST_NOT = "closure=0"
RULE = ("pipelines of C02-C04 operators (depth 1-3, multi-source included) over finite cold sources and hot subjects, ended in each of the "
        "three ways - complete, error, unsubscribe (driver, or from inside a callback) - with a reference-counted token captured in every "
        "user callback, every closure passed to an operator and every emitted item; after the scenario every handle the harness owns "
        "(subscriptions, observables, subjects, connectables) is dropped and the number of live tokens must be back at its value before the "
        "scenario; judged only when every subscription of the scenario has ended; non-trivial = the pipeline has at least one operator "
        "closure or buffered item and tokens were alive before the handles were dropped; distinct = distinct scenario")
ASSUMPTIONS = ["Rust ownership: closures live only in the slots of observers, controllers, subjects, queues and Subscriptions; an empty slot has dropped its closure (trusted meta-argument)",
               "a subscription that has NOT ended may legitimately keep its callbacks (reference cycle observer -> teardown -> controller): such scenarios are not judged"]

ITEMS = [1, 2, 3]


def nontrivial(sc, ob, verdict):
    m = re.search(r"live_before (-?\d+) (-?\d+) live_after (-?\d+) (-?\d+) base (-?\d+) (-?\d+)", ob["extra"])
    return bool(m) and (int(m.group(1)) > int(m.group(5)) or int(m.group(2)) > int(m.group(6))) and bool(ops_of(sc))


def classify(sc, ob, verdict):
    return None


def keep(rng, p):
    """now and then observe_on / subscribe_on with a user-defined synchronous scheduler that keeps the job it ran last for as long as
    the scheduler INSTANCE lives (the job holds the emitted item / the subscribed source): the library must let go of the
    per-subscription scheduler instance when the subscription ends"""
    r = rng.random()
    return op("observe_on_keep", [], p) if r < 0.12 else (op("subscribe_on_keep", [], p) if r < 0.2 else p)


def generate(rng, tier, focus):
    thorough = tier == "thorough"
    cases = []
    names = [x for x in scen.SINGLE_NAMES]
    for _ in range(5000 if thorough else 800):
        xs = [rng.choice(ITEMS) for _ in range(rng.randrange(0, 6))]
        en = rng.choice(["c", "c", ("e", 5), "s"])
        s0 = scen.script(xs, en)
        s1 = scen.script([rng.choice(ITEMS) for _ in range(rng.randrange(0, 4))], rng.choice(["c", ("e", 7), "s"]))
        p = scen.rand_chain(rng, keep(rng, ["cold", 0]), rng.choice([1, 1, 2]), names=names)
        if rng.random() < 0.4:
            nm = rng.choice(scen.MULTI_NAMES)
            p = scen.multi_op(rng, nm, p, [scen.rand_chain(rng, ["cold", 1], rng.choice([0, 1]), names=names)])
        p = keep(rng, scen.rand_chain(rng, p, rng.choice([0, 1]), names=names))
        reacts = [(rng.randrange(3), ["unsub-self"])] if rng.random() < 0.15 else []
        acts = [sub(0, p, *reacts)]
        if en == "s" or rng.random() < 0.3:
            acts.append(["unsub", 0])
        cases.append((scn(srcs=[src([s0, s0], False), src([s1, s1], False)], handles=1, script_=acts), {"k": "cold"}))
    kinds = [["subject"], ["behavior", 0], ["replay"], ["async"]]
    for _ in range(5000 if thorough else 800):
        subj = [rng.choice(kinds), rng.choice(kinds)]
        p = scen.rand_chain(rng, keep(rng, ["hot", 0]), rng.choice([0, 1, 2]), names=names)
        if rng.random() < 0.5:
            nm = rng.choice(scen.MULTI_NAMES)
            p = scen.multi_op(rng, nm, p, [scen.rand_chain(rng, ["hot", 1], rng.choice([0, 1]), names=names)])
        p = keep(rng, scen.rand_chain(rng, p, rng.choice([0, 1]), names=names))
        acts = [sub(0, p)]
        for _ in range(rng.randrange(1, 7)):
            acts.append(["emit", rng.randrange(2), rng.choice([n(1), n(2), n(3), n(2), C, e(3)])])
        ending = rng.choice(["unsub", "term0", "both"])
        if ending in ("term0", "both"):
            acts.append(["emit", 0, rng.choice([C, e(4)])])
            acts.append(["emit", 1, rng.choice([C, e(4)])])
        if ending in ("unsub", "both"):
            acts.insert(rng.randrange(1, len(acts) + 1), ["unsub", 0])
        cases.append((scn(subjects=subj, handles=1, script_=acts), {"k": "hot"}))
    # a chain with operator closures SHARED through ref_count / replay / publish: when the subscribers have gone (and the connection of
    # publish has been cut or the source has terminated) and the connectable itself is dropped, the shared chain must be released;
    # also connectables that were never subscribed at all
    for _ in range(2400 if thorough else 400):
        kind = rng.choice(["refcount", "refcount", "replay", "replay", "publish"])
        hot = rng.random() < 0.5
        shared = scen.rand_chain(rng, ["hot", 0] if hot else ["cold", 0], rng.choice([0, 1, 2]), names=["map", "filter", "scan", "tap", "skip", "take", "start_with", "distinct_until_changed"])
        nsub = rng.choice([0, 1, 1, 2])
        acts = []
        for u in range(nsub):
            acts.append(sub(u, scen.rand_chain(rng, ["conn", 0], rng.choice([0, 1]), names=["map", "filter", "take", "tap"])))
        if kind == "publish" and (nsub == 0 or rng.random() < 0.9):
            acts.insert(rng.randrange(0, len(acts) + 1), ["connect", 0, 0])
        if hot:
            for _i in range(rng.randrange(0, 4)):
                acts.append(["emit", 0, n(rng.choice(ITEMS))])
        ending = rng.choice(["unsub", "term", "both"]) if hot else rng.choice(["unsub", "none"])
        if hot and ending in ("term", "both"):
            acts.append(["emit", 0, rng.choice([C, e(4)])])
        if ending in ("unsub", "both") or not hot:
            for u in range(nsub):
                acts.append(["unsub", u])
            if kind == "publish" and any(a[0] == "connect" for a in acts):
                acts.append(["disconnect", 0])
        xs = [rng.choice(ITEMS) for _ in range(rng.randrange(0, 4))]
        s0 = scen.script(xs, rng.choice(["c", "c", ("e", 5), "s"]))
        cases.append((scn(srcs=[src([s0, s0, s0], False)], subjects=[["subject"]], conns=[[kind, shared]], handles=max(nsub, 1), script_=acts), {"k": "shared-" + kind}))
    # flat_map whose inner observables churn (three hot inner sources; an older one completes, a newer one is opened while a third
    # is still running), ended by unsubscribe or by an inner error: every inner chain must be released
    for _ in range(1500 if thorough else 250):
        x, y, z = rng.sample([1, 2, 3], 3)
        val = lambda h: rng.choice([h - 1, h + 2])          # (v mod 3) + 1 == h
        noise = lambda hs: [["emit", rng.choice(hs), n(rng.choice([7, 8, 9]))] for _ in range(rng.choice([0, 0, 1]))]
        evs = [["emit", 0, n(val(x))]] + noise([x]) + [["emit", 0, n(val(y))]] + noise([x, y]) + [["emit", x, C]] + noise([y]) + \
              [["emit", 0, n(val(z))]] + noise([y, z])
        evs += rng.choice([[["unsub", 0]], [["emit", z, e(7)]], [["emit", y, C], ["emit", 0, C], ["emit", z, C]], [["emit", y, C], ["unsub", 0]]])
        inner = lambda h: scen.rand_chain(rng, ["hot", h], rng.choice([0, 1]), names=["map", "filter", "skip_last", "take_last", "scan", "tap"])
        p = op("flat_map", [["mod"]], ["hot", 0], inner(1), inner(2), inner(3))
        cases.append((scn(subjects=[["subject"]] * 4, handles=1, script_=[sub(0, p)] + evs), {"k": "flat_map-churn"}))
    # dematerialize fed with hand-built material streams whose reified terminal is NOT the source's last act (the source stays
    # silent or goes on afterwards): everything above dematerialize must be released all the same
    for _ in range(1200 if thorough else 200):
        def mat():
            return rng.choice([["mn", rng.choice(ITEMS)], ["mn", rng.choice(ITEMS)], ["mc"], ["me", 4]])
        ms = [n(mat()) for _ in range(rng.randrange(1, 6))]
        if not any(m[1][0] in ("mc", "me") for m in ms):
            ms.append(n(rng.choice([["mc"], ["me", 4]])))
        mid = lambda srcp: scen.rand_chain(rng, srcp, rng.choice([1, 1, 2]), names=["map", "filter", "tap", "skip", "take_last", "skip_last"])
        if rng.random() < 0.5:
            p = scen.rand_chain(rng, op("dematerialize", [], mid(["hot", 0])), rng.choice([0, 0, 1]), names=["map", "tap"])
            if "take_last" in sx.dumps(p) or "skip_last" in sx.dumps(p):
                continue        # (they hold the material items back until the hot source terminates: the subscription has not ended)
            acts = [sub(0, p)] + [["emit", 0, m] for m in ms] + rng.choice([[], [["emit", 0, n(["mn", 9])]]])
            cases.append((scn(subjects=[["subject"]], handles=1, script_=acts), {"k": "demat-hot"}))
        else:
            p = scen.rand_chain(rng, op("dematerialize", [], mid(["cold", 0])), rng.choice([0, 0, 1]), names=["map", "tap"])
            s0 = ms + rng.choice([[], [n(["mn", 9])]])           # no terminal of its own: Observable::create returns
            cases.append((scn(srcs=[src([s0], False)], handles=1, script_=[sub(0, p)]), {"k": "demat-cold"}))
    import common
    cases += common.conn_stress(rng, 2400 if thorough else 400)
    return cases


def judge_impl(cases, obs):
    out = []
    for i, ((sc, tags), ob) in enumerate(zip(cases, obs)):
        if ob["out"] != "ok" or not ob["snaps"]:
            continue
        flags = ob["snaps"][-1][1]
        if any(str(f) == "1" for f in flags):
            continue                       # some subscription has not ended
        # recorders subscribed to window / group observables are subscriptions too: all of them must have ended
        n_children = sum(1 for (u, _a, ev) in ob["log"] if ev == ["n", ["obs"]])
        ended_children = set()
        for (u, _a, ev) in ob["log"]:
            if u.startswith("c") and ev[0] in ("c", "e"):
                ended_children.add(u)
        if n_children != len(ended_children):
            continue          # (an open window / group recorder is a subscription that has not ended - also when the operator that made it was torn down)
        m = re.search(r"live_before (-?\d+) (-?\d+) live_after (-?\d+) (-?\d+) base (-?\d+) (-?\d+)", ob["extra"])
        if not m:
            continue
        la, lc, ba, bc = int(m.group(3)), int(m.group(4)), int(m.group(5)), int(m.group(6))
        if la != ba or lc != bc:
            out.append((i, "after every subscription ended and all handles were dropped %d item token(s) and %d closure token(s) are still owned by the library" % (la - ba, lc - bc)))
    return out


def run(tier, seed):
    import sys
    import C17c
    return vplib.run_both(sys.modules[__name__], C17c, tier, seed)
