"""C17 - a finished subscription releases the user's callbacks and items."""
import re

import scen
import sx
from common import ops_of
from scen import C, e, n, op, scn, src, sub

PID = "C17"
ORACLE = "c01"
MODEL_MUST_NOT = "closure=0"
RULE = ("pipelines of C02-C04 operators (depth 1-3, multi-source included) over finite cold sources and hot subjects, ended in each of the "
        "three ways - complete, error, unsubscribe (driver, or from inside a callback) - with a reference-counted token captured in every "
        "user callback, every closure passed to an operator and every emitted item; after the scenario every handle the harness owns "
        "(subscriptions, observables, subjects, connectables) is dropped and the number of live tokens must be back at its value before the "
        "scenario; judged only when every subscription of the scenario has ended; non-trivial = the pipeline has at least one operator "
        "closure or buffered item and tokens were alive before the handles were dropped; distinct = distinct scenario")
ASSUMPTIONS = ["Rust ownership: closures live only in the slots of observers, controllers, subjects, queues and Subscriptions; an empty slot has dropped its closure (trusted meta-argument)",
               "a subscription that has NOT ended may legitimately keep its callbacks (reference cycle observer -> teardown -> controller): such scenarios are not judged"]

ITEMS = [1, 2, 3]


def nontrivial(sc, ob, verdict):
    m = re.search(r"live_before (-?\d+) (-?\d+) live_after (-?\d+) (-?\d+) base (-?\d+) (-?\d+)", ob["extra"])
    return bool(m) and (int(m.group(1)) > int(m.group(5)) or int(m.group(2)) > int(m.group(6))) and bool(ops_of(sc))


def classify(sc, ob, verdict):
    return None


def generate(rng, tier, focus):
    thorough = tier == "thorough"
    cases = []
    names = [x for x in scen.SINGLE_NAMES]
    for _ in range(5000 if thorough else 800):
        xs = [rng.choice(ITEMS) for _ in range(rng.randrange(0, 6))]
        en = rng.choice(["c", "c", ("e", 5), "s"])
        s0 = scen.script(xs, en)
        s1 = scen.script([rng.choice(ITEMS) for _ in range(rng.randrange(0, 4))], rng.choice(["c", ("e", 7), "s"]))
        p = scen.rand_chain(rng, ["cold", 0], rng.choice([1, 1, 2]), names=names)
        if rng.random() < 0.4:
            nm = rng.choice(scen.MULTI_NAMES)
            p = scen.multi_op(rng, nm, p, [scen.rand_chain(rng, ["cold", 1], rng.choice([0, 1]), names=names)])
        p = scen.rand_chain(rng, p, rng.choice([0, 1]), names=names)
        reacts = [(rng.randrange(3), ["unsub-self"])] if rng.random() < 0.15 else []
        acts = [sub(0, p, *reacts)]
        if en == "s" or rng.random() < 0.3:
            acts.append(["unsub", 0])
        cases.append((scn(srcs=[src([s0, s0], False), src([s1, s1], False)], handles=1, script_=acts), {"k": "cold"}))
    kinds = [["subject"], ["behavior", 0], ["replay"], ["async"]]
    for _ in range(5000 if thorough else 800):
        subj = [rng.choice(kinds), rng.choice(kinds)]
        p = scen.rand_chain(rng, ["hot", 0], rng.choice([0, 1, 2]), names=names)
        if rng.random() < 0.5:
            nm = rng.choice(scen.MULTI_NAMES)
            p = scen.multi_op(rng, nm, p, [scen.rand_chain(rng, ["hot", 1], rng.choice([0, 1]), names=names)])
        p = scen.rand_chain(rng, p, rng.choice([0, 1]), names=names)
        acts = [sub(0, p)]
        for _ in range(rng.randrange(1, 7)):
            acts.append(["emit", rng.randrange(2), rng.choice([n(1), n(2), n(3), n(2), C, e(3)])])
        ending = rng.choice(["unsub", "term0", "both"])
        if ending in ("term0", "both"):
            acts.append(["emit", 0, rng.choice([C, e(4)])])
            acts.append(["emit", 1, rng.choice([C, e(4)])])
        if ending in ("unsub", "both"):
            acts.insert(rng.randrange(1, len(acts) + 1), ["unsub", 0])
        cases.append((scn(subjects=subj, handles=1, script_=acts), {"k": "hot"}))
    return cases


def judge_impl(cases, obs):
    out = []
    for i, ((sc, tags), ob) in enumerate(zip(cases, obs)):
        if ob["out"] != "ok" or not ob["snaps"]:
            continue
        flags = ob["snaps"][-1][1]
        if any(str(f) == "1" for f in flags):
            continue                       # some subscription has not ended
        # recorders subscribed to window / group observables are subscriptions too: all of them must have ended
        n_children = sum(1 for (u, _a, ev) in ob["log"] if ev == ["n", ["obs"]])
        ended_children = set()
        for (u, _a, ev) in ob["log"]:
            if u.startswith("c") and ev[0] in ("c", "e"):
                ended_children.add(u)
        if n_children != len(ended_children):
            continue
        m = re.search(r"live_before (-?\d+) (-?\d+) live_after (-?\d+) (-?\d+) base (-?\d+) (-?\d+)", ob["extra"])
        if not m:
            continue
        la, lc, ba, bc = int(m.group(3)), int(m.group(4)), int(m.group(5)), int(m.group(6))
        if la != ba or lc != bc:
            out.append((i, "after every subscription ended and all handles were dropped %d item token(s) and %d closure token(s) are still owned by the library" % (la - ba, lc - bc)))
    return out
