"""C14 - each subscribe() runs an independent pipeline (observables are re-subscribable)."""
import copy

import scen
import sx
from common import ops_of
from scen import C, e, n, op, scn, src, sub

PID = "C14"
ORACLE = "c01"          # every scenario must anyway satisfy the observer contract; the property's own judgement is judge_impl below
RULE = ("one Observable VALUE (a pipeline of C02-C04 operators over deterministic cold sources whose k-th subscription plays the k-th "
        "script, or over a hot subject) subscribed 2-3 times: one after another, nested (the second subscription started from inside a "
        "callback of the first), interleaved mid-stream on a hot source, and through retry; every subscriber's event sequence must equal "
        "the one it gets in a SOLITARY scenario with the same inputs (for retry: the concatenation of the solitary runs of the attempts); "
        "non-trivial = a combined scenario in which the later subscriber received at least one event and the earlier one left state behind "
        "(received an item); distinct = distinct combined scenario")
ASSUMPTIONS = ["cold sources are deterministic per subscription attempt; hot sources are driven by the same emit script in the solitary scenario",
               "the model allocates operator state per subscription by construction (theorem C14_fresh_node); shared state in the crate shows up as "
               "implementation != solitary implementation and implementation != model"]

ITEMS = [1, 2, 3]


def nontrivial(sc, ob, verdict):
    logs = {}
    for (u, i, ev) in ob["log"]:
        logs.setdefault(u, []).append(ev)
    return len(logs) >= 2 and all(len(v) > 0 for v in logs.values())


def classify(sc, ob, verdict):
    return None


def rand_script(rng, err_p=0.25):
    k = rng.choice([1, 2, 3, 3, 4, 5])
    xs = [rng.choice(ITEMS) for _ in range(k)]
    en = ("e", 5) if rng.random() < err_p else rng.choice(["c", "c", "s"])
    return scen.script(xs, en)


def rand_pipe(rng, source, second=None, third=None):
    d = rng.choice([1, 1, 2, 3])
    p = scen.rand_chain(rng, source, rng.randrange(0, d + 1), names=[x for x in scen.SINGLE_NAMES if x not in ("retry", "retry_when")])
    if second is not None and rng.random() < 0.35:
        nm = rng.choice(["merge", "concat", "zip", "amb", "take_until", "skip_until", "combine_latest", "sequence_equal", "switch_on_next"])
        others = [second]
        if third is not None and nm in ("merge", "concat", "zip", "amb", "combine_latest") and rng.random() < 0.5:
            others = [second, third]        # (two follow-up sources: an operator that keeps them in a queue has an order to get wrong)
        p = scen.multi_op(rng, nm, p, others)
    p = scen.rand_chain(rng, p, rng.randrange(0, 2), names=[x for x in scen.SINGLE_NAMES if x not in ("retry", "retry_when")])
    return p


def retry_twice_cases(rng, count, group):
    """(E) a retry / retry_when Observable value subscribed twice: the budget is per subscription"""
    cases = []
    transparent = ["map", "filter", "scan", "distinct_until_changed", "skip", "tap", "buffer_with_count", "materialize"]
    for _ in range(count):
        g = group()
        f1 = scen.script([rng.choice(ITEMS) for _ in range(rng.randrange(0, 4))], ("e", 5))
        f2 = scen.script([rng.choice(ITEMS) for _ in range(rng.randrange(0, 4))], ("e", 5))
        ok1, ok2 = rand_script(rng, 0.0), rand_script(rng, 0.0)
        inner = scen.rand_chain(rng, ["cold", 0], rng.choice([0, 1]), names=[x for x in transparent if x != "materialize"])
        outer = rng.choice([["retry", [2]], ["retry", [3]], ["retry_when", [["eq", 5]]]])
        pipe = scen.rand_chain(rng, op(outer[0], outer[1], inner), rng.choice([0, 1]), names=transparent)
        cases.append((scn(srcs=[src([f1, ok1, f2, ok2], False)], handles=2, script_=[sub(0, ["ref", 0]), sub(1, ["ref", 0])], defs=[pipe]),
                      {"k": "retry-twice", "g": g, "role": "combined", "n": 2}))
        cases.append((scn(srcs=[src([f1, ok1], False)], handles=1, script_=[sub(0, ["ref", 0])], defs=[pipe]), {"k": "solitary", "g": g, "role": "solo", "who": 0}))
        cases.append((scn(srcs=[src([f2, ok2], False)], handles=1, script_=[sub(0, ["ref", 0])], defs=[pipe]), {"k": "solitary", "g": g, "role": "solo", "who": 1}))
    return cases


def generate(rng, tier, focus):
    thorough = tier == "thorough"
    cases = []
    gid = [0]

    def group():
        gid[0] += 1
        return gid[0]

    # (A)/(B) cold: sequential and nested re-subscription
    for _ in range(2500 if thorough else 420):
        g = group()
        nsub = rng.choice([2, 2, 3])
        s0 = [rand_script(rng) for _ in range(nsub)]
        s1 = [rand_script(rng, 0.1)] * nsub      # the second source may be subscribed lazily (concat, flat_map ...): its attempts are indistinguishable
        pipe = rand_pipe(rng, ["cold", 0], ["cold", 1], ["cold", 2])
        directed = rng.random() < 0.15
        if directed:        # a multi-source operator over two follow-up sources, the first subscription cut short below
            pipe = scen.multi_op(rng, rng.choice(["concat", "concat", "merge", "zip", "amb", "combine_latest"]), ["cold", 0], [["cold", 1], ["cold", 2]])
        two = "(cold 1)" in sx.dumps(pipe)
        s2 = [rand_script(rng, 0.1)] * 3
        nested = rng.random() < 0.3 and not directed
        ridx = rng.randrange(0, 3)
        if nested:
            s1 = [s1[0]] * len(s1)      # nested subscriptions interleave their attempts on the second source: make them indistinguishable
            s0 = [s0[0]] * len(s0)      # ... and on the first one too: start_with / concat subscribe their source after the callback in which the nested subscriber arrives
            acts = [sub(0, ["ref", 0], (ridx, ["sub", 1, ["ref", 0]]))]
            nsub = 2
        else:
            acts = [sub(k, ["ref", 0]) for k in range(nsub)]
        # an earlier subscription CUT SHORT downstream (take(k) over the shared value) before the next one starts: whatever the
        # operators of the shared value still hold for it must not leak into the later subscriptions
        cut = None
        if not nested and (directed or rng.random() < 0.4):
            cut = ["op", "take", [rng.choice([1, 2, 3])], ["ref", 0]]
            acts[0] = sub(0, cut)
            s0 = [s0[0]] * len(s0)      # (a subscription cut short may never get to subscribe a source: attempts must be indistinguishable)
            s1 = [s1[0]] * len(s1)
        srcs = [src(s0[:nsub], False), src(s1[:nsub], False), src(s2[:nsub], False)]
        cases.append((scn(srcs=srcs, handles=nsub, script_=acts, defs=[pipe]), {"k": "nested" if nested else ("sequential-cut" if cut else "sequential"), "g": g, "role": "combined", "n": nsub, "ridx": ridx if nested else -1}))
        for k in range(nsub):
            cases.append((scn(srcs=[src([s0[k]], False), src([s1[k]], False), src([s2[k]], False)], handles=1, script_=[sub(0, cut if (cut and k == 0) else ["ref", 0])], defs=[pipe]),
                          {"k": "solitary", "g": g, "role": "solo", "who": k}))
    # (C) hot: second subscription while the first is mid-stream
    for _ in range(1500 if thorough else 250):
        g = group()
        pipe = rand_pipe(rng, ["hot", 0])
        emits = [["emit", 0, rng.choice([n(1), n(2), n(3), n(2)])] for _ in range(rng.randrange(2, 7))]
        if rng.random() < 0.5:
            emits.append(["emit", 0, rng.choice([C, e(4)])])
        p1 = rng.randrange(0, len(emits))
        p2 = rng.randrange(p1, len(emits) + 1)
        full = emits[:p1] + [sub(0, ["ref", 0])] + emits[p1:p2] + [sub(1, ["ref", 0])] + emits[p2:]
        solo0 = emits[:p1] + [sub(0, ["ref", 0])] + emits[p1:]
        solo1 = emits[:p2] + [sub(0, ["ref", 0])] + emits[p2:]
        cases.append((scn(subjects=[["subject"]], handles=2, script_=full, defs=[pipe]), {"k": "hot", "g": g, "role": "combined", "n": 2}))
        cases.append((scn(subjects=[["subject"]], handles=1, script_=solo0, defs=[pipe]), {"k": "solitary", "g": g, "role": "solo", "who": 0}))
        cases.append((scn(subjects=[["subject"]], handles=1, script_=solo1, defs=[pipe]), {"k": "solitary", "g": g, "role": "solo", "who": 1}))
    # (C') hot, three subscriptions: the first one leaves early (take 1) before the third joins, the second stays mid-stream
    for _ in range(900 if thorough else 150):
        g = group()
        pipe = rand_pipe(rng, ["hot", 0])
        emits = [["emit", 0, rng.choice([n(1), n(2), n(3), n(2)])] for _ in range(rng.randrange(3, 8))]
        if rng.random() < 0.5:
            emits.append(["emit", 0, rng.choice([C, e(4)])])
        p1 = rng.randrange(0, len(emits) - 1)
        p2 = rng.randrange(p1, len(emits))
        p3 = rng.randrange(p2 + 1, len(emits) + 1)
        first = ["op", "take", [1], ["ref", 0]]
        full = emits[:p1] + [sub(0, first)] + emits[p1:p2] + [sub(1, ["ref", 0])] + emits[p2:p3] + [sub(2, ["ref", 0])] + emits[p3:]
        cases.append((scn(subjects=[["subject"]], handles=3, script_=full, defs=[pipe]), {"k": "hot3", "g": g, "role": "combined", "n": 3}))
        for who, (pos, pp) in enumerate([(p1, first), (p2, ["ref", 0]), (p3, ["ref", 0])]):
            solo = emits[:pos] + [sub(0, pp)] + emits[pos:]
            cases.append((scn(subjects=[["subject"]], handles=1, script_=solo, defs=[pipe]), {"k": "solitary", "g": g, "role": "solo", "who": who}))
    # (C'') two-input operators over two hot subjects: the first subscription is cut (unsubscribe) with state pending - a value
    #      waiting in sample's slot, half a pair in zip, an open gate - and the second subscription starts afterwards
    for _ in range(1800 if thorough else 300):
        g = group()
        nm = rng.choice(["sample", "sample", "sample", "zip", "combine_latest", "skip_until", "take_until", "amb", "merge", "switch_on_next", "sequence_equal"])
        pipe = scen.multi_op(rng, nm, ["hot", 0], [["hot", 1]])
        if rng.random() < 0.3:
            pipe = scen.rand_chain(rng, pipe, 1, names=["map", "filter", "scan", "skip", "take", "distinct_until_changed"])
        E = [["emit", rng.randrange(2), rng.choice([n(1), n(2), n(3), n(2)])] for _ in range(rng.randrange(3, 9))]
        p1 = rng.randrange(0, len(E) - 1)
        p2 = rng.randrange(p1 + 1, len(E) + 1)
        p3 = rng.randrange(p2, len(E) + 1)
        cut = [["unsub", 0]] if rng.random() < 0.8 else []
        full = E[:p1] + [sub(0, ["ref", 0])] + E[p1:p2] + cut + E[p2:p3] + [sub(1, ["ref", 0])] + E[p3:]
        solo0 = E[:p1] + [sub(0, ["ref", 0])] + E[p1:p2] + cut + E[p2:]
        solo1 = E[:p3] + [sub(0, ["ref", 0])] + E[p3:]
        cases.append((scn(subjects=[["subject"], ["subject"]], handles=2, script_=full, defs=[pipe]), {"k": "hot2-cut", "g": g, "role": "combined", "n": 2}))
        cases.append((scn(subjects=[["subject"], ["subject"]], handles=1, script_=solo0, defs=[pipe]), {"k": "solitary", "g": g, "role": "solo", "who": 0}))
        cases.append((scn(subjects=[["subject"], ["subject"]], handles=1, script_=solo1, defs=[pipe]), {"k": "solitary", "g": g, "role": "solo", "who": 1}))
    # (D) every operator under retry: the failed attempt must leave nothing behind
    for _ in range(2500 if thorough else 420):
        g = group()
        xs1 = [rng.choice(ITEMS) for _ in range(rng.randrange(1, 5))]
        s_fail = scen.script(xs1, ("e", 5))
        s_ok = rand_script(rng, 0.0)
        inner = rand_pipe(rng, ["cold", 0])
        pipe = op("retry", [2], inner)
        cases.append((scn(srcs=[src([s_fail, s_ok], False)], handles=1, script_=[sub(0, ["ref", 0])], defs=[pipe]), {"k": "retry", "g": g, "role": "retry"}))
        cases.append((scn(srcs=[src([s_fail], False)], handles=1, script_=[sub(0, ["ref", 0])], defs=[inner]), {"k": "solitary", "g": g, "role": "solo", "who": 0}))
        cases.append((scn(srcs=[src([s_ok], False)], handles=1, script_=[sub(0, ["ref", 0])], defs=[inner]), {"k": "solitary", "g": g, "role": "solo", "who": 1}))
    cases += retry_twice_cases(rng, 1200 if thorough else 200, group)
    return cases


def seq_of(ob, handle):
    return [sx.dumps(ev) for (u, i, ev) in ob["log"] if u == "t%d" % handle]


def judge_impl(cases, obs):
    out = []
    groups = {}
    for i, (sc, tags) in enumerate(cases):
        if "g" in tags:
            groups.setdefault(tags["g"], []).append(i)
    for g, idxs in groups.items():
        comb = [i for i in idxs if cases[i][1]["role"] in ("combined", "retry")]
        solos = {cases[i][1]["who"]: i for i in idxs if cases[i][1]["role"] == "solo"}
        if not comb or any(obs[i]["out"] != "ok" for i in idxs):
            continue
        ci = comb[0]
        if cases[ci][1]["role"] == "combined":
            for k in range(cases[ci][1]["n"]):
                if k not in solos:
                    continue
                if k == 1 and cases[ci][1].get("ridx", -1) >= len(seq_of(obs[ci], 0)):
                    continue      # the reaction that subscribes handle 1 never fired
                got, want = seq_of(obs[ci], k), seq_of(obs[solos[k]], 0)
                if got != want:
                    out.append((ci, "subscriber %d of the shared Observable received %s but receives %s when it is the only subscriber" % (k, got, want)))
                    break
        else:
            l1, l2 = seq_of(obs[solos[0]], 0), seq_of(obs[solos[1]], 0)
            want = (l1[:-1] + l2) if (l1 and l1[-1].startswith("(e")) else l1
            got = seq_of(obs[ci], 0)
            if got != want:
                out.append((ci, "under retry(2) the subscriber received %s; the attempts run alone give %s" % (got, want)))
    return out
