"""C09 - observe_on/subscribe_on hand events to the scheduler: none lost, none reordered."""
import sx
import vplib

PID = "C09"
ENGINE = "conc"
RULE = ("observe_on(new-thread scheduler) at every position of a short pipeline and stacked twice over a hot Subject fed by an emitting "
        "thread (0-4 items, then complete / error / nothing), and subscribe_on at every position and stacked twice over cold sources, with "
        "and without a thread that unsubscribes concurrently, with a subscriber that emits one more item into the source from inside its "
        "i-th callback (feedback: delivered once, later, never nested), and with bursts of 70-600 items that leave the worker far behind; smallest instances over ALL schedules (DFS), the others under random and PCT "
        "schedules, part of them with spurious condvar wake-ups; judged against the emitted script: without unsubscribe the subscriber "
        "receives exactly the emitted events in order with the terminal last, with unsubscribe a prefix and no event whose emission began "
        "after unsubscribe returned; all callbacks on ONE thread that is neither the emitting nor the subscribing thread, never two "
        "callbacks at once; for the exhaustive instances the log set must lie within the exhaustively explored log set of the Coq model; "
        "non-trivial = an observation with at least two callbacks on a worker thread while the emitter was still emitting or an "
        "unsubscribe overlapping the emission; distinct = distinct (scenario, subscriber log)")
ASSUMPTIONS = ["scheduling points are the facade's lock/condvar/spawn/sleep operations (sequentially consistent memory)",
               "user callbacks return; the only re-entrance is the feedback emission of the feedback cases",
               "the source is contract-conform: at most one terminal, last (C01)"]


def term_of(en):
    return {"c": ["complete", 0], "e": ["error", 0, 5]}.get(en)


def wrap(shape, src):
    oo = lambda p: ["op", "observe_on", [], p]
    so = lambda p: ["op", "subscribe_on", [], p]
    mp = lambda p: ["op", "map", [["add", 0]], p]
    return {"oo": lambda: oo(src), "map-oo": lambda: mp(oo(src)), "oo-map": lambda: oo(mp(src)), "oo-oo": lambda: oo(oo(src)),
            "map-oo-map": lambda: mp(oo(mp(src))), "so": lambda: so(src), "map-so": lambda: mp(so(src)), "so-map": lambda: so(mp(src)),
            "so-so": lambda: so(so(src)), "oo-so": lambda: oo(so(src)), "so-oo": lambda: so(oo(src))}[shape]()


HOT_SHAPES = ["oo", "map-oo", "oo-map", "oo-oo", "map-oo-map"]     # (subscribe_on over a HOT source subscribes late by design: not a loss)
COLD_SHAPES = ["so", "map-so", "so-map", "so-so", "oo-so"]


def hot_case(shape, items, en, unsub, sched, spurious=False, twice=False, idle=None, feedback=None):
    pipe = wrap(shape, ["hot", 0])
    emit = [["next", 0, v] for v in items] + ([term_of(en)] if term_of(en) else [])
    if idle is not None and emit:
        # the source pauses (virtual time): the worker idles on an empty queue in between
        emit.insert(idle[0] % len(emit), ["sleep", idle[1]])
    threads = [["e"] + emit]
    if unsub:
        threads.append(["u", ["unsub", 0]])
    sub0 = ["sub", 0, 0]
    if feedback is not None:
        # the subscriber, on the worker thread, emits one more item into the source from inside its i-th callback
        sub0 = sub0 + [["react", feedback[0], ["next", 0, feedback[1]]]]
    scn = ["conc", ["objects", ["subject", "subject"], ["pipe", pipe]], ["init", sub0] + ([["sub", 1, 0]] if twice else []),
           ["threads"] + threads, ["fini"], ["sched"] + sched]
    if spurious:
        scn.append(["spurious"])
    if sched[0] == "dfs":
        scn.append(["want-choices"])
    return {"scn": scn, "kind": "hot", "shape": shape, "items": items, "en": en, "unsub": unsub, "sched": sched, "users": [0, 1] if twice else [0],
            "feedback": feedback}


def cold_case(shape, items, en, unsub, sched, spurious=False, twice=False):
    base = ["from_iter"] + items
    src = base if en == "c" else ["op", "concat", [], base, ["error", 5] if en == "e" else ["never"]]
    pipe = wrap(shape, src)
    threads = [["u", ["unsub", 0]]] if unsub else []
    # `twice`: the same Observable value is subscribed again after the first subscription has had time to end
    scn = ["conc", ["objects", ["pipe", pipe]], ["init", ["sub", 0, 0]], ["threads"] + threads, ["fini"] + ([["sleep", 50], ["sub", 1, 0]] if twice else []),
           ["sched"] + sched]
    if spurious:
        scn.append(["spurious"])
    return {"scn": scn, "kind": "cold", "shape": shape, "items": items, "en": en, "unsub": unsub, "sched": sched, "users": [0, 1] if twice else [0]}


def hot_so_case(shape, items, sched, feedback=None, second=None):
    """subscribe_on over a HOT source: the subscription is made on the scheduler's thread at time 0, the emitter starts at 1 ms (virtual
    time: the subscription is in place by then); subscribe_on moves the SUBSCRIPTION only, so items arrive on the emitting thread(s):
    a feedback item pushed from inside callback i arrives nested, a second emitting thread may overlap - nothing may be lost"""
    pipe = wrap(shape, ["hot", 0])
    threads = [["e", ["sleep", 1]] + [["next", 0, v] for v in items]]
    if second:
        threads.append(["e2", ["sleep", 1]] + [["next", 0, v] for v in second])
    sub0 = ["sub", 0, 0] + ([["react", feedback[0], ["next", 0, feedback[1]]]] if feedback is not None else [])
    scn = ["conc", ["objects", ["subject", "subject"], ["pipe", pipe]], ["init", sub0], ["threads"] + threads, ["fini"], ["sched"] + sched]
    return {"scn": scn, "kind": "hot-so", "shape": shape, "items": items, "second": second or [], "en": "n", "unsub": False, "sched": sched, "users": [0], "fb": feedback}


def judge_hot_so(case, ob):
    bad = []
    gots = [str(c[1][1]) for c in vplib.callbacks_of(ob, "cb") if int(c[0]) == 0 and c[1][0] == "n"]
    want = [str(v) for v in case["items"] + case["second"]] + ([str(case["fb"][1])] if case["fb"] is not None else [])
    if sorted(gots) != sorted(want):
        bad.append("subscribe_on over a hot source: the subscriber received %s but %s were pushed after the subscription was in place" % (gots, want))
    else:
        for seq in (case["items"], case["second"]):
            mine = [g for g in gots if g in [str(v) for v in seq]]
            if mine != [str(v) for v in seq]:
                bad.append("the items of one emitting thread arrived out of order: %s" % gots)
    return bad, " ".join(gots), len(gots) >= 2


def generate(rng, tier, seed):
    thorough = tier == "thorough"
    cases = []
    for _ in range(12 if thorough else 4):
        base = seed * 1000 + rng.randrange(1000)
        shape = rng.choice(["so", "map-so", "so-map", "so-so"])
        its = [1 + 10 * i for i in range(rng.randrange(2, 5))]
        cases.append(hot_so_case(shape, its, ["random", base, 16 if thorough else 8], feedback=(rng.randrange(0, len(its) - 1), 99)))
        cases.append(hot_so_case(shape, its, ["random", base, 30 if thorough else 12], second=[2 + 10 * i for i in range(rng.randrange(1, 4))]))
        cases.append(hot_so_case(shape, its, ["pct", 3, base, 30 if thorough else 12], second=[2 + 10 * i for i in range(rng.randrange(1, 4))]))
    for unsub in (False, True):
        cases.append(hot_case("oo", [1], "c", unsub, ["dfs", 6000]))
        cases.append(hot_case("oo", [1, 2], "n", unsub, ["dfs", 6000]))
        if thorough:
            cases.append(hot_case("oo", [1, 2], "c", unsub, ["dfs", 60000]))
    # a burst: the worker falls far behind (PCT gives the emitter priority in about half of the schedules), the backlog is drained
    # in whatever batches the queue hands out
    for shape in (["oo", "oo-map", "oo-oo"] if thorough else ["oo", "oo-map"]):
        for nb in ([70, 130, 300, 600] if thorough else ([70, 300] if shape == "oo" else [70])):
            base = seed * 1000 + rng.randrange(1000)
            cases.append(hot_case(shape, list(range(1, nb + 1)), rng.choice(["c", "e"]), False, ["pct", 3, base, 12 if thorough else 6]))
            cases.append(hot_case(shape, list(range(1, nb + 1)), "c", False, ["random", base, 6 if thorough else 3]))
    n = 40 if thorough else 9
    for _ in range(n):
        for shape in HOT_SHAPES:
            items = [rng.choice([1, 2, 3]) + 10 * i for i in range(rng.randrange(0, 5))]
            en = rng.choice(["c", "c", "e", "n"])
            unsub = rng.random() < 0.4
            base = seed * 1000 + rng.randrange(1000)
            cases.append(hot_case(shape, items, en, unsub, ["random", base, 40 if thorough else 16], spurious=rng.random() < 0.3))
            cases.append(hot_case(shape, items, en, unsub, ["pct", 3, base, 20 if thorough else 8]))
            if rng.random() < 0.5:
                cases.append(hot_case(shape, items, en, unsub, ["random", base, 20 if thorough else 8], twice=True))
            if rng.random() < 0.5:
                cases.append(hot_case(shape, items, en, False, ["random", base, 20 if thorough else 8], idle=(rng.randrange(0, 5), rng.choice([50, 1500, 5000]))))
            if rng.random() < 0.6:
                # feedback: callback i (on the worker) emits item 99 into the source; no terminal (it could overtake the feedback item)
                its = [rng.choice([1, 2, 3]) + 10 * i for i in range(rng.randrange(1, 5))]
                cases.append(hot_case(shape, its, "n", False, [rng.choice(["random", "pct"])] + ([3] if False else []) + [base, 16 if thorough else 8],
                                      feedback=(rng.randrange(0, len(its)), 99)))
                if cases[-1]["sched"][0] == "pct":
                    cases[-1]["sched"][1:1] = [3]
                    cases[-1]["scn"][5] = ["sched"] + cases[-1]["sched"]
        for shape in COLD_SHAPES:
            items = [rng.choice([1, 2, 3]) + 10 * i for i in range(rng.randrange(0, 5))]
            en = rng.choice(["c", "c", "e", "n"])
            unsub = rng.random() < 0.4
            base = seed * 1000 + rng.randrange(1000)
            cases.append(cold_case(shape, items, en, unsub, ["random", base, 30 if thorough else 12], spurious=rng.random() < 0.3))
            if rng.random() < 0.5:
                cases.append(cold_case(shape, items, en, unsub, ["random", base, 20 if thorough else 8], twice=True))
    return cases


def sched_of(case, ob):
    s = case["sched"]
    if s[0] == "random":
        return ["random", ob["seed"], 1]
    if s[0] == "pct":
        return ["pct", s[1], ob["seed"], 1]
    if s[0] == "dfs":
        return ["replay"] + [int(c) for c in ob.get("choices", [])]
    return s


def judge_one(case, ob):
    if case["kind"] == "hot-so":
        return judge_hot_so(case, ob)
    bad, logs, nt = [], [], False
    for u in case.get("users", [0]):
        b, l, n = judge_user(case, ob, u)
        bad += ["U%d: %s" % (u, x) for x in b]
        logs.append(l)
        nt = nt or n
    return bad, " | ".join(logs), nt


def judge_user(case, ob, u):
    bad = []
    cbs = [c for c in vplib.callbacks_of(ob, "cb") if int(c[0]) == u]
    want = [["n", str(v)] for v in case["items"]] + {"c": [["c"]], "e": [["e", "5"]], "n": []}[case["en"]]
    got = [c[1] for c in cbs]
    gots = [[str(x) for x in g] for g in got]
    names = {int(t): n for t, n in ob.get("names", [])}
    spans, open_ = [], {}
    for pos, r in enumerate(ob["ev"]):
        if r[3] == "call":
            open_.setdefault(r[2], []).append((pos, r[4]))
        elif r[3] == "ret" and open_.get(r[2]):
            b, a = open_[r[2]].pop()
            spans.append((a, b, pos))
    unsub = [(b, e) for (a, b, e) in spans if a[0] == "unsub"]
    fb = case.get("feedback")
    if fb is not None:
        # the feedback item arrives exactly once, after the callback that emitted it; the rest is the emitted script in order
        v = str(fb[1])
        pos = [k for k, g in enumerate(gots) if g == ["n", v]]
        rest = [g for g in gots if g != ["n", v]]
        if rest != want:
            bad.append("the subscriber received %s but the source emitted %s (plus the feedback item)" % (got, want))
        elif len(pos) != 1 or pos[0] <= fb[0]:
            bad.append("the item emitted from inside callback #%d was delivered %d time(s) at position(s) %s of %s" % (fb[0], len(pos), pos, got))
    elif not case["unsub"] or u != 0:
        if gots != want:
            bad.append("the subscriber received %s but the source emitted %s" % (got, want))
    else:
        if gots != want[:len(gots)]:
            bad.append("the subscriber received %s: not a prefix of the emitted %s" % (got, want))
        if unsub and case["kind"] == "hot":
            emits = [(a, b, e) for (a, b, e) in spans if a[0] in ("next", "complete", "error")]
            late = [k for k, (a, b, e) in enumerate(emits) if b > unsub[0][1]]
            if late and len(gots) > late[0]:
                bad.append("event #%d was delivered although its emission began after unsubscribe had returned" % late[0])
        if unsub:
            for c in cbs:
                pass
    # thread affinity and mutual exclusion
    tids = set(c[5] for c in cbs)
    if len(tids) > 1:
        bad.append("callbacks ran on %d different threads %s" % (len(tids), sorted(tids)))
    for t in tids:
        if int(t) in names:
            bad.append("callbacks ran on the harness thread %s (%s), not on a scheduler thread" % (t, names[int(t)]))
    depth = 0
    for r in ob["ev"]:
        if r[3] == "cb" and int(r[4]) == u:
            depth += 1
            if depth > 1:
                bad.append("two callbacks of the subscriber overlapped")
                break
        elif r[3] == "cbret" and int(r[4]) == u:
            depth -= 1
    # non-trivial: >= 2 callbacks on a worker while the emitter still had calls to make, or an unsubscribe overlapping the emission
    nontriv = False
    if case["kind"] == "hot":
        emits = [(b, e) for (a, b, e) in spans if a[0] in ("next", "complete", "error")]
        if emits and len(cbs) >= 2 and cbs[1][3] < emits[-1][1]:
            nontriv = True
        if unsub and emits and unsub[0][0] < emits[-1][1] and unsub[0][1] > emits[0][0]:
            nontriv = True
    else:
        nontriv = len(cbs) >= 2 and (not unsub or len(gots) < len(want))
    log = " ".join(str(k) for k in range(len(gots)))
    return bad, log, nontriv


def judge(cases, runs):
    viol, unshown, nontriv = [], [], set()
    impl_logs = {}
    for ci, (case, obs) in enumerate(zip(cases, runs)):
        for ob in obs:
            if ob["status"] == "dfs-done":
                case["dfs_complete"] = ob["complete"]
                continue
            if ob["status"] != "ok" or ob.get("panics", 0):
                viol.append((ci, sched_of(case, ob), "run ended with status %s panics %s %s" % (ob["status"], ob.get("panics"), ob.get("msg", ""))))
                continue
            bad, log, nt = judge_one(case, ob)
            if bad:
                viol.append((ci, sched_of(case, ob), "; ".join(bad[:3])))
            if nt:
                nontriv.add((sx.dumps(case["scn"][1:5]), log))
            if case["sched"][0] == "dfs":
                impl_logs.setdefault(ci, set()).add(log)
    dfs = [ci for ci, c in enumerate(cases) if c["sched"][0] == "dfs"]
    total = covered = 0
    if dfs:
        ins = []
        for ci in dfs:
            c = cases[ci]
            n = len(c["items"]) + (1 if c["en"] in ("c", "e") else 0)
            ins.append(sx.dumps(["oo", n, 1 if c["en"] in ("c", "e") else 0, 1 if c["unsub"] else 0]))
        outs = vplib.driver_lines(["oo-explore"], ins)
        for ci, line in zip(dfs, outs):
            x = sx.loads(line)
            mset = set(" ".join(str(v) for v in l) for l in x[1:])
            iset = impl_logs.get(ci, set())
            total += len(mset)
            covered += len(mset & iset)
            extra = iset - mset
            if extra:
                unshown.append((ci, cases[ci]["sched"], "implementation log(s) %s not among the observe_on model's logs %s" % (sorted(extra)[:3], sorted(mset))))
    import re
    extra = {"failure_kinds": vplib._count(cases[v[0]]["shape"] + ": " + re.sub(r"[0-9]+", "#", v[2].split(";")[0])[:120] for v in viol),
             "model_logs_total": total, "model_logs_reached_by_impl": covered,
             "shapes": vplib._count(c["shape"] + ("+unsub" if c["unsub"] else "") for c in cases),
             "endings": vplib._count(c["en"] for c in cases), "script_lengths": vplib._count(str(len(c["items"])) for c in cases),
             "dfs_complete": vplib._count(str(c.get("dfs_complete")) for c in cases if c["sched"][0] == "dfs")}
    return {"violations": viol, "unshown": unshown, "nontrivial": nontriv, "extra": extra}
