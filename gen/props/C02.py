"""C02 - single-source operators and creation functions compute their ReactiveX function."""
import itertools

import scen
import sx
from scen import C, e, n, op, scn, src, sub

PID = "C02"
ORACLE = "c02"
TIE_ORACLES = ["c02loc"]      # impl = Seq = Loc.chain (the local semantics the operator theorems are about)
RULE = ("well-formed cold scripts (items over {1,2,3} with repeats, lengths 0..8, endings complete/error/silent) and creation functions "
        "under every single-source operator with parameters 0..5 / the fixed function families, and random chains of depth 2-4; "
        "quick: boundary-focused sample, thorough: exhaustive single-operator layer up to length 4 plus 60k chains; non-trivial = the "
        "oracle applies (scenario inside C02's catalogue) and the expected or observed stream has at least one event")
ASSUMPTIONS = ["functions and predicates come from the fixed families of coq/Model/Val.v",
               "repeat is specified on demand: only chains that cut it are judged",
               "type-changing operators are followed by the harness's conversion map (transparent to the log)"]

ITEMS = [1, 2, 3]
ENDS = ["c", ("e", 5), "s"]


def ops_of(sc):
    out = []
    for a in sx.field(sc[1:], "script"):
        if a[0] == "sub":
            scen.ops_in(a[2], out)
    return out


def nontrivial(sc, ob, verdict):
    return verdict != "skip" and bool(ob["log"])


def classify(sc, ob, verdict):
    return None


def judge_impl(cases, obs):
    """defer / start subscribed again: the i-th observer is served by the i-th call of the factory / function (call i yields the
    single item i), whatever the earlier observers were given"""
    out = []
    for i, ((sc, info), ob) in enumerate(zip(cases, obs)):
        if info.get("k") != "creation-again" or not info.get("bare") or ob["out"] != "ok":
            continue
        for u in range(info["n"]):
            got = [sx.dumps(x[2]) for x in ob["log"] if x[0] == "t%d" % u]
            want = ["(n %d)" % u, "(c)"]
            if got != want:
                out.append((i, "observer %d of a defer/start Observable subscribed %d times received %s, expected %s (a fresh Observable / call for each observer)" % (u, info["n"], " ".join(got), " ".join(want))))
                break
    return out


C02_NAMES = [x for x in scen.SINGLE_NAMES if x not in ("retry", "retry_when")]


def params_grid(name):
    """every parameter instance of one operator used by the exhaustive layer"""
    P, F1, F2, CN = scen.PREDS, scen.FN1, scen.FN2, [0, 1, 2, 3, 4, 5]
    table = {
        "map": [[f] for f in F1], "filter": [[p] for p in P], "take": [[c] for c in CN], "take_while": [[p] for p in P],
        "take_last": [[c] for c in CN], "skip": [[c] for c in CN], "skip_last": [[c] for c in CN], "skip_while": [[p] for p in P],
        "first": [[]], "last": [[]], "element_at": [[c] for c in CN], "distinct_until_changed": [[]], "scan": [[f] for f in F2],
        "reduce": [[f] for f in F2], "count": [[]], "sum": [[]], "sum_and_count": [[]], "min": [[]], "max": [[]],
        "all": [[p] for p in P], "contains": [[1], [2], [4]], "default_if_empty": [[9]], "ignore_elements": [[]],
        "start_with": [[], [8], [8, 9]], "buffer_with_count": [[1], [2], [3], [5]], "window_with_count": [[1], [2], [3], [5]],
        "group_by": [[1], [2], [3]], "materialize": [[]], "dematerialize": [[]], "tap": [[0]], "map_to_any": [[]],
    }
    return table[name]


def rand_script(rng, maxlen=8):
    k = rng.choice([0, 1, 2, 3, 3, 4, 5, 6, 8][: maxlen + 1])
    xs = [rng.choice(ITEMS) for _ in range(k)]
    return scen.script(xs, rng.choice(ENDS))


def creation(rng):
    return rng.choice([["just", rng.choice(ITEMS)], ["from_iter"] + [rng.choice(ITEMS) for _ in range(rng.randrange(0, 5))],
                       ["range", rng.randrange(-1, 3), rng.randrange(-1, 5)], ["empty"], ["never"], ["error", 4],
                       ["defer", ["from_iter", 1, 2]], ["start", 0], ["result_ok", 2], ["result_err", 3]])


def cutter(rng):
    return rng.choice([("take", [rng.choice([1, 2, 3])]), ("first", []), ("element_at", [rng.choice([1, 2, 3])]),
                       ("take_while", [["false"]]), ("all", [["false"]])])


def generate(rng, tier, focus):
    cases = []
    thorough = tier == "thorough"
    # 1. single-operator layer
    if thorough:
        scripts = [scen.script(list(xs), en) for k in range(0, 5) for xs in itertools.product(ITEMS, repeat=k) for en in ENDS]
    else:
        scripts = [scen.script(xs, en) for xs in ([], [1], [2, 2], [1, 2, 3], [3, 1, 2, 2], [1, 1, 2, 3, 3, 2]) for en in ENDS]
    for nm in C02_NAMES:
        grid = params_grid(nm)
        for ps in grid:
            ss = scripts if (thorough or nm in focus) else [rng.choice(scripts) for _ in range(4)] + scripts[:3]
            for s in ss:
                src_script = s
                if nm == "dematerialize":
                    src_script = [["n", rng.choice([["mn", x[1]], ["mn", x[1]], ["mn", x[1]], ["mc"], ["me", 6]])] if x[0] == "n" else x for x in s]
                cases.append((scn(srcs=[src([src_script], rng.random() < 0.3)], script_=[sub(0, op(nm, ps, ["cold", 0]))]), {"k": "single"}))
    # 2. creation functions, bare and under one operator
    for _ in range(600 if thorough else 120):
        p = creation(rng)
        if rng.random() < 0.7:
            nm = rng.choice(C02_NAMES)
            p = op(nm, rng.choice(params_grid(nm)), p)
        cases.append((scn(script_=[sub(0, p)]), {"k": "creation"}))
    # creation functions subscribed again and again: defer asks its factory once PER OBSERVER (call k of the counting factory
    # builds just k), start calls its function once per observer; judged by impl = model
    for _ in range(300 if thorough else 60):
        p = rng.choice([["defer_built", 0], ["defer_built", 0], ["defer", ["start", 0]], ["start", 0], ["defer", ["defer_built", 0]]])
        if rng.random() < 0.6:
            nm = rng.choice([x for x in C02_NAMES if x not in ("window_with_count", "group_by")])
            p = op(nm, rng.choice(params_grid(nm)), p)
        k = rng.choice([2, 3, 4])
        cases.append((scn(handles=k, script_=[sub(i, ["ref", 0]) for i in range(k)], defs=[p]), {"k": "creation-again", "bare": p[0] != "op", "n": k}))
    # repeat must be cut
    for _ in range(200 if thorough else 40):
        p = ["repeat", rng.choice(ITEMS)]
        for _ in range(rng.randrange(0, 2)):
            nm = rng.choice(["map", "filter", "skip", "scan", "distinct_until_changed", "tap", "start_with", "materialize", "buffer_with_count"])
            ps = rng.choice(params_grid(nm))
            if nm == "filter":
                ps = [["true"]]
            if nm == "distinct_until_changed":
                continue
            p = op(nm, ps, p)
        c = cutter(rng)
        p = op(c[0], c[1], p)
        cases.append((scn(script_=[sub(0, p)]), {"k": "repeat"}))
    # 3. random chains
    names_inner = [x for x in C02_NAMES if x not in ("window_with_count", "group_by")]
    for _ in range(60000 if thorough else 2500):
        d = rng.choice([2, 3, 4] if thorough else [2, 3])
        p = ["cold", 0]
        for i in range(d):
            last = i == d - 1
            nm = rng.choice(C02_NAMES if last else names_inner)
            p = op(nm, rng.choice(params_grid(nm)), p)
        cases.append((scn(srcs=[src([rand_script(rng)], rng.random() < 0.3)], script_=[sub(0, p)]), {"k": "chain"}))
    return cases
