"""C15 - worker threads started for a subscription exit when it ends."""
import sx
import vplib

PID = "C15"
ENGINE = "conc"
RULE = ("every thread-creating source / operator (interval, timer, observe_on, subscribe_on, debounce, timeout and nestings of them) "
        "combined with every terminating cause (complete, error, unsubscribe from another thread at a random virtual time, "
        "take / first / take_until / amb / retry downstream), subscribed once or three times in a row, under random and PCT schedules in "
        "virtual time; at quiescence the runtime's set of live threads must be empty (no scheduler thread parked for ever) and the last "
        "thread must have finished at most one period (the largest duration in the pipeline) after the subscription ended (terminal "
        "callback or return of unsubscribe, whichever is last); non-trivial = a run in which at least one scheduler thread was started "
        "and the subscription ended before that thread's loop would have ended by itself; distinct = distinct (pipeline, cause)")
ASSUMPTIONS = ["scheduling points are the facade's lock/condvar/spawn/sleep operations; time is virtual (sleep advances it, computation is free)",
               "user callbacks return; the source of an unsubscribed hot pipeline stops emitting (the harness thread ends)"]

MS = 1000000


def catalogue(rng):
    d = rng.choice([5, 10, 20])
    k = rng.choice([1, 2, 3])
    iv = ["interval", d]
    cold = ["from_iter", 1, 2, 3]
    err = ["op", "concat", [], ["from_iter", 1], ["error", 5]]
    out = [
        ("take(interval)", ["op", "take", [k], iv], d, None),
        ("first(interval)", ["op", "first", [], iv], d, None),
        ("interval+unsub", iv, d, "unsub"),
        ("take_until(interval,timer)", ["op", "take_until", [], iv, ["timer", d * k + 3]], d * k + 3, None),
        ("amb(interval,timer)", ["op", "amb", [], iv, ["timer", d - 2]], d, None),
        ("timer", ["timer", d], d, None),
        ("timer+unsub", ["timer", d], d, "unsub"),
        ("take_until(just,timer)", ["op", "take_until", [], ["just", 1], ["timer", d]], d, None),
        ("observe_on(cold)", ["op", "observe_on", [], cold], 0, None),
        ("observe_on(error)", ["op", "observe_on", [], err], 0, None),
        ("take(observe_on(cold))", ["op", "take", [1], ["op", "observe_on", [], cold]], 0, None),
        ("observe_on(never)+unsub", ["op", "observe_on", [], ["op", "concat", [], cold, ["never"]]], 0, "unsub"),
        ("subscribe_on(cold)", ["op", "subscribe_on", [], cold], 0, None),
        ("subscribe_on(error)", ["op", "subscribe_on", [], err], 0, None),
        ("subscribe_on(never)+unsub", ["op", "subscribe_on", [], ["op", "concat", [], cold, ["never"]]], 0, "unsub"),
        ("observe_on(take(interval))", ["op", "observe_on", [], ["op", "take", [k], iv]], d, None),
        ("take(observe_on(interval))", ["op", "take", [k], ["op", "observe_on", [], iv]], d, None),
        ("subscribe_on(take(interval))", ["op", "subscribe_on", [], ["op", "take", [k], iv]], d, None),
        ("observe_on(observe_on(cold))", ["op", "observe_on", [], ["op", "observe_on", [], cold]], 0, None),
        ("retry(observe_on(error))", ["op", "retry", [2], ["op", "observe_on", [], err]], 0, None),
        ("delay(take(interval))", ["op", "delay", [3], ["op", "take", [k], iv]], d + 3, None),
        # a source that would be subscribed AFTER the subscription has already ended (the synchronous first source ends it): no thread may start
        ("switch_on_next(just,interval)", ["op", "switch_on_next", [], ["just", 1], iv], d, None),
        ("switch_on_next(empty,timer)", ["op", "switch_on_next", [], ["empty"], ["timer", d]], d, None),
        ("concat(error,interval)", ["op", "concat", [], ["error", 5], iv], d, None),
        # a deadline driven by the synchronous scheduler runs on the thread that delivered the item - here a subscribe_on worker, which
        # must come back from the item's next() once TimedOut has been delivered, and exit
        ("subscribe_on(timeout_sync(just))", ["op", "subscribe_on", [], ["op", "timeout_sync", [d], ["op", "concat", [], ["just", 1], ["never"]]]], d, None),
        # a source that would go on for ever on a scheduler thread, cut downstream: the worker must come back and exit
        ("take(subscribe_on(from_iter_endless))", ["op", "take", [3], ["op", "subscribe_on", [], ["from_iter_endless"]]], 0, None),
        ("first(observe_on(subscribe_on(from_iter_endless)))", ["op", "first", [], ["op", "observe_on", [], ["op", "subscribe_on", [], ["op", "take", [50], ["from_iter_endless"]]]]], 0, None),
        # the fallback of on_error_resume_next owns a ticker; the subscription is ended downstream while it runs
        ("take(on_error_resume_next(error,interval))", ["op", "take", [k], ["op", "on_error_resume_next", [], ["error", 5], iv]], d, None),
        ("on_error_resume_next(error,interval)+unsub", ["op", "on_error_resume_next", [], ["error", 5], iv], d, "unsub"),
        ("amb(just,observe_on(interval))", ["op", "amb", [], ["just", 7], ["op", "observe_on", [], iv]], d, None),
        ("take_until(observe_on(subscribe_on(interval)),just)", ["op", "take_until", [], ["op", "observe_on", [], ["op", "subscribe_on", [], iv]], ["just", 1]], d, None),
        ("take(merge(just,observe_on(interval)))", ["op", "take", [1], ["op", "merge", [], ["just", 7], ["op", "observe_on", [], iv]]], d, None),
        # an operator that has all it needs while BOTH its thread-backed inputs are still running: the first pair already differs
        ("sequence_equal(interval,interval+1)", ["op", "sequence_equal", [], iv, ["op", "map", [["add", 1]], ["interval", d + 1]]], d + 1, None),
        ("contains(interval)", ["op", "contains", [1], iv], d, None),
        # a materialized Complete ends the stream while the other materialized ticker is still running
        ("dematerialize(merge(materialize(take(interval)),materialize(interval)))",
         ["op", "dematerialize", [], ["op", "merge", [], ["op", "materialize", [], ["op", "take", [k], iv]], ["op", "materialize", [], ["interval", d + 1]]]], d + 1, None),
        # a thread-backed source SHARED through ref_count / replay whose sole subscriber leaves on an item delivered during the connect
        ("take(ref_count(merge(interval,just)))", ["op", "take", [1], ["conn", 0]], d, None, [["conn", "refcount", ["op", "merge", [], iv, ["just", 9]]]]),
        ("take(ref_count(interval))", ["op", "take", [k], ["conn", 0]], d, None, [["conn", "refcount", iv]]),
        ("ref_count(interval)+unsub", ["conn", 0], d, "unsub", [["conn", "refcount", iv]]),
        ("all(interval)", ["op", "all", [["lt", 1]], iv], d, None),
    ]
    return out


def hot_catalogue(rng):
    d = rng.choice([5, 10])
    gaps = [rng.choice([1, 2, d - 2, d + 3]) for _ in range(rng.randrange(1, 4))]
    emit = []
    for i, g in enumerate(gaps):
        emit += [["sleep", g], ["next", 0, i + 1]]
    end = rng.choice([["complete", 0], ["error", 0, 5], None])
    tail = ([["sleep", rng.choice([1, d + 4])], end] if end else [])
    out = []
    for nm, pipe in [("debounce(hot)", ["op", "debounce", [d], ["hot", 0]]), ("timeout(hot)", ["op", "timeout", [d], ["hot", 0]]),
                     ("observe_on(hot)", ["op", "observe_on", [], ["hot", 0]]), ("timeout(observe_on(hot))", ["op", "timeout", [d], ["op", "observe_on", [], ["hot", 0]]]),
                     ("take(timeout(hot))", ["op", "take", [1], ["op", "timeout", [d], ["hot", 0]]]),
                     ("take(debounce(hot))", ["op", "take", [1], ["op", "debounce", [d], ["hot", 0]]]),
                     ("sample(hot,interval)", ["op", "take", [2], ["op", "sample", [], ["hot", 0], ["interval", d]]])]:
        out.append((nm, pipe, d, emit + tail, "unsub" if end is None else None))
    return out


def special_cases(rng, seed, thorough):
    """scenarios with their own thread scripts"""
    out = []
    d = rng.choice([5, 10])
    runs = 12 if thorough else 5
    # a consumer that, on the operator's worker thread, feeds the operator's own source (feedback), then leaves
    for opn, ps, others in [("debounce", [d], []), ("delay", [3], []), ("observe_on", [], []), ("sample", [], [["interval", d]])]:
        pipe = ["op", opn, ps, ["hot", 0]] + others
        threads = [["e", ["sleep", 1], ["next", 0, 1], ["sleep", 4 * d], ["next", 0, 2], ["sleep", 4 * d], ["unsub", 0]]]
        scn = ["conc", ["objects", ["subject", "subject"], ["pipe", pipe]], ["init", ["sub", 0, 0, ["react", 0, ["next", 0, 7]]]], ["threads"] + threads, ["fini"],
               ["sched", "random", seed * 1000 + rng.randrange(1000), runs]]
        out.append({"scn": scn, "name": "feedback(%s)+unsub" % opn, "period": max(d, 3), "users": 1})
    # flat_map whose thread-backed inner observables churn: A (a timer) ends while B (a ticker) runs, then C (a ticker) is opened;
    # after the unsubscribe no ticker may go on
    for _ in range(3 if thorough else 1):
        pipe = ["op", "flat_map", [["mod"]], ["hot", 0], ["timer", d], ["interval", d + 1], ["interval", d + 2]]
        threads = [["e", ["next", 0, 0], ["sleep", 1], ["next", 0, 1], ["sleep", 3 * d], ["next", 0, 2], ["sleep", 2 * d], ["unsub", 0]]]
        scn = ["conc", ["objects", ["subject", "subject"], ["pipe", pipe]], ["init", ["sub", 0, 0]], ["threads"] + threads, ["fini"],
               ["sched", "random", seed * 1000 + rng.randrange(1000), runs]]
        out.append({"scn": scn, "name": "flat_map(timer,interval,interval) churn+unsub", "period": d + 2, "users": 1})
    # a ticker shared through replay(): the first subscriber connects it, a LATE subscriber whose demand (take 1 / first) is met
    # from the replayed history alone comes and goes, then the first subscriber leaves: nobody is left, the ticker must stop
    for late in (["op", "take", [1], ["conn", 0]], ["op", "first", [], ["conn", 0]], ["op", "take_while", [["lt", 0]], ["conn", 0]]):
        threads = [["s", ["sleep", 2 * d + 2], ["sub", 1, late], ["sleep", d], ["unsub", 0]]]
        scn = ["conc", ["objects", ["conn", "replay", ["interval", d]], ["pipe", ["conn", 0]]], ["init", ["sub", 0, 0]], ["threads"] + threads, ["fini"],
               ["sched", "random", seed * 1000 + rng.randrange(1000), runs]]
        out.append({"scn": scn, "name": "replay(interval): late %s from the history, then the first subscriber leaves" % late[1], "period": d, "users": 2})
    return out


def generate(rng, tier, seed):
    thorough = tier == "thorough"
    cases = []
    for _ in range(10 if thorough else 5):
        for entry in catalogue(rng):
            nm, pipe, period, cause = entry[:4]
            extra_objs = entry[4] if len(entry) > 4 else []
            for repeat in (1, 3):
                base = seed * 1000 + rng.randrange(1000)
                threads = []
                init = [["sub", 0, 0]]
                fini = []
                if cause == "unsub":
                    threads.append(["u", ["sleep", rng.choice([0, 1, period + 1, 2 * period + 1])], ["unsub", 0]])
                if repeat == 3 and cause is None:
                    fini = [["sleep", 200], ["sub", 1, 0], ["sleep", 200], ["sub", 2, 0]]
                scn = ["conc", ["objects"] + extra_objs + [["pipe", pipe]], ["init"] + init, ["threads"] + threads, ["fini"] + fini,
                       ["sched", "random", base, 12 if thorough else 5]]
                cases.append({"scn": scn, "name": nm + ("+unsub" if cause and "unsub" not in nm else "") + (" x3" if fini else ""), "period": period, "users": 3 if fini else 1})
        for nm, pipe, period, emit, cause in hot_catalogue(rng):
            base = seed * 1000 + rng.randrange(1000)
            threads = [["e"] + emit]
            if cause == "unsub":
                threads.append(["u", ["sleep", rng.choice([1, period + 1, 3 * period])], ["unsub", 0]])
            scn = ["conc", ["objects", ["subject", "subject"], ["pipe", pipe]], ["init", ["sub", 0, 0]], ["threads"] + threads, ["fini"],
                   ["sched", rng.choice(["random", "random", "pct"])] + ([3] if False else []) + [base, 12 if thorough else 5]]
            if scn[5][1] == "pct":
                scn[5] = ["sched", "pct", 3, base, 12 if thorough else 5]
            cases.append({"scn": scn, "name": nm + ("+unsub" if cause else ""), "period": period, "users": 1})
        # an unsubscribe due at the very instant an item arrives (timeout re-arms its deadline while the subscription ends)
        for nm, pipe, period, emit, cause in hot_catalogue(rng)[:2]:
            arrivals, t = [], 0
            for a in emit:
                if a[0] == "sleep":
                    t += a[1]
                elif a[0] == "next":
                    arrivals.append(t)
            if not arrivals:
                continue
            base = seed * 1000 + rng.randrange(1000)
            threads = [["e"] + emit, ["u", ["sleep", rng.choice(arrivals)], ["unsub", 0]]]
            scn = ["conc", ["objects", ["subject", "subject"], ["pipe", pipe]], ["init", ["sub", 0, 0]], ["threads"] + threads, ["fini"],
                   ["sched", "pct", 5, base, 1200 if thorough else 400]]      # the window is a few lock operations wide: ~2% of PCT-5 schedules land in it
            cases.append({"scn": scn, "name": nm + "+unsub@item", "period": period, "users": 1})
    cases += special_cases(rng, seed, thorough)
    return cases


def sched_of(case, ob):
    s = [f for f in case["scn"] if isinstance(f, list) and f and f[0] == "sched"][0]
    if s[1] == "pct":
        return ["pct", int(s[2]), ob["seed"], 1]
    return ["random", ob["seed"], 1]


def judge(cases, runs):
    viol, unshown, nontriv = [], [], set()
    slack_hist = {}
    for ci, (case, obs) in enumerate(zip(cases, runs)):
        for ob in obs:
            sd = sched_of(case, ob)
            if ob["status"] != "ok" or ob.get("panics", 0):
                viol.append((ci, sd, "run ended with status %s panics %s %s" % (ob["status"], ob.get("panics"), str(ob.get("detail", ""))[:300])))
                continue
            names = set(int(t) for t, _ in ob.get("names", []))
            live = [(t, s) for t, s in (ob.get("live") or []) if int(t) not in names]
            if live:
                viol.append((ci, sd, "%d scheduler thread(s) still alive at quiescence (parked for ever): %s" % (len(live), live[:4])))
                continue
            if str(ob.get("timelimit", "0")) != "0":
                viol.append((ci, sd, "virtual time limit reached: a thread keeps waking up although every subscription has ended"))
                continue
            # the end of the (last) subscription: terminal callback of the last user or return of unsubscribe, whichever is later
            t_end = 0
            ended = False
            for r in ob["ev"]:
                if r[3] == "cb" and r[5][0] in ("c", "e"):
                    t_end, ended = max(t_end, int(r[1])), True
                if r[3] == "ret" and r[4][0] == "unsub":
                    t_end, ended = max(t_end, int(r[1])), True
                if r[3] in ("call", "ret") and r[4][0] in ("sub", "next", "complete", "error", "sleep"):
                    t_end = max(t_end, int(r[1]))       # the harness's own threads
            if not ended:
                continue
            slack = int(ob["vt"]) - t_end
            slack_hist[case["name"]] = max(slack_hist.get(case["name"], 0), slack // MS)
            if slack > case["period"] * MS:
                viol.append((ci, sd, "the last thread finished %d ms after the subscription ended at %d ms: more than one period (%d ms)" % (
                    slack // MS, t_end // MS, case["period"])))
            nontriv.add((case["name"],))
    import re
    extra = {"failure_kinds": vplib._count(cases[v[0]]["name"] + ": " + re.sub(r"[0-9]+", "#", v[2])[:110] for v in viol),
             "max_exit_delay_ms_after_end": slack_hist, "pipelines": sorted(set(c["name"] for c in cases))}
    return {"violations": viol, "unshown": unshown, "nontrivial": nontriv, "extra": extra}
