"""helpers shared by the property modules"""
import scen
import sx


def ops_of(sc):
    out = []
    for a in sx.field(sc[1:], "script"):
        if a[0] == "sub":
            scen.ops_in(a[2], out)
    for c in sx.field(sc[1:], "conns"):
        scen.ops_in(c[1], out)
    return out


def script_of(sc):
    return sx.field(sc[1:], "script")


def has_op(sc, names):
    return any(o in names for o in ops_of(sc))


def conn_stress(rng, count, tag="conn-stress"):
    """ref_count() / replay() used the way applications do: the connectable's Observable taken ONCE and subscribed several times (a
    shared handle: defs + ref) or taken anew for every subscriber; over a plain Subject, a BehaviorSubject (which emits inside the
    connect and stays open) or a cold source (complete / error / silent, i.e. emitting inside the connect); subscribers attached
    directly or through take(1) / take(2) / first / retry(2) / map, leaving during the connect, re-subscribing from inside the
    terminal (retry), overlapping, leaving in any order; pushes and a failure of the hot source in between and afterwards"""
    import scen
    from scen import C, e, n, op, scn, src, sub
    out = []
    for _ in range(count):
        kind = rng.choice(["refcount", "refcount", "replay", "replay"])
        srck = rng.choice(["subject", "subject", "behavior", "cold"])
        base = ["cold", 0] if srck == "cold" else ["hot", 0]
        shared = rng.choice([base, base, op("map", [["add", 1]], base), op("tap", [0], base)])
        handle = rng.random() < 0.5
        access = ["ref", 0] if handle else ["conn", 0]
        nsub = rng.choice([1, 2, 2, 3])
        acts, alive = [], []
        nxt = 0
        steps = rng.randrange(3, 9)
        for _s in range(steps):
            r = rng.random()
            if nxt < nsub and (r < 0.4 or not acts):
                via = rng.choice([None, None, ("take", [1]), ("take", [2]), ("first", []), ("retry", [2]), ("map", [["add", 0]])])
                acts.append(sub(nxt, access if via is None else op(via[0], via[1], access)))
                alive.append(nxt)
                nxt += 1
            elif alive and r < 0.6:
                u = alive.pop(rng.randrange(len(alive)))
                acts.append(["unsub", u])
            elif srck != "cold":
                acts.append(["emit", 0, rng.choice([n(1), n(2), n(3), n(2), e(4), C] if rng.random() < 0.25 else [n(1), n(2), n(3)])])
        if rng.random() < 0.7:
            for u in alive:
                acts.append(["unsub", u])
            if srck != "cold":
                acts.append(["emit", 0, n(rng.choice([1, 2, 3]))])
        xs = [rng.choice([1, 2, 3]) for _ in range(rng.randrange(0, 4))]
        s0 = scen.script(xs, rng.choice(["c", ("e", 5), "s", "s"]))
        subjects = [["behavior", 0]] if srck == "behavior" else [["subject"]]
        out.append((scn(srcs=[src([s0, s0, s0, s0], False)], subjects=subjects, conns=[[kind, shared]], handles=nsub, script_=acts, defs=[["conn", 0]] if handle else []),
                    {"k": tag}))
    return out
