"""helpers shared by the property modules"""
import scen
import sx


def ops_of(sc):
    out = []
    for a in sx.field(sc[1:], "script"):
        if a[0] == "sub":
            scen.ops_in(a[2], out)
    for c in sx.field(sc[1:], "conns"):
        scen.ops_in(c[1], out)
    return out


def script_of(sc):
    return sx.field(sc[1:], "script")


def has_op(sc, names):
    return any(o in names for o in ops_of(sc))
