"""C16 - time-based sources and operators follow the clock."""
import sx
import vplib

PID = "C16"
ENGINE = "conc"
RULE = ("interval(d) (d in 3..20 ms) with take(k) or an unsubscribe at a random virtual time: tick k must arrive at (k+1)*d; timer(d): one "
        "item at d, then complete; delay(d) over a hot source fed by a thread following a gap script: every item delivered exactly d after "
        "its next() began, in order; timeout(d) over such a source: items pass through, TimedOut exactly d after the first item that is "
        "followed by a gap longer than d (gaps never equal to d), nothing afterwards, and no TimedOut otherwise; sample(trigger = "
        "interval) and debounce(d): only items the source emitted, in source order, none twice; all under random and PCT schedules in "
        "virtual time (sleep advances the clock, computation is free); non-trivial = an observation with at least two callbacks at "
        "different virtual times; distinct = distinct (pipeline, gap script, subscriber log with times)")
ASSUMPTIONS = ["time is the runtime's virtual clock: only sleeps advance it; two events are never scheduled for the same instant by construction of the scripts",
               "user callbacks return immediately (no virtual time passes in them)"]

MS = 1000000


def hot(pipe, emit, sched, extra_threads=()):
    scn = ["conc", ["objects", ["subject", "subject"], ["pipe", pipe]], ["init", ["sub", 0, 0]], ["threads", ["e"] + emit] + list(extra_threads), ["fini"],
           ["sched"] + sched]
    return scn


def generate(rng, tier, seed):
    thorough = tier == "thorough"
    cases = []
    nrun = 10 if thorough else 4
    for _ in range(40 if thorough else 20):
        base = seed * 1000 + rng.randrange(1000)
        d = rng.choice([3, 5, 7, 10, 20])
        k = rng.choice([1, 2, 3, 4])
        sched = rng.choice([["random", base, nrun], ["pct", 3, base, nrun]])
        cases.append({"scn": ["conc", ["objects", ["pipe", ["op", "take", [k], ["interval", d]]]], ["init", ["sub", 0, 0]], ["threads"], ["fini"], ["sched"] + sched],
                      "kind": "interval", "d": d, "k": k})
        if rng.random() < 0.15:
            # a long run: a ticker that drifts, resynchronises or stops after some number of ticks shows only after many of them
            kk = rng.choice([17, 33, 70])
            cases.append({"scn": ["conc", ["objects", ["pipe", ["op", "take", [kk], ["interval", d]]]], ["init", ["sub", 0, 0]], ["threads"], ["fini"], ["sched", "random", base, 2]],
                          "kind": "interval", "d": d, "k": kk})
        if rng.random() < 0.3:
            # a period that is not a whole number of milliseconds
            dus = rng.choice([100, 400, 900, 1500])
            ku = rng.choice([2, 3, 5])
            cases.append({"scn": ["conc", ["objects", ["pipe", ["op", "take", [ku], ["interval_us", dus]]]], ["init", ["sub", 0, 0]], ["threads"], ["fini"], ["sched"] + sched],
                          "kind": "interval-us", "d": d, "dus": dus, "k": ku})
        if rng.random() < 0.3:
            # ONE timeout Observable value subscribed twice over a hot source, both subscriptions alive: each has its own deadline
            g = rng.choice([1, 2])
            cases.append({"scn": ["conc", ["objects", ["subject", "subject"], ["pipe", ["op", "timeout", [d], ["hot", 0]]]], ["init", ["sub", 0, 0], ["sub", 1, 0]],
                                  ["threads", ["e", ["sleep", g], ["next", 0, 10]]], ["fini"], ["sched"] + sched], "kind": "timeout-two", "d": d, "g": g})
        tu = rng.choice([1, d + 1, 2 * d + 1, 3 * d + 2])
        cases.append({"scn": ["conc", ["objects", ["pipe", ["interval", d]]], ["init", ["sub", 0, 0]], ["threads", ["u", ["sleep", tu], ["unsub", 0]]], ["fini"], ["sched"] + sched],
                      "kind": "interval-unsub", "d": d, "tu": tu})
        cases.append({"scn": ["conc", ["objects", ["pipe", ["timer", d]]], ["init", ["sub", 0, 0]], ["threads"], ["fini"], ["sched"] + sched], "kind": "timer", "d": d})
        # the same timer / interval Observable subscribed again: overlapping (offset o) or after the first subscription has ended
        o = rng.choice([1, d - 1, d + 2, 3 * d])
        src2 = rng.choice([["timer", d], ["op", "take", [2], ["interval", d]]])
        cases.append({"scn": ["conc", ["objects", ["pipe", src2]], ["init", ["sub", 0, 0]], ["threads", ["s", ["sleep", o], ["sub", 1, 0]]], ["fini"], ["sched"] + sched],
                      "kind": "again", "d": d, "o": o, "n": 1 if src2[0] == "timer" else 2})
        # gap scripts
        gaps = [rng.choice([1, 2, d - 1, d + 2, 2 * d + 1]) for _ in range(rng.randrange(1, 5))]
        vals = [10 * (i + 1) for i in range(len(gaps))]
        end_gap = rng.choice([1, d - 1, d + 3])
        end = rng.choice([["complete", 0], ["complete", 0], ["error", 0, 5], None])
        emit = []
        for g, v in zip(gaps, vals):
            emit += [["sleep", g], ["next", 0, v]]
        if end:
            emit += [["sleep", end_gap], end]
        meta = {"d": d, "gaps": gaps, "vals": vals, "end_gap": end_gap, "end": end[0] if end else None, "busy": [0] * len(gaps)}
        # a source that never terminates is unsubscribed in the end (debounce and sample poll for as long as they are subscribed)
        stop = [["u", ["sleep", sum(gaps) + 3 * d + 1], ["unsub", 0]]] if not end else []
        cases.append(dict(meta, scn=hot(["op", "delay", [d], ["hot", 0]], emit, sched), kind="delay"))
        # a period that is not a whole number of milliseconds (microseconds: 250 us .. 2.5 ms)
        dus = rng.choice([250, 900, 1500, 2500])
        cases.append({"scn": hot(["op", "delay_us", [dus], ["hot", 0]], emit, sched), "kind": "delay-us", "d": d, "dus": dus, "end": end[0] if end else None})
        # timeout driven by the SYNCHRONOUS default scheduler: the deadline runs on the emitting thread inside the item's next();
        # the first item passes, exactly d later TimedOut is delivered, whatever the source does afterwards is ignored
        g0 = rng.choice([1, 2, d])
        cases.append({"scn": hot(["op", "timeout_sync", [d], ["hot", 0]], [["sleep", g0], ["next", 0, 10], ["next", 0, 20], ["complete", 0]], sched),
                      "kind": "timeout-sync", "d": d, "g0": g0})
        cases.append(dict(meta, scn=hot(["op", "timeout", [d], ["hot", 0]], emit, sched), kind="timeout"))
        cases.append(dict(meta, scn=hot(["op", "debounce", [d], ["hot", 0]], emit, sched, extra_threads=stop), kind="debounce"))
        # a consumer that takes time inside its i-th callback: the deadline of an item runs from the moment the consumer is done with it
        gaps2 = list(gaps) + ([1] if len(gaps) < 2 else [])
        i2 = rng.randrange(1, len(gaps2))
        gaps2[i2] = d - 1                     # item i2 arrives in time ...
        emit2 = []
        for j, g in enumerate(gaps2):
            emit2 += [["sleep", g], ["next", 0, 10 * (j + 1)]]
        if end:
            emit2 += [["sleep", end_gap], end]
        slow = hot(["op", "timeout", [d], ["hot", 0]], emit2, sched)
        c2 = rng.choice([d - 1, d + 1])
        slow[2] = ["init", ["sub", 0, 0, ["react", i2, ["sleep", c2]]]]     # ... and keeps the consumer busy past its predecessor's deadline
        cases.append(dict(meta, gaps=gaps2, vals=[10 * (j + 1) for j in range(len(gaps2))], busy=[c2 if j == i2 else 0 for j in range(len(gaps2))], scn=slow, kind="timeout"))
        # the same sampled Observable subscribed again after an earlier subscription ended with an item pending
        t = rng.choice([1, 2])
        one = [["next", 0, 10], ["next", 0, 20], ["unsub", 0], ["sub", 1, 0], ["next", 1, 9], ["next", 0, 30], ["next", 1, 9], ["unsub", 1]]
        cases.append({"scn": ["conc", ["objects", ["subject", "subject"], ["subject", "subject"], ["pipe", ["op", "sample", [], ["hot", 0], ["hot", 1]]]],
                              ["init", ["sub", 0, 0]], ["threads", ["e"] + one[:2] + ([["next", 1, 9]] if t == 2 else []) + one[2:]], ["fini"], ["sched"] + sched],
                      "kind": "sample-again", "d": d, "vals": [10, 20, 30]})
        cases.append(dict(meta, scn=hot(["op", "sample", [], ["hot", 0], ["interval", d]], emit + ([] if end else []), sched,
                                        extra_threads=[["u", ["sleep", sum(gaps) + 3 * d + 1], ["unsub", 0]]] if not end else []), kind="sample"))
        # debounce whose consumer takes longer than the period over an item, and whose source completes while an item is pending:
        # whatever hands the pending item on (the worker's tick, a flush at completion) must do so at most once
        dq = rng.choice([3, 5, 7])
        busyc = dq + rng.choice([2, dq, 2 * dq])
        emitq = [["sleep", 1], ["next", 0, 10], ["sleep", dq + 2], ["next", 0, 20], ["sleep", rng.choice([1, 2])], ["complete", 0]]
        scq = hot(["op", "debounce", [dq], ["hot", 0]], emitq, sched)
        scq[2] = ["init", ["sub", 0, 0, ["react", rng.choice([0, 1]), ["sleep", busyc]]]]
        cases.append({"scn": scq, "kind": "debounce", "d": dq, "vals": [10, 20], "gaps": [1, dq + 2], "end": "complete", "end_gap": 1, "busy": [0, 0]})
        # sample whose consumer fires the trigger again from inside its own callback (feedback): the pending item was handed on
        # already - it must not come a second time
        fi = rng.choice([0, 0, 1])
        fb = [["next", 0, 10], ["next", 1, 9], ["next", 0, 20], ["next", 1, 9], ["next", 1, 9], ["next", 0, 30], ["next", 1, 9]]
        cases.append({"scn": ["conc", ["objects", ["subject", "subject"], ["subject", "subject"], ["pipe", ["op", "sample", [], ["hot", 0], ["hot", 1]]]],
                              ["init", ["sub", 0, 0, ["react", fi, ["next", 1, 9]]]], ["threads", ["e"] + fb], ["fini"], ["sched"] + sched],
                      "kind": "sample", "d": d, "vals": [10, 20, 30]})
        # delay below a merge of two sources fed by two threads: an item that arrives while another one is being held back is
        # handed on d after ITS arrival (delay holds each item on the thread that brought it)
        g0 = rng.choice([1, 2, 3])
        g1 = g0 + rng.choice([1, 2, d - 1]) if d > 1 else g0 + 1
        cases.append({"scn": ["conc", ["objects", ["subject", "subject"], ["subject", "subject"],
                                       ["pipe", ["op", "delay", [d], ["op", "merge", [], ["hot", 0], ["hot", 1]]]]],
                              ["init", ["sub", 0, 0]], ["threads", ["e0", ["sleep", g0], ["next", 0, 10], ["sleep", 1], ["next", 0, 30]],
                                                       ["e1", ["sleep", g1], ["next", 1, 20]]], ["fini"], ["sched"] + sched],
                      "kind": "delay2", "d": d, "end": None})
    return cases


def sched_of(case, ob):
    s = [f for f in case["scn"] if isinstance(f, list) and f and f[0] == "sched"][0]
    if s[1] == "pct":
        return ["pct", s[2], ob["seed"], 1]
    return ["random", ob["seed"], 1]


def judge_one(case, ob):
    bad = []
    cbs = [(int(r[1]), r[5]) for r in ob["ev"] if r[3] == "cb" and int(r[4]) == 0]
    kind, d = case["kind"], case["d"] * MS
    items = [(t, int(e[1]) if not isinstance(e[1], list) else 0) for t, e in cbs if e[0] == "n"]
    terms = [(t, e) for t, e in cbs if e[0] != "n"]
    calls = {}
    for r in ob["ev"]:
        if r[3] == "call" and r[4][0] in ("next", "complete", "error", "unsub"):
            calls.setdefault(r[4][0], []).append((int(r[1]), r[4]))
    if kind == "interval":
        want = [((i + 1) * d, i) for i in range(case["k"])]
        if items != want:
            bad.append("interval(%d ms).take(%d) delivered %s (time ns, tick), expected %s" % (case["d"], case["k"], items, want))
        if [e[0] for _, e in terms] != ["c"] or terms[0][0] != case["k"] * d:
            bad.append("expected complete at %d ms, got %s" % (case["k"] * case["d"], terms))
    elif kind == "interval-us":
        want = [((i + 1) * case["dus"] * 1000, i) for i in range(case["k"])]
        if items != want:
            bad.append("interval(%d us).take(%d) delivered %s (time ns, tick), expected %s" % (case["dus"], case["k"], items, want))
    elif kind == "timeout-two":
        t0 = case["g"] * MS
        for u in (0, 1):
            mine = [(int(r[1]), r[5]) for r in ob["ev"] if r[3] == "cb" and int(r[4]) == u]
            its = [(t, int(e_[1])) for t, e_ in mine if e_[0] == "n"]
            tms = [(t, e_[0], str(e_[1]) if len(e_) > 1 else "") for t, e_ in mine if e_[0] != "n"]
            if its != [(t0, 10)] or tms != [(t0 + d, "e", "9999")]:
                bad.append("two subscriptions of one timeout(%d ms) Observable over a hot source that emits once at %d ms: subscriber %d received items %s terminals %s, expected the item and TimedOut at %d ms" % (
                    case["d"], case["g"], u, its, tms, case["g"] + case["d"]))
    elif kind == "interval-unsub":
        tu = case["tu"] * MS
        want = [((i + 1) * d, i) for i in range(0, 10) if (i + 1) * d < tu]
        if items != want:
            bad.append("interval(%d ms) unsubscribed at %d ms delivered %s, expected %s" % (case["d"], case["tu"], items, want))
        if terms:
            bad.append("an unsubscribed interval delivered a terminal %s" % terms)
    elif kind == "timer":
        if [t for t, _ in items] != [d] or [(t, e[0]) for t, e in terms] != [(d, "c")]:
            bad.append("timer(%d ms) delivered items %s terminals %s" % (case["d"], items, terms))
    elif kind in ("delay", "delay2"):
        nexts = calls.get("next", [])
        want = [(t + d, int(a[2])) for t, a in nexts]
        if items != want:
            bad.append("delay(%d ms): delivered %s, expected each item %d ms after its next() began: %s" % (case["d"], items, case["d"], want))
        if case["end"] and [e[0] for _, e in terms] != [case["end"][0]]:
            bad.append("delay: terminals %s, source ended with %s" % (terms, case["end"]))
    elif kind == "delay-us":
        nexts = calls.get("next", [])
        want = [(t + case["dus"] * 1000, int(a[2])) for t, a in nexts]
        if items != want:
            bad.append("delay(%d us): delivered %s, expected each item %d us after its next() began: %s" % (case["dus"], items, case["dus"], want))
        if case["end"] and [e[0] for _, e in terms] != [case["end"][0]]:
            bad.append("delay: terminals %s, source ended with %s" % (terms, case["end"]))
    elif kind == "timeout-sync":
        t0 = case["g0"] * MS
        if items != [(t0, 10)] or [(t, e[0], str(e[1]) if len(e) > 1 else "") for t, e in terms] != [(t0 + d, "e", "9999")]:
            bad.append("timeout(%d ms, default scheduler): one item at %d ms and no successor within the period: expected it at %d ms and TimedOut at %d ms, got items %s terminals %s" % (
                case["d"], case["g0"], case["g0"], case["g0"] + case["d"], items, terms))
    elif kind == "timeout":
        nexts = [(t, int(a[2])) for t, a in calls.get("next", [])]
        endt = [t for nm in ("complete", "error") for t, _ in calls.get(nm, [])]
        # the deadline of item i is armed when its next() is done downstream (= the return of next(): the consumer may take time)
        rets = [int(r[1]) for r in ob["ev"] if r[3] == "ret" and r[4][0] == "next"]
        fire = None
        for i, (t, v) in enumerate(nexts):
            armed = rets[i] if i < len(rets) else t
            nxt = nexts[i + 1][0] if i + 1 < len(nexts) else (endt[0] if endt else None)
            if nxt is None or nxt - armed > d:
                fire = armed + d
                break
        if fire is None:
            want_items = nexts
            want_term = [case["end"][0]] if case["end"] else []
            if items != want_items:
                bad.append("timeout(%d ms): delivered %s, expected the source's items %s" % (case["d"], items, want_items))
            if [e[0] for _, e in terms] != want_term:
                bad.append("timeout(%d ms): no gap exceeded the period (gaps %s, end gap %s) but the terminals are %s" % (case["d"], case["gaps"], case["end_gap"], terms))
        else:
            want_items = [(t, v) for t, v in nexts if t < fire]
            if items != want_items:
                bad.append("timeout(%d ms): delivered %s, expected %s (deadline at %d ns)" % (case["d"], items, want_items, fire))
            if len(terms) != 1 or terms[0][1][0] != "e" or terms[0][0] != fire:
                bad.append("timeout(%d ms): expected TimedOut at %d ns (gaps %s), got terminals %s" % (case["d"], fire, case["gaps"], terms))
            elif str(terms[0][1][1]) == "5":
                bad.append("timeout delivered the source's error instead of TimedOut")
    elif kind == "again":
        for u in (0, 1):
            t0 = 0 if u == 0 else case["o"] * MS
            isint = case["n"] == 2      # interval: EACH subscription counts its own ticks from 0
            got = [(int(r[1]), r[5][0]) + ((str(r[5][1]),) if isint and r[5][0] == "n" else ()) for r in ob["ev"] if r[3] == "cb" and int(r[4]) == u]
            want = [(t0 + (i + 1) * d, "n") + ((str(i),) if isint else ()) for i in range(case["n"])] + [(t0 + case["n"] * d, "c")]
            if got != want:
                bad.append("subscription %d (made at %d ms) of the shared timer/interval Observable received %s, expected %s" % (u, t0 // MS, got, want))
        cbs = [(int(r[1]), r[5]) for r in ob["ev"] if r[3] == "cb"]
    elif kind == "sample-again":
        # per subscriber: only items the source emitted while THAT subscription existed
        pos = {}
        for k, r in enumerate(ob["ev"]):
            if r[3] == "ret" and r[4][0] == "sub":
                pos[("sub", int(r[4][1]))] = k
            if r[3] == "call" and r[4][0] == "next" and int(r[4][1]) == 0:
                pos[("next", int(r[4][2]))] = k
        for u in (0, 1):
            got = [int(r[5][1]) for r in ob["ev"] if r[3] == "cb" and int(r[4]) == u and r[5][0] == "n"]
            for v in got:
                if pos.get(("next", v), -1) < pos.get(("sub", u), 10 ** 9):
                    bad.append("sample: subscriber %d received %s, which the source emitted before that subscription existed" % (u, v))
            if len(set(got)) != len(got) or got != sorted(got):
                bad.append("sample: subscriber %d received %s: an item twice / out of order" % (u, got))
        cbs = [(int(r[1]), r[5]) for r in ob["ev"] if r[3] == "cb"]
    elif kind in ("debounce", "sample"):
        vals = case["vals"]
        got = [v for _, v in items]
        pos = [vals.index(v) if v in vals else -1 for v in got]
        if -1 in pos:
            bad.append("%s delivered %s which the source never emitted (%s)" % (kind, got, vals))
        elif any(b <= a for a, b in zip(pos, pos[1:])):
            bad.append("%s delivered %s: not in source order / an item twice (source %s)" % (kind, got, vals))
        nexts = dict((int(a[2]), t) for t, a in calls.get("next", []))
        for t, v in items:
            if v in nexts and t < nexts[v]:
                bad.append("%s delivered %s before the source emitted it" % (kind, v))
    times = sorted(set(t for t, _ in cbs))
    return bad, " ".join("%d:%s" % (t // 1000, "".join(str(x) for x in e)) for t, e in cbs), len(times) >= 2


def spec_lines(cases):
    """the definitions proved in Coq (spec_timeout, spec_delay), evaluated by the extracted code on every gap script"""
    idx, lines = [], []
    for ci, c in enumerate(cases):
        if c["kind"] in ("timeout", "delay"):
            items = ["items"] + [[g, v, b] for g, v, b in zip(c["gaps"], c["vals"], c["busy"])]
            en = ["end", c["end_gap"], 1 if c["end"] == "error" else 0] if c["end"] else "none"
            lines.append(sx.dumps([c["kind"], c["d"], items, en]))
            idx.append(ci)
    outs = vplib.driver_lines(["time-oracle"], lines) if lines else []
    return {ci: sx.loads(o)[1:] for ci, o in zip(idx, outs)}


def against_spec(case, ob, spec):
    cbs = [(int(r[1]), r[5]) for r in ob["ev"] if r[3] == "cb" and int(r[4]) == 0]
    if case["kind"] == "timeout":
        got = []
        for t, e in cbs:
            if e[0] == "n":
                got.append([str(t // MS), "n", str(e[1])])
            elif e[0] == "c":
                got.append([str(t // MS), "c"])
            else:
                got.append([str(t // MS), "e" if str(e[1]) == "5" else "timeout"])
        want = [[str(x) for x in w] for w in spec]
        if got != want or any(t % MS for t, _ in cbs):
            return "timeout(%d ms) on gaps %s busy %s end %s: the subscriber saw %s, the definition (Coq spec_timeout) gives %s" % (
                case["d"], case["gaps"], case["busy"], case["end"], got, want)
    else:
        got = [[str(t // MS), str(e[1])] for t, e in cbs if e[0] == "n"]
        want = [[str(w[1]), str(w[2])] for w in spec]
        if got != want:
            return "delay(%d ms) on gaps %s: items delivered as (time, value) %s, the definition (Coq spec_delay) gives %s" % (case["d"], case["gaps"], got, want)
    return None


def judge(cases, runs):
    viol, unshown, nontriv = [], [], set()
    specs = spec_lines(cases)
    for ci, (case, obs) in enumerate(zip(cases, runs)):
        for ob in obs:
            sd = sched_of(case, ob)
            if ob["status"] != "ok" or ob.get("panics", 0):
                viol.append((ci, sd, "run ended with status %s panics %s %s" % (ob["status"], ob.get("panics"), str(ob.get("detail", ""))[:300])))
                continue
            bad, log, nt = judge_one(case, ob)
            if ci in specs:
                why = against_spec(case, ob, specs[ci])
                if why:
                    bad.append(why)
            if bad:
                viol.append((ci, sd, "; ".join(bad[:2])))
            if nt:
                nontriv.add((case["kind"], case["d"], tuple(case.get("gaps", ())), log))
    import re
    extra = {"failure_kinds": vplib._count(cases[v[0]]["kind"] + ": " + re.sub(r"[0-9]+", "#", v[2])[:100] for v in viol),
             "kinds": vplib._count(c["kind"] for c in cases), "periods_ms": vplib._count(str(c["d"]) for c in cases),
             "gap_script_lengths": vplib._count(str(len(c.get("gaps", ()))) for c in cases if "gaps" in c)}
    return {"violations": viol, "unshown": unshown, "nontrivial": nontriv, "extra": extra}
