"""C01 - observer contract: next* then at most one terminal, nothing after (sequential part)."""
import itertools

import scen
import sx
from scen import C, e, n, op, scn, src, sub

PID = "C01"
ORACLE = "c01"
RULE = ("cold sources with ill-formed scripts over {n1,n2,c,e} (exhaustive up to length 4 for the direct case), each single-source "
        "operator once per sampled script, random chains of depth 2-3(4), multi-source operators over two ill-formed cold sources and "
        "over two hot subjects driven in interleaved order incl. emissions after a subject's own terminal; a case is non-trivial when "
        "the subscriber received at least one event AND some source script continues after a terminal or the pipeline has >= 2 sources")
ASSUMPTIONS = ["HashMap iteration order is modelled as insertion order; only per-subscriber sequences are compared",
               "user callbacks return; callbacks come from the fixed families of gen/scen.py"]

ALPHA = [n(1), n(2), C, e(7)]


def illformed(script):
    seen = False
    for x in script:
        if seen:
            return True
        if x[0] in ("c", "e"):
            seen = True
    return False


def ops_of(sc):
    out = []
    for a in sx.field(sc[1:], "script"):
        if a[0] == "sub":
            scen.ops_in(a[2], out)
    for c in sx.field(sc[1:], "conns"):
        scen.ops_in(c[1], out)
    return out


def nontrivial(sc, ob, verdict):
    if not ob["log"]:
        return False
    srcs = sx.field(sc[1:], "srcs")
    bad = any(illformed(part[1:]) for s in srcs for part in s if part and part[0] == "att")
    hot = len(sx.field(sc[1:], "subjects")) >= 1
    return bad or hot or len(srcs) >= 2 or "(manual" in sx.dumps(sc)


def classify(sc, ob, verdict):
    return None


def generate(rng, tier, focus):
    cases = []
    thorough = tier == "thorough"
    scripts = list(scen.all_scripts(ALPHA, 4))
    # 1. direct subscription, exhaustive
    for s in scripts:
        for polls in (False, True):
            cases.append((scn(srcs=[src([s], polls)], script_=[sub(0, ["cold", 0])]), {"k": "direct"}))
    # 2. each operator once over sampled ill-formed scripts
    bad = [s for s in scripts if illformed(s)]
    k2 = 40 if thorough else 6
    for _ in range(k2):
        s = rng.choice(bad)
        for (nm, ps) in scen.single_ops(rng):
            cases.append((scn(srcs=[src([s, rng.choice(scripts)], rng.random() < 0.3)], script_=[sub(0, op(nm, ps, ["cold", 0]))]), {"k": "single"}))
    # operators touched by the working-tree diff get more cases
    for nm in focus:
        if nm in scen.SINGLE_NAMES:
            for _ in range(60):
                cand = [c for c in scen.single_ops(rng) if c[0] == nm]
                s = rng.choice(bad)
                cases.append((scn(srcs=[src([s], rng.random() < 0.3)], script_=[sub(0, op(cand[0][0], cand[0][1], ["cold", 0]))]), {"k": "focus"}))
    # 3. random chains
    k3 = 6000 if thorough else 700
    for _ in range(k3):
        s = rng.choice(bad) if rng.random() < 0.8 else rng.choice(scripts)
        d = rng.choice([2, 3, 4] if thorough else [2, 3])
        p = scen.rand_chain(rng, ["cold", 0], d)
        reacts = []
        if rng.random() < 0.2:
            reacts.append((rng.randrange(3), ["unsub-self"]))
        cases.append((scn(srcs=[src([s, rng.choice(scripts)], rng.random() < 0.3)], script_=[sub(0, p, *reacts)]), {"k": "chain"}))
    # 4. multi-source operators over two ill-formed cold sources
    k4 = 1500 if thorough else 250
    for _ in range(k4):
        nm = rng.choice(scen.MULTI_NAMES)
        a, b = rng.choice(scripts), rng.choice(scripts)
        p = scen.multi_op(rng, nm, scen.rand_chain(rng, ["cold", 0], rng.choice([0, 1])), [scen.rand_chain(rng, ["cold", 1], rng.choice([0, 1]))])
        p = scen.rand_chain(rng, p, rng.choice([0, 1]))
        cases.append((scn(srcs=[src([a], False), src([b], rng.random() < 0.3)], script_=[sub(0, p)]), {"k": "multi-cold"}))
    # 5. two hot subjects driven in interleaved order, emissions continue after a subject's terminal
    k5 = 2500 if thorough else 350
    kinds = [["subject"], ["behavior", 0], ["replay"], ["async"]]
    for _ in range(k5):
        nm = rng.choice(["merge", "zip", "amb", "take_until", "skip_until", "sample", "switch_on_next", "concat", "combine_latest", "sequence_equal"])
        subj = [rng.choice(kinds), rng.choice(kinds)]
        p = scen.multi_op(rng, nm, scen.rand_chain(rng, ["hot", 0], rng.choice([0, 1])), [["hot", 1]])
        p = scen.rand_chain(rng, p, rng.choice([0, 1]))
        acts = [sub(0, p)]
        for _ in range(rng.randrange(2, 8)):
            acts.append(["emit", rng.randrange(2), rng.choice(ALPHA)])
        if rng.random() < 0.3:
            acts.insert(rng.randrange(1, len(acts) + 1), ["unsub", 0])
        if rng.random() < 0.3:
            acts.insert(rng.randrange(1, len(acts) + 1), sub(1, ["hot", rng.randrange(2)]))
        cases.append((scn(subjects=subj, handles=2, script_=acts), {"k": "hot"}))
    # 5a. the same over plain Subjects with a subscriber that, from inside its j-th callback (its terminal callback included), makes
    #     one of the inputs emit: what a still-attached input says while the terminal is being delivered must not get through
    for _ in range(2500 if thorough else 400):
        nm = rng.choice(["merge", "merge", "zip", "amb", "take_until", "skip_until", "sample", "switch_on_next", "concat", "combine_latest"])
        p = scen.multi_op(rng, nm, scen.rand_chain(rng, ["hot", 0], rng.choice([0, 1])), [["hot", 1]])
        p = scen.rand_chain(rng, p, rng.choice([0, 1]))
        reacts = [(rng.randrange(0, 4), ["emit", rng.randrange(2), rng.choice(ALPHA)]) for _ in range(rng.choice([1, 1, 2]))]
        acts = [sub(0, p, *reacts)]
        for _ in range(rng.randrange(2, 7)):
            acts.append(["emit", rng.randrange(2), rng.choice(ALPHA)])
        cases.append((scn(subjects=[["subject"], ["subject"]], handles=1, script_=acts), {"k": "hot-feedback"}))
        if rng.random() < 0.5:
            # directed: merge of the two subjects; after m items input 0 terminates and the subscriber's terminal callback pushes into
            # input 1, which merge has not let go of yet
            m = rng.randrange(0, 3)
            pm = scen.rand_chain(rng, op("merge", [], ["hot", 0], ["hot", 1]), rng.choice([0, 0, 1]), names=["map", "filter", "tap", "scan"])
            if "filter" in sx.dumps(pm):
                continue
            acts = [sub(0, pm, (m, ["emit", 1, n(9)]))] + [["emit", rng.randrange(2), n(rng.choice([1, 2, 3]))] for _ in range(m)] + [["emit", 0, rng.choice([e(4), e(4), C])], ["emit", 1, n(8)]]
            cases.append((scn(subjects=[["subject"], ["subject"]], handles=1, script_=acts), {"k": "hot-feedback"}))
    # 5b. a terminal that lands in the MIDDLE of a subject's fan-out: 2-3 subscribers attached directly to one subject all react to
    #     their j-th item by terminating (or feeding) that subject; whoever is served later must not see the item after the terminal
    for _ in range(1500 if thorough else 250):
        kind = rng.choice([["subject"], ["subject"], ["behavior", 0], ["replay"]])
        nsub = rng.choice([2, 2, 3])
        j = rng.randrange(0, 3)
        back = rng.choice([C, C, e(4), n(7)])
        jj = j + (1 if kind[0] == "behavior" else 0)
        acts = [sub(u, ["hot", 0], (jj, ["emit", 0, back])) for u in range(nsub)]
        for _ in range(rng.randrange(j + 1, j + 4)):
            acts.append(["emit", 0, rng.choice(ALPHA)])
        cases.append((scn(subjects=[kind], handles=3, script_=acts), {"k": "terminal-in-fanout", "no_model": True}))
    # 6. hand-driven sources (Observable::create that keeps its observers): the driver pushes any sequence, also after a
    #    terminal, and subscriber callbacks push re-entrantly (next/error/complete from inside a callback of the same observer)
    k6 = 4000 if thorough else 700
    for _ in range(k6):
        d = rng.choice([0, 0, 1, 2])
        p = scen.rand_chain(rng, ["manual", 0], d)
        reacts = []
        for _ in range(rng.choice([0, 1, 1, 2])):
            reacts.append((rng.randrange(4), ["push", 0, rng.choice(ALPHA)]))
        acts = [sub(0, p, *reacts)]
        for _ in range(rng.randrange(1, 6)):
            acts.append(["push", 0, rng.choice(ALPHA)])
        if rng.random() < 0.2:
            acts.insert(rng.randrange(1, len(acts) + 1), ["unsub", 0])
        cases.append((scn(handles=1, script_=acts), {"k": "manual"}))
    return cases
