"""C18 - the to_vec future resolves once with everything the source emitted."""
import sx
import vplib

PID = "C18"
ENGINE = "conc"
RULE = ("[a clone of the future, polled once the first has resolved, must yield the same result] to_vec() of sources that emit a finite script (0-4 items, then complete / error / nothing) from another thread - through "
        "observe_on, subscribe_on, delay, interval+take, timer - awaited by a minimal parking block_on built on the facade's primitives, "
        "under random / PCT schedules and DFS for the smallest, with spurious condvar wake-ups on part of the runs; the result must be "
        "exactly the script (items in order, or the error), the run must end (no deadlock: no lost wake-up), a source that never "
        "terminates must leave the future pending, and (result, number of polls) must be one of the outcomes of the Coq model explored "
        "exhaustively; non-trivial = the poller parked at least once before the result (polls >= 2); distinct = (pipe, result, polls)")
ASSUMPTIONS = ["scheduling points are the facade's lock/condvar/spawn/sleep operations",
               "the executor is the harness's minimal block_on (token + condvar); the source's callbacks see a contract-conform sequence (C01)"]


def src_variants(rng, items, en):
    base = ["from_iter"] + items
    if en == "c":
        cold = base
    elif en[0] == "e":
        cold = ["op", "concat", [], base, ["error", en[1]]]
    else:
        cold = ["op", "concat", [], base, ["never"]]
    out = [["op", "observe_on", [], cold], ["op", "subscribe_on", [], cold], ["op", "delay", [rng.choice([1, 3])], cold],
           ["op", "observe_on", [], ["op", "map", [["add", 0]], cold]]]
    return out


def generate(rng, tier, seed):
    thorough = tier == "thorough"
    cases = []
    n = 0
    for _ in range(60 if thorough else 14):
        items = [rng.choice([1, 2, 3]) for _ in range(rng.randrange(0, 5))]
        en = rng.choice(["c", "c", ("e", 5)])
        for p in src_variants(rng, items, en):
            base = seed * 1000 + rng.randrange(1000)
            for sched in (["random", base, 60 if thorough else 25], ["pct", 3, base, 30 if thorough else 10]):
                # a quarter of the awaiters go on with a CLONE of the future after the first pending poll and drop the handle polled first
                scn = ["conc", ["objects", ["tovec", p]], ["init", [rng.choice(["block_on"] * 3 + ["block_on_handover"]), 0]], ["threads"], ["fini"], ["sched"] + sched]
                if rng.random() < 0.3:
                    scn.append(["spurious"])
                cases.append({"scn": scn, "sched": sched, "items": items, "en": list(en) if en != "c" else "c", "pipe": sx.dumps(p)})
    # the pending future is polled again with a different waker before the source ends (a select/join-style parent):
    # the LAST waker handed in must be the one woken
    for _ in range(30 if thorough else 8):
        items = [rng.choice([1, 2, 3]) for _ in range(rng.randrange(1, 4))]
        en = rng.choice(["c", ("e", 5)])
        last = ["complete", 0] if en == "c" else ["error", 0, en[1]]
        base = seed * 1000 + rng.randrange(1000)
        for sched in (["random", base, 60 if thorough else 25], ["pct", 3, base, 30 if thorough else 10]):
            scn = ["conc", ["objects", ["subject", "replay"], ["tovec", ["hot", 0]]], ["init"],
                   ["threads", ["w", ["block_on", 0]], ["r", ["repoll", 0], ["yield"], ["repoll", 0]],
                    ["p", ["sleep", 1]] + [["next", 0, v] for v in items] + [["repoll", 0], last]],
                   ["fini"], ["sched"] + sched]
            cases.append({"scn": scn, "sched": sched, "items": items, "en": list(en) if en != "c" else "c", "pipe": "(hot replay)+repoll", "repoll": True})
    # a ReplaySubject that already has a history, awaited while another thread pushes: the item pushed DURING the replay to the new
    # awaiter must be in the result (once), whichever side of the replay it falls on
    for _ in range(12 if thorough else 4):
        hist = [rng.choice([1, 2, 3]) for _ in range(rng.randrange(1, 4))]
        live = [90 + i for i in range(rng.randrange(1, 3))]
        en = rng.choice(["c", ("e", 5)])
        last = ["complete", 0] if en == "c" else ["error", 0, en[1]]
        base = seed * 1000 + rng.randrange(1000)
        for sched in (["random", base, 80 if thorough else 30], ["pct", 3, base, 60 if thorough else 20]):
            scn = ["conc", ["objects", ["subject", "replay"], ["tovec", rng.choice([["hot", 0], ["op", "map", [["add", 0]], ["hot", 0]]])]],
                   ["init"] + [["next", 0, v] for v in hist],
                   ["threads", ["w", ["block_on", 0]], ["p"] + [["next", 0, v] for v in live] + [last]], ["fini"], ["sched"] + sched]
            cases.append({"scn": scn, "sched": sched, "items": hist + live, "en": list(en) if en != "c" else "c", "pipe": "(hot replay with history)+live"})
    # the future is made, but polled for the first time only later: a plain Subject emits (and possibly terminates) in between -
    # to_vec() subscribes when it is CALLED, so everything pushed after the call belongs to the result
    for _ in range(12 if thorough else 4):
        early = [rng.choice([1, 2, 3]) for _ in range(rng.randrange(1, 3))]
        latei = [70 + i for i in range(rng.randrange(0, 2))]
        en = rng.choice(["c", ("e", 5)])
        last = ["complete", 0] if en == "c" else ["error", 0, en[1]]
        whole = rng.random() < 0.4          # the source even terminates before the first poll
        p_thread = ["p", ["sleep", 1]] + [["next", 0, v] for v in early] + ([] if whole else [["sleep", 10]]) + [["next", 0, v] for v in latei] + [last]
        base = seed * 1000 + rng.randrange(1000)
        sched = ["random", base, 20 if thorough else 8]
        scn = ["conc", ["objects", ["subject", "subject"], ["tovec", rng.choice([["hot", 0], ["op", "map", [["add", 0]], ["hot", 0]]])]], ["init"],
               ["threads", ["w", ["block_on_late", 0, 5]], p_thread], ["fini"], ["sched"] + sched]
        cases.append({"scn": scn, "sched": sched, "items": early + latei, "en": list(en) if en != "c" else "c", "pipe": "(hot subject) polled late"})
    # ... and its smallest instance under many PCT schedules (the window - a push between the replay of the history and the moment
    # the awaiter goes live - is hit by about one PCT-3 schedule in a hundred)
    nr3 = 8000 if thorough else 1500
    scn = ["conc", ["objects", ["subject", "replay"], ["tovec", ["hot", 0]]], ["init", ["next", 0, 1], ["next", 0, 2]],
           ["threads", ["w", ["block_on", 0]], ["p", ["next", 0, 99], ["complete", 0]]], ["fini"], ["sched", "pct", 3, seed * 1000 + 13, nr3]]
    cases.append({"scn": scn, "sched": ["pct", 3, seed * 1000 + 13, nr3], "items": [1, 2, 99], "en": "c", "pipe": "(hot replay with history)+live, smallest"})
    # the SAME Observable value awaited twice in a row (to_vec() twice on one observe_on / subscribe_on pipeline): the second future
    # resolves like the first
    for p in ([["op", "observe_on", [], ["from_iter", 1, 2]], ["op", "subscribe_on", [], ["from_iter", 1, 2]], ["op", "map", [["id"]], ["op", "observe_on", [], ["just", 7]]]]):
        sched = ["random", seed * 1000 + 21, 30 if thorough else 12]
        items_ = [7] if "just" in sx.dumps(p) else [1, 2]
        cases.append({"scn": ["conc", ["objects", ["tovec", p]], ["init", ["block_on", 0], ["block_on", 0]], ["threads"], ["fini"], ["sched"] + sched],
                      "sched": sched, "items": items_, "en": "c", "pipe": sx.dumps(p) + " x2", "twice": True})
    # time-based sources
    for k in ([1, 2, 3] if thorough else [2]):
        p = ["op", "take", [k], ["interval", 10]]
        sched = ["random", seed * 1000 + k, 40]
        cases.append({"scn": ["conc", ["objects", ["tovec", p]], ["init", ["block_on", 0]], ["threads"], ["fini"], ["sched"] + sched],
                      "sched": sched, "items": list(range(k)), "en": "c", "pipe": sx.dumps(p)})
    # smallest instance, all schedules
    p = ["op", "observe_on", [], ["just", 1]]
    cases.append({"scn": ["conc", ["objects", ["tovec", p]], ["init", ["block_on", 0]], ["threads"], ["fini"], ["sched", "dfs", 3000], ["want-choices"]],
                  "sched": ["dfs", 3000], "items": [1], "en": "c", "pipe": sx.dumps(p)})
    # smallest instance again under many PCT schedules: windows a few lock operations wide (a terminal callback between poll's test of
    # `done` and its release of the waker slot) are hit by about one PCT-3 schedule in a thousand
    p = ["op", "observe_on", [], ["just", 1]]
    nr = 30000 if thorough else 6000
    cases.append({"scn": ["conc", ["objects", ["tovec", p]], ["init", ["block_on", 0]], ["threads"], ["fini"], ["sched", "pct", 3, seed * 1000 + 7, nr]],
                  "sched": ["pct", 3, seed * 1000 + 7, nr], "items": [1], "en": "c", "pipe": sx.dumps(p)})
    # ... and the smallest FAILING instance with a spinning re-poller: a poll that overlaps the error callback (between its two
    # writes, or with its two reads straddling them) must not resolve to Ok
    nr2 = 20000 if thorough else 4000
    scn = ["conc", ["objects", ["subject", "replay"], ["tovec", ["hot", 0]]], ["init"],
           ["threads", ["w", ["block_on", 0]], ["r", ["repoll", 0], ["repoll", 0], ["repoll", 0], ["repoll", 0]],
            ["p", ["next", 0, 1], ["error", 0, 5]]],
           ["fini"], ["sched", "pct", 3, seed * 1000 + 11, nr2]]
    cases.append({"scn": scn, "sched": ["pct", 3, seed * 1000 + 11, nr2], "items": [1], "en": ["e", 5], "pipe": "(hot replay)+repoll+error", "repoll": True})
    # a source that never terminates: the future must stay pending (the run ends with the poller parked)
    p = ["op", "observe_on", [], ["op", "concat", [], ["from_iter", 1, 2], ["never"]]]
    cases.append({"scn": ["conc", ["objects", ["tovec", p]], ["init", ["block_on", 0]], ["threads"], ["fini"], ["sched", "random", seed, 20]],
                  "sched": ["random", seed, 20], "items": [1, 2], "en": "s", "pipe": sx.dumps(p)})
    return cases


def sched_of(case, ob):
    s = case["sched"]
    if s[0] == "random":
        return ["random", ob["seed"], 1]
    if s[0] == "pct":
        return ["pct", s[1], ob["seed"], 1]
    if s[0] == "dfs":
        return ["replay"] + [int(c) for c in ob.get("choices", [])]
    return s


def judge(cases, runs):
    viol, unshown, nontriv = [], [], set()
    model_in = []
    for case in cases:
        en = case["en"]
        model_in.append(sx.dumps(["tv", ["items"] + case["items"], "complete" if en == "c" else (["error", en[1]] if en != "s" else "silent")]))
    outs = vplib.driver_lines(["tovec-explore"], model_in)
    reached = set()
    total = set()
    for ci, (case, obs, mline) in enumerate(zip(cases, runs, outs)):
        m = sx.loads(mline)
        mset = set(sx.dumps(o[1:]) for o in m[2:])          # results without the poll count
        mpolls = {}
        for o in m[2:]:
            mpolls.setdefault(sx.dumps(o[1:]), set()).add(int(o[0]))
            total.add((ci, sx.dumps(o)))
        spurious = any(isinstance(f, list) and f and f[0] == "spurious" for f in case["scn"])
        for ob in obs:
            if ob["status"] == "dfs-done":
                continue
            sd = sched_of(case, ob)
            results = [r for r in ob["ev"] if r[3] == "result"]
            polls = len([r for r in ob["ev"] if r[3] == "poll"])
            if case["en"] == "s":
                if results:
                    viol.append((ci, sd, "the future became ready although the source never terminated: %s" % sx.dumps(results[0])))
                elif ob["status"] != "deadlock":
                    viol.append((ci, sd, "expected the poller to stay parked for ever (status deadlock), got %s" % ob["status"]))
                continue
            if ob["status"] != "ok" or ob.get("panics", 0):
                viol.append((ci, sd, "the future never became ready: run ended with status %s (lost wake-up?) after %d polls" % (ob["status"], polls)))
                continue
            if case.get("twice"):
                if len(results) != 2 or sx.dumps(results[0][5]) != sx.dumps(results[1][5]):
                    viol.append((ci, sd, "the same Observable value awaited twice: results %s" % " / ".join(sx.dumps(r[5]) for r in results)))
                    continue
                results = results[:1]
            if len(results) != 1:
                viol.append((ci, sd, "%d results" % len(results)))
                continue
            res = results[0][5]
            key = sx.dumps(res)
            if key not in mset:
                viol.append((ci, sd, "result %s differs from what the source emitted %s %s" % (key, case["items"], case["en"])))
                continue
            r2 = [r for r in ob["ev"] if r[3] == "result2"]
            if r2 and sx.dumps(r2[0][5]) != key:
                viol.append((ci, sd, "a second awaiter of the same to_vec state (a clone, polled after the first resolved) got %s, the first %s" % (sx.dumps(r2[0][5]), key)))
                continue
            if not spurious and not case.get("repoll") and not case.get("twice") and polls not in mpolls[key]:
                unshown.append((ci, sd, "result %s after %d polls; the model allows %s" % (key, polls, sorted(mpolls[key]))))
            reached.add((ci, "(%d %s)" % (polls, key[1:-1])))
            if polls >= 2:
                nontriv.add((case["pipe"], key, polls))
    extra = {"model_outcomes_total": len(total), "model_outcomes_reached_by_impl": len(reached & total)}
    return {"violations": viol, "unshown": unshown, "nontrivial": nontriv, "extra": extra}
