"""C13 - connectable observables share one source subscription among their subscribers."""
import itertools

import scen
import sx
from common import ops_of
from scen import C, e, n, op, scn, src, sub

PID = "C13"
ORACLE = "c13"
RULE = ("call histories over {subscribe_i, unsubscribe_i, connect, disconnect, source emits v, source completes/errors} with up to 3 "
        "subscribers on publish / ref_count / replay, for a hot source (driven step by step) and for cold sources that emit synchronously "
        "inside connect / first subscribe; also subscribers that leave early through a downstream operator (judged by correspondence); "
        "non-trivial = the oracle applies and some subscriber received an event or the source-subscription count was constrained")
ASSUMPTIONS = ["publish: histories with a second connect() while connected are outside the oracle (the statement does not speak about them)",
               "replay's history is what the source emitted while subscribed"]


def nontrivial(sc, ob, verdict):
    return verdict != "skip" and (bool(ob["log"]) or bool(ob["snaps"]))


def classify(sc, ob, verdict):
    conns = sx.field(sc[1:], "conns")
    if not conns:
        return None
    kind = conns[0][0]
    srcp = conns[0][1]
    acts = sx.field(sc[1:], "script")
    if kind == "replay" and srcp[0] == "cold":
        return "D11"       # synchronous cold source under replay(): the first subscriber gets the items live and again in the replay
    if kind in ("refcount", "replay"):
        # D12b: a subscriber arriving after the subscriber count returned to 0, or after the source's terminal, finds no source subscription
        live = 0
        went_zero = False
        term = False
        for a in acts:
            if a[0] == "sub":
                if (went_zero or term):
                    return "D12b"
                live += 1
            elif a[0] == "unsub":
                if live > 0:
                    live -= 1
                    if live == 0:
                        went_zero = True
            elif a[0] == "emit" and a[2][0] in ("c", "e"):
                term = True
                live = 0
        if srcp[0] == "cold":
            return "D12b"   # a finite synchronous source terminates inside the first subscribe: every later subscriber is 'after the terminal'
    return None


def hist_actions(rng, kind, hot, length):
    acts = []
    used = set()
    nconn = 0
    for _ in range(length):
        r = rng.random()
        if r < 0.3:
            k = rng.randrange(3)
            if k in used:
                continue
            used.add(k)
            acts.append(sub(k, ["conn", 0]))
        elif r < 0.45:
            acts.append(["unsub", rng.randrange(3)])
        elif r < 0.6 and kind == "publish":
            acts.append(["connect", 0, nconn])
            nconn += 1
        elif r < 0.68 and kind == "publish" and nconn:
            acts.append(["disconnect", rng.randrange(nconn)])
        elif hot:
            acts.append(["emit", 0, rng.choice([n(1), n(2), n(3), n(1), n(2), C, e(4)])])
    return acts


def generate(rng, tier, focus):
    cases = []
    thorough = tier == "thorough"
    for _ in range(30000 if thorough else 3000):
        kind = rng.choice(["publish", "refcount", "replay"])
        hot = rng.random() < 0.65
        acts = hist_actions(rng, kind, hot, rng.randrange(3, 10 if thorough else 8))
        if not acts:
            continue
        if hot:
            cases.append((scn(subjects=[["subject"]], conns=[[kind, ["hot", 0]]], handles=3, script_=acts), {"k": "hot"}))
        else:
            s = scen.script([rng.choice([1, 2, 3]) for _ in range(rng.randrange(0, 4))], rng.choice(["c", ("e", 5), "s"]))
            cases.append((scn(srcs=[src([s], rng.random() < 0.3)], conns=[[kind, ["cold", 0]]], handles=3, script_=acts), {"k": "cold"}))
    # subscribers that leave early through a downstream operator (correspondence + outcome)
    for _ in range(3000 if thorough else 300):
        kind = rng.choice(["publish", "refcount", "replay"])
        acts = []
        for k in range(rng.randrange(1, 4)):
            acts.append(sub(k, scen.rand_chain(rng, ["conn", 0], rng.choice([0, 1]), names=["take", "first", "map", "take_while", "skip", "element_at"])))
        if kind == "publish":
            acts.insert(rng.randrange(0, len(acts) + 1), ["connect", 0, 0])
        for _ in range(rng.randrange(1, 6)):
            acts.append(["emit", 0, rng.choice([n(1), n(2), n(3), C])])
        cases.append((scn(subjects=[["subject"]], conns=[[kind, ["hot", 0]]], handles=3, script_=acts), {"k": "early-leave"}))
    return cases
