"""C13 - connectable observables share one source subscription among their subscribers."""
import itertools

import scen
import sx
from common import ops_of
from scen import C, e, n, op, scn, src, sub

PID = "C13"
ORACLE = "c13"
TIE_ORACLES = ["c13k"]
EXTRA_ORACLES = ["c06"]    # "unsubscribing the last subscriber of ref_count/replay stops the source": probes of the cold source below it     # implementation = ConnK (the automaton the theorems are about)
RULE = ("call histories over {subscribe_i, unsubscribe_i, connect, disconnect, source emits v, source completes/errors} with up to 3 "
        "subscribers on publish / ref_count / replay, for a hot source (driven step by step) and for cold sources that emit synchronously "
        "inside connect / first subscribe; also subscribers that leave early through a downstream operator (judged by correspondence); "
        "non-trivial = the oracle applies and some subscriber received an event or the source-subscription count was constrained")
ASSUMPTIONS = ["publish: histories with a second connect() while connected are outside the oracle (the statement does not speak about them)",
               "replay's history is what the source emitted while subscribed"]


def nontrivial(sc, ob, verdict):
    return verdict != "skip" and (bool(ob["log"]) or bool(ob["snaps"]))


def classify(sc, ob, verdict):
    return None


def hist_actions(rng, kind, hot, length):
    acts = []
    used = set()
    nconn = 0
    for _ in range(length):
        r = rng.random()
        if r < 0.3:
            k = rng.randrange(3)
            if k in used:
                continue
            used.add(k)
            acts.append(sub(k, ["conn", 0]))
        elif r < 0.45:
            acts.append(["unsub", rng.randrange(3)])
        elif r < 0.6 and kind == "publish":
            acts.append(["connect", 0, nconn])
            nconn += 1
        elif r < 0.68 and kind == "publish" and nconn:
            acts.append(["disconnect", rng.randrange(nconn)])
        elif hot:
            acts.append(["emit", 0, rng.choice([n(1), n(2), n(3), n(1), n(2), C, e(4)])])
    return acts


def enum_histories(kind, L, rng, keep):
    """all histories of length <= L over a reduced alphabet, hot source; each subscriber subscribes at most once"""
    import itertools
    alpha = [("sub", 0), ("sub", 1), ("unsub", 0), ("unsub", 1), ("emit", n(1)), ("emit", C)]
    if kind == "publish":
        alpha = [("sub", 0), ("sub", 1), ("unsub", 0), ("emit", n(1)), ("emit", C), ("connect",), ("disconnect",)]
    for k in range(2, L + 1):
        for hist in itertools.product(alpha, repeat=k):
            if k >= 5 and rng.random() > keep:
                continue
            used, acts, nconn, ok = set(), [], 0, True
            for h in hist:
                if h[0] == "sub":
                    if h[1] in used:
                        ok = False
                        break
                    used.add(h[1])
                    acts.append(sub(h[1], ["conn", 0]))
                elif h[0] == "unsub":
                    acts.append(["unsub", h[1]])
                elif h[0] == "emit":
                    acts.append(["emit", 0, h[1]])
                elif h[0] == "connect":
                    acts.append(["connect", 0, nconn])
                    nconn += 1
                else:
                    if nconn == 0:
                        ok = False
                        break
                    acts.append(["disconnect", nconn - 1])
            if ok and used:
                yield acts


def generate(rng, tier, focus):
    cases = []
    thorough = tier == "thorough"
    for kind in ["publish", "refcount", "replay"]:
        for acts in enum_histories(kind, 6 if thorough else 5, rng, 0.5 if thorough else 0.35):
            cases.append((scn(subjects=[["subject"]], conns=[[kind, ["hot", 0]]], handles=3, script_=acts), {"k": "exhaustive"}))
    for _ in range(30000 if thorough else 3000):
        kind = rng.choice(["publish", "refcount", "replay"])
        hot = rng.random() < 0.65
        acts = hist_actions(rng, kind, hot, rng.randrange(3, 10 if thorough else 8))
        if not acts:
            continue
        if hot:
            cases.append((scn(subjects=[["subject"]], conns=[[kind, ["hot", 0]]], handles=3, script_=acts), {"k": "hot"}))
        else:
            s = scen.script([rng.choice([1, 2, 3]) for _ in range(rng.randrange(0, 4))], rng.choice(["c", ("e", 5), "s"]))
            cases.append((scn(srcs=[src([s], rng.random() < 0.3)], conns=[[kind, ["cold", 0]]], handles=3, script_=acts), {"k": "cold"}))
    # subscribers that leave early through a downstream operator (correspondence + outcome)
    for _ in range(3000 if thorough else 300):
        kind = rng.choice(["publish", "refcount", "replay"])
        acts = []
        for k in range(rng.randrange(1, 4)):
            acts.append(sub(k, scen.rand_chain(rng, ["conn", 0], rng.choice([0, 1]), names=["take", "first", "map", "take_while", "skip", "element_at"])))
        if kind == "publish":
            acts.insert(rng.randrange(0, len(acts) + 1), ["connect", 0, 0])
        for _ in range(rng.randrange(1, 6)):
            acts.append(["emit", 0, rng.choice([n(1), n(2), n(3), C])])
        cases.append((scn(subjects=[["subject"]], conns=[[kind, ["hot", 0]]], handles=3, script_=acts), {"k": "early-leave"}))
    # a late subscriber that is satisfied by the replayed history (or leaves during it) while the source is still running; then the
    # last other subscriber leaves: the source must be released, and a later subscriber must get a fresh connection
    for _ in range(1500 if thorough else 200):
        kind = rng.choice(["replay", "replay", "refcount"])
        hist = [["emit", 0, n(rng.choice([1, 2, 3]))] for _ in range(rng.randrange(1, 4))]
        late = scen.rand_chain(rng, ["conn", 0], 1, names=["take", "first", "take_while", "element_at"])
        reacts = [(rng.randrange(2), ["unsub-self"])] if rng.random() < 0.3 else []
        acts = [sub(0, ["conn", 0])] + hist + [sub(1, late, *reacts)]
        tail = [["unsub", 0], ["emit", 0, n(4)], sub(2, ["conn", 0]), ["emit", 0, n(5)], ["unsub", 2], ["emit", 0, rng.choice([n(6), C])]]
        acts += tail[:rng.randrange(1, len(tail) + 1)]
        cases.append((scn(subjects=[["subject"]], conns=[[kind, ["hot", 0]]], handles=3, script_=acts), {"k": "late-early-leave"}))
    # re-subscription from inside the terminal callback (directly, or through retry downstream)
    for _ in range(1500 if thorough else 200):
        kind = rng.choice(["publish", "refcount", "replay"])
        pre = [["emit", 0, n(rng.choice([1, 2]))] for _ in range(rng.randrange(0, 3))]
        if rng.random() < 0.5:
            first = sub(0, ["conn", 0], (len(pre), ["sub", 1, ["conn", 0]]))      # callback number len(pre) is the terminal
        else:
            first = sub(0, ["op", "retry", [2], ["conn", 0]])
        acts = [first] + ([["connect", 0, 0]] if kind == "publish" else []) + pre + [["emit", 0, rng.choice([e(4), e(4), C])]]
        if kind == "publish":
            acts.append(["connect", 0, 1])
        acts += [["emit", 0, n(7)], sub(2, ["conn", 0]), ["emit", 0, n(8)], ["emit", 0, C]]
        cases.append((scn(subjects=[["subject"]], conns=[[kind, ["hot", 0]]], handles=3, script_=acts), {"k": "resubscribe-in-terminal"}))
    # a synchronous cold source below ref_count / replay whose only subscriber leaves from inside the emission
    for _ in range(2500 if thorough else 400):
        kind = rng.choice(["refcount", "replay"])
        xs = [rng.choice([1, 2, 3]) for _ in range(rng.randrange(1, 7))]
        s0 = scen.script(xs, rng.choice(["c", ("e", 5), "s"]))
        p = scen.rand_chain(rng, ["conn", 0], rng.choice([1, 1, 2]), names=["take", "first", "map", "take_while", "skip", "element_at", "contains", "all"])
        reacts = [(rng.randrange(3), ["unsub-self"])] if rng.random() < 0.25 else []
        cases.append((scn(srcs=[src([s0], rng.random() < 0.3)], conns=[[kind, ["cold", 0]]], handles=1, script_=[sub(0, p, *reacts)]), {"k": "cold-early-leave"}))
    # a subscriber that is already gone when the shared stream's turn comes: a multi-input operator whose earlier, synchronous input
    # ends the subscription (take(1) over merge(just, shared), amb(just, shared), take_until(shared, just), concat(error, shared)):
    # the shared source must not be connected for nobody - and a later, real subscriber must still get a working connection
    for _ in range(1800 if thorough else 300):
        kind = rng.choice(["refcount", "replay"])
        hub = ["conn", 0]
        dead = rng.choice([op("take", [1], op("merge", [], ["just", 7], hub)), op("amb", [], ["just", 7], hub), op("take_until", [], hub, ["just", 7]),
                           op("first", [], op("merge", [], ["from_iter", 7, 8], hub)), op("concat", [], ["error", 6], hub)])
        acts = [sub(0, dead)]
        acts += [["emit", 0, n(rng.choice([1, 2, 3]))] for _ in range(rng.randrange(0, 3))]
        if rng.random() < 0.7:
            acts.append(sub(1, hub))
            acts += [["emit", 0, n(rng.choice([1, 2, 3]))] for _ in range(rng.randrange(1, 3))]
            if rng.random() < 0.6:
                acts.append(["unsub", 1])
                acts += [["emit", 0, n(rng.choice([1, 2, 3]))]]
        cases.append((scn(subjects=[["subject"]], conns=[[kind, ["hot", 0]]], handles=3, script_=acts), {"k": "dead-on-arrival"}))
    # three subscribers of one shared stream; each one, on its second item, unsubscribes its NEIGHBOUR from inside the callback: whoever
    # is still subscribed at the end has received every item (the fan-out must skip a subscriber that has just left, not stop at it);
    # which subscriber is served first is the subject's hash order, so this family is judged on the implementation alone
    for _ in range(900 if thorough else 150):
        kind = rng.choice(["publish", "refcount", "replay"])
        items = [n(v) for v in range(1, rng.randrange(3, 6))]
        acts = [sub(u, ["conn", 0], (1, ["unsub", (u + 1) % 3])) for u in range(3)]
        if kind == "publish":
            acts.append(["connect", 0, 0])
        acts += [["emit", 0, x] for x in items]
        cases.append((scn(subjects=[["subject"]], conns=[[kind, ["hot", 0]]], handles=3, script_=acts), {"k": "unsub-neighbour", "no_model": True, "items": [sx.dumps(x) for x in items]}))
    import common
    cases += common.conn_stress(rng, 2400 if thorough else 400)
    return cases


def judge_impl(cases, obs):
    out = []
    for i, ((sc, info), ob) in enumerate(zip(cases, obs)):
        if info.get("k") != "unsub-neighbour" or ob["out"] != "ok" or not ob["snaps"]:
            continue
        flags = ob["snaps"][-1][1]
        for u in range(3):
            got = [sx.dumps(x[2]) for x in ob["log"] if x[0] == "t%d" % u]
            if str(flags[u]) == "1" and got != info["items"]:
                out.append((i, "subscriber %d stayed subscribed throughout but received %s of the items %s (another subscriber was unsubscribed from inside a callback while an item was going round)" % (u, " ".join(got), " ".join(info["items"]))))
                break
            if got != info["items"][:len(got)]:
                out.append((i, "subscriber %d received %s: not a prefix of %s" % (u, " ".join(got), " ".join(info["items"]))))
                break
    return out
