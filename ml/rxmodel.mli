
val negb : bool -> bool

type nat =
| O
| S of nat

type ('a, 'b) sum =
| Inl of 'a
| Inr of 'b

val fst : ('a1 * 'a2) -> 'a1

val snd : ('a1 * 'a2) -> 'a2

val length : 'a1 list -> nat

val app : 'a1 list -> 'a1 list -> 'a1 list

type comparison =
| Eq
| Lt
| Gt

val compOpp : comparison -> comparison

val add : nat -> nat -> nat

val mul : nat -> nat -> nat

val sub : nat -> nat -> nat

val eqb : bool -> bool -> bool

module Nat :
 sig
  val sub : nat -> nat -> nat

  val eqb : nat -> nat -> bool

  val leb : nat -> nat -> bool

  val ltb : nat -> nat -> bool

  val max : nat -> nat -> nat

  val min : nat -> nat -> nat

  val even : nat -> bool

  val divmod : nat -> nat -> nat -> nat -> nat * nat

  val modulo : nat -> nat -> nat

  val div2 : nat -> nat

  val eq_dec : nat -> nat -> bool
 end

val tl : 'a1 list -> 'a1 list

val in_dec : ('a1 -> 'a1 -> bool) -> 'a1 -> 'a1 list -> bool

val nth : nat -> 'a1 list -> 'a1 -> 'a1

val nth_error : 'a1 list -> nat -> 'a1 option

val last : 'a1 list -> 'a1 -> 'a1

val rev : 'a1 list -> 'a1 list

val map : ('a1 -> 'a2) -> 'a1 list -> 'a2 list

val flat_map : ('a1 -> 'a2 list) -> 'a1 list -> 'a2 list

val fold_left : ('a1 -> 'a2 -> 'a1) -> 'a2 list -> 'a1 -> 'a1

val fold_right : ('a2 -> 'a1 -> 'a1) -> 'a1 -> 'a2 list -> 'a1

val existsb : ('a1 -> bool) -> 'a1 list -> bool

val forallb : ('a1 -> bool) -> 'a1 list -> bool

val filter : ('a1 -> bool) -> 'a1 list -> 'a1 list

val combine : 'a1 list -> 'a2 list -> ('a1 * 'a2) list

val firstn : nat -> 'a1 list -> 'a1 list

val skipn : nat -> 'a1 list -> 'a1 list

val nodup : ('a1 -> 'a1 -> bool) -> 'a1 list -> 'a1 list

val seq : nat -> nat -> nat list

val repeat : 'a1 -> nat -> 'a1 list

type positive =
| XI of positive
| XO of positive
| XH

type z =
| Z0
| Zpos of positive
| Zneg of positive

module Pos :
 sig
  val succ : positive -> positive

  val add : positive -> positive -> positive

  val add_carry : positive -> positive -> positive

  val pred_double : positive -> positive

  val mul : positive -> positive -> positive

  val compare_cont : comparison -> positive -> positive -> comparison

  val compare : positive -> positive -> comparison

  val eqb : positive -> positive -> bool

  val iter_op : ('a1 -> 'a1 -> 'a1) -> positive -> 'a1 -> 'a1

  val to_nat : positive -> nat

  val of_succ_nat : nat -> positive
 end

module Z :
 sig
  val double : z -> z

  val succ_double : z -> z

  val pred_double : z -> z

  val pos_sub : positive -> positive -> z

  val add : z -> z -> z

  val opp : z -> z

  val sub : z -> z -> z

  val mul : z -> z -> z

  val compare : z -> z -> comparison

  val leb : z -> z -> bool

  val ltb : z -> z -> bool

  val eqb : z -> z -> bool

  val max : z -> z -> z

  val min : z -> z -> z

  val to_nat : z -> nat

  val of_nat : nat -> z

  val pos_div_eucl : positive -> z -> z * z

  val div_eucl : z -> z -> z * z

  val modulo : z -> z -> z
 end

type val0 =
| VInt of z
| VBool of bool
| VUnit
| VList of val0 list
| VMatN of val0
| VMatE of nat
| VMatC
| VObs of nat

type err = nat

type ev =
| Nx of val0
| Er of err
| Co

val is_term : ev -> bool

val val_eqb : val0 -> val0 -> bool

val as_int : val0 -> z

type fn1 =
| FAdd of z
| FMul of z
| FConst of z
| FId
| FModK of z

val app1 : fn1 -> val0 -> val0

type pred =
| PLt of z
| PGe of z
| PEven
| POdd
| PTrue
| PFalse
| PEqK of z
| PNeK of z

val appp : pred -> val0 -> bool

type fn2 =
| F2Add
| F2Max
| F2Min
| F2Fst
| F2Snd
| F2SubMul

val app2 : fn2 -> val0 -> val0 -> val0

val key_of : z -> val0 -> z

type epred =
| EPAlways
| EPNever
| EPEq of err
| EPLt of err

val appe : epred -> err -> bool

type combf =
| CList
| CSum

val appc : combf -> val0 list -> val0

val val_ltb : val0 -> val0 -> bool

val val_add : val0 -> val0 -> val0

val seqZ : z -> nat -> z list

type oid = nat

type cid = nat

type nid = nat

type hid = nat

type kid = nat

type sid = nat

type xid = nat

val upd : (nat -> 'a1) -> nat -> 'a1 -> nat -> 'a1

type fmsel =
| SelJust
| SelPair of z
| SelMod

type opk =
| OMap of fn1
| OFilter of pred
| OTake of nat
| OTakeWhile of pred
| OTakeLast of nat
| OSkip of nat
| OSkipLast of nat
| OSkipWhile of pred
| OFirst
| OLast
| OElementAt of nat
| ODistinct
| OScan of fn2
| OReduce of fn2
| OCount
| OSum
| OSumAndCount
| OMin
| OMax
| OAll of pred
| OContains of val0
| ODefaultIfEmpty of val0
| OIgnore
| OStartWith of val0 list
| OBuffer of nat
| OWindow of nat
| OGroupBy of z
| OMaterialize
| ODematerialize
| OTap of nat
| OMapToAny
| OMerge
| OFlatMap of fmsel
| OConcat
| OZip
| OCombineLatest of combf
| OAmb
| OTakeUntil
| OSkipUntil
| OSample
| OSwitchOnNext
| OSequenceEqual
| ORetry of nat
| ORetryWhen of epred
| OResume
| OFwd

type pipe =
| PCold of nat
| PJust of val0
| PFromIter of val0 list
| PRange of z * z
| PEmpty
| PNever
| PError of err
| PRepeat of val0
| PDefer of pipe
| PStart of nat
| PFromResult of (val0, err) sum
| PHot of hid
| PInner of hid
| PConn of kid
| POp of opk * pipe * pipe list

type target =
| TUser of nat
| THandler of nid * nat * nat
| TForward of oid
| TFeed of hid
| TTapLog of nat
| TJunk

type teardown =
| TdFin of cid
| TdSubjRemove of hid * nat
| TdCell of xid

type observer = { o_n : bool; o_e : bool; o_c : bool; o_td : teardown option;
                  o_tgt : target }

val is_sub : observer -> bool

val mk_obs : target -> observer

val dead_obs : observer

val set_slots : observer -> bool -> bool -> bool -> observer

val set_td : observer -> teardown option -> observer

type ctrl = { c_sub : oid; c_uns : (nat * oid) list; c_serial : nat }

type ostate = { st_cnt : nat; st_flag : bool; st_acc : val0 option;
                st_buf : val0 list; st_qs : val0 list list; st_subj : 
                hid; st_groups : (z * hid) list; st_win : nat option;
                st_aux : oid }

val st0 : ostate

val st_set_cnt : ostate -> nat -> ostate

val st_set_flag : ostate -> bool -> ostate

val st_set_acc : ostate -> val0 option -> ostate

val st_set_buf : ostate -> val0 list -> ostate

val st_set_qs : ostate -> val0 list list -> ostate

val st_set_subj : ostate -> hid -> ostate

val st_set_groups : ostate -> (z * hid) list -> ostate

val st_set_win : ostate -> nat option -> ostate

val st_set_aux : ostate -> oid -> ostate

type node = { n_op : opk; n_src : pipe; n_others : pipe list; n_st : 
              ostate; n_ctl : cid }

type skind =
| KSubject
| KBehavior
| KReplay
| KAsync

type subj = { sj_kind : skind; sj_obs : (nat * oid) list; sj_serial : 
              nat; sj_hook : kid option; sj_last : val0 option;
              sj_err : err option; sj_items : val0 list; sj_done : bool }

val mk_subj : skind -> val0 option -> subj

val sj_set_obs : subj -> (nat * oid) list -> subj

val sj_set_serial : subj -> nat -> subj

val sj_set_hook : subj -> kid option -> subj

val sj_set_last : subj -> val0 option -> subj

val sj_set_err : subj -> err option -> subj

val sj_set_items : subj -> val0 list -> subj

val sj_set_done : subj -> bool -> subj

type subscription = { sb_obs : oid; sb_live : bool }

type ckind =
| CPublish
| CRefCount
| CReplay

type conn = { k_kind : ckind; k_src : pipe; k_subj : hid; k_slot : sid option }

type lockid =
| LTd of oid
| LUns of cid
| LSt of nid
| LCell of xid
| LHookSub of hid
| LHookUnsub of hid
| LSlot of kid
| LHist of hid

type mode =
| MR
| MW

val lockid_eqb : lockid -> lockid -> bool

type act =
| SinkNext of val0
| SinkError of err
| SinkComplete of nat
| SinkCompleteForce
| UpAbort of nat
| Finalize
| IfSub of act list * act list
| AFlush of val0 list
| AWith of mode * act list
| ASetFlag of bool
| ASubscribe of pipe * nat
| ASubjNew of skind
| ASubjCall of hid * ev
| ADeliver of oid * ev
| AZipDrain

type reaction =
| RUnsubSelf
| RUnsub of nat
| REmit of hid * ev
| RSub of nat * pipe

type action =
| DSub of nat * pipe * (nat * reaction) list
| DUnsub of nat
| DEmit of hid * ev
| DConnect of kid * nat
| DDisconnect of nat

type uid =
| UTop of nat
| UChild of nat

val uenc : uid -> nat

val udec : nat -> uid

type dest =
| DNone
| DHandle of nat
| DCell of xid
| DSlot of kid
| DConn of nat

type req =
| Deliver of oid * ev
| Unsub of oid
| RunTd of oid
| ClearTd of oid
| Act of nid * act
| Fin of cid
| FinSub of cid
| UnsubEntry of cid * nat
| Src of nat * nat * oid * ev list * nat
| FromIter of oid * val0 list
| Range of oid * z * nat
| Repeat of oid * val0
| StartWith of oid * val0 list * pipe
| SubscribePipe of pipe * oid
| SubjCall of hid * ev
| Broadcast of hid * ev
| SubjJoin of hid * oid
| Replay of hid * oid
| SetTdCell of oid * xid
| HookSub of hid * nat
| HookUnsub of hid * nat
| Connect of kid
| SlotUnsub of kid
| MkSub of oid * dest
| SubUnsub of sid
| CellUnsub of xid
| AcqL of lockid * mode
| RelL of lockid * mode
| React of nat * nat
| DoSub of nat * pipe * (nat * reaction) list
| Snap
| Drv of action

type outcome =
| Running
| SelfDeadlock of lockid

type world = { obs : (oid -> observer); n_obs : nat; ctls : (cid -> ctrl);
               n_ctls : nat; nodes : (nid -> node); n_nodes : nat;
               subjs : (hid -> subj); n_subjs : nat;
               subs : (sid -> subscription); n_subs : nat;
               cells : (xid -> sid option); n_cells : nat;
               conns : (kid -> conn); scripts : (nat -> ev list list * bool);
               attempts : (nat -> nat); counters : (nat -> nat);
               handles : (nat -> (oid * sid option) option);
               chandles : (nat -> sid option);
               reacts : (nat -> (nat * reaction) list);
               ncalls : (nat -> nat); n_child : nat; n_handles : nat;
               n_hot : nat; log : ((nat * nat) * ev) list;
               taplog : (nat * ev) list;
               probes : (((((nat * nat) * nat) * bool) * nat) * nat) list;
               snaps : ((nat * bool list) * nat list) list;
               held : (lockid * mode) list; cur : nat; out : outcome }

val w_obs : (oid -> observer) -> world -> world

val w_n_obs : nat -> world -> world

val w_ctls : (cid -> ctrl) -> world -> world

val w_n_ctls : nat -> world -> world

val w_nodes : (nid -> node) -> world -> world

val w_n_nodes : nat -> world -> world

val w_subjs : (hid -> subj) -> world -> world

val w_n_subjs : nat -> world -> world

val w_subs : (sid -> subscription) -> world -> world

val w_n_subs : nat -> world -> world

val w_cells : (xid -> sid option) -> world -> world

val w_n_cells : nat -> world -> world

val w_conns : (kid -> conn) -> world -> world

val w_attempts : (nat -> nat) -> world -> world

val w_counters : (nat -> nat) -> world -> world

val w_handles : (nat -> (oid * sid option) option) -> world -> world

val w_chandles : (nat -> sid option) -> world -> world

val w_reacts : (nat -> (nat * reaction) list) -> world -> world

val w_ncalls : (nat -> nat) -> world -> world

val w_n_child : nat -> world -> world

val w_log : ((nat * nat) * ev) list -> world -> world

val w_taplog : (nat * ev) list -> world -> world

val w_probes :
  (((((nat * nat) * nat) * bool) * nat) * nat) list -> world -> world

val w_snaps : ((nat * bool list) * nat list) list -> world -> world

val w_held : (lockid * mode) list -> world -> world

val w_cur : nat -> world -> world

val w_out : outcome -> world -> world

val set_obs : world -> oid -> observer -> world

val set_ctl : world -> cid -> ctrl -> world

val set_node : world -> nid -> node -> world

val set_subj : world -> hid -> subj -> world

val set_nst : world -> nid -> ostate -> world

val add_log : world -> nat -> ev -> world

val alloc_obs : world -> target -> oid * world

val alloc_subj : world -> skind -> val0 option -> hid * world

val alloc_cell : world -> xid * world

val remove_ser : nat -> (nat * oid) list -> (nat * oid) list

val find_ser : nat -> (nat * oid) list -> oid option

val find_key : z -> (z * hid) list -> hid option

val push_last_n : nat -> val0 list -> val0 -> val0 list

val upd_nth : nat -> ('a1 -> 'a1) -> 'a1 list -> 'a1 list

val all_nonempty : val0 list list -> bool

val heads : val0 list list -> val0 list

val tails : val0 list list -> val0 list list

val all_eq_head : val0 list -> bool

val dflt_err : err -> act list

val dflt_comp : nat -> act list

val fwd : ostate -> nat -> ev -> ostate * act list

val fold_acc : (val0 -> val0 -> val0) -> ostate -> val0 -> ostate

val emit_acc_then_complete : ostate -> nat -> act list

val fm_pipe : fmsel -> pipe list -> val0 -> pipe

val resume_pipe : pipe list -> err -> pipe

val handler :
  opk -> pipe -> pipe list -> ostate -> nat -> nat -> hid -> ev ->
  ostate * act list

val init_state : opk -> pipe list -> ostate

val conflicts : (lockid * mode) list -> lockid -> mode -> bool

val release : (lockid * mode) list -> lockid -> mode -> (lockid * mode) list

val script_of : world -> nat -> nat -> ev list

val neg_pred : pred -> pred

val plan : opk -> pipe -> pipe list -> (nat * pipe) list * nat list

val init_acts : opk -> pipe -> pipe list -> act list

val hist_replay : subj -> oid -> req list

val handle_sub : world -> nat -> req list

val step : req -> world -> req list * world

val run : nat -> req list -> world -> req list * world

type scenario = { sc_scripts : (ev list list * bool) list;
                  sc_subjects : (skind * val0 option) list;
                  sc_conns : (ckind * pipe) list; sc_handles : nat;
                  sc_script : action list }

val dflt_node : node

val dflt_conn : conn

val init_world : scenario -> world

val run_scenario : nat -> scenario -> req list * world

type ending =
| Completes
| Fails of err
| Silent

type sout = val0 list * ending

val events : sout -> ev list

val parse_script : ev list -> sout option

val takewhile : ('a1 -> bool) -> 'a1 list -> 'a1 list

val dropwhile : ('a1 -> bool) -> 'a1 list -> 'a1 list

val lastn : nat -> 'a1 list -> 'a1 list

val dedup : val0 option -> val0 list -> val0 list

val scanl : (val0 -> val0 -> val0) -> val0 option -> val0 list -> val0 list

val fold1 : (val0 -> val0 -> val0) -> val0 list -> val0 option

val chunks : nat -> nat -> val0 list -> val0 list list

val when_complete : ending -> val0 list -> sout

val opt_list : val0 option -> val0 list

val min_f : val0 -> val0 -> val0

val max_f : val0 -> val0 -> val0

val demat : val0 list -> ending -> sout

val keys_of : z -> z list -> val0 list -> z list

val spec_op : opk -> sout -> sout

val spec_children : opk -> sout -> sout list

val in_c02 : opk -> bool

val repeat_bound : nat

val spec_pipe : (nat -> ev list list) -> pipe -> sout option

val spec_pipe_children : (nat -> ev list list) -> pipe -> sout list

val has_repeat : pipe -> bool

type lst = { l_st : ostate; l_done : bool; l_up : bool }

val lst0 : opk -> lst

val l_set_st : lst -> ostate -> lst

val l_end : lst -> lst

val l_abort : lst -> lst

val loc_act : act -> lst -> lst * ev list

val loc_acts : act list -> lst -> lst * ev list

val loc_step : opk -> lst -> ev -> lst * ev list

val loc_feed : opk -> lst -> ev list -> lst * ev list

val loc_run : opk -> ev list -> ev list

val expand : opk -> opk list

val prefix_of : opk -> ev list

val loc_op : opk -> ev list -> ev list

val loc_chain : opk list -> ev list -> ev list

val loc_node_op : opk -> bool

val loc_derived_op : opk -> bool

type observation = { ob_out : nat; ob_log : ((nat * nat) * ev) list;
                     ob_tap : (nat * ev) list;
                     ob_probes : (((((nat * nat) * nat) * bool) * nat) * nat)
                                 list;
                     ob_snaps : ((nat * bool list) * nat list) list }

val obs_of_run : (req list * world) -> observation

val ulog : nat -> ((nat * nat) * ev) list -> ev list

val users : ((nat * nat) * ev) list -> nat list

val contract_ok : ev list -> bool

val c01_oracle : observation -> bool

val val_sim : val0 -> val0 -> bool

val ev_sim : ev -> ev -> bool

val evs_sim : ev list -> ev list -> bool

val scripts_of : scenario -> nat -> ev list list

val is_windowing : opk -> bool

val inner_windowing : pipe -> bool

val c02_oracle : scenario -> observation -> bool option

val chain_of : pipe -> (pipe * opk list) option

val loc_supported : opk -> bool

val source_events : scenario -> pipe -> ev list option

val c02_loc_oracle : scenario -> observation -> bool option

val index_from : nat -> 'a1 list -> (nat * 'a1) list

val actions : scenario -> (nat * action) list

val first_some : 'a1 option list -> 'a1 option

val sub_at : scenario -> nat -> nat option

val unsub_at : scenario -> nat -> nat option

val reactions_of : scenario -> nat -> (nat * reaction) list

val pipe_of : scenario -> nat -> pipe option

val simple_reactions : scenario -> bool

val uentries : nat -> ((nat * nat) * ev) list -> ((nat * nat) * ev) list

val term_entry : ((nat * nat) * ev) list -> (nat * nat) option

val self_unsub_entry :
  scenario -> nat -> ((nat * nat) * ev) list -> (nat * nat) option

val c05_handle : scenario -> observation -> nat -> bool

val c05_oracle : scenario -> observation -> bool option

val colds_in : pipe -> bool

val end_marks : scenario -> observation -> nat -> nat option * nat option

val c06_oracle : scenario -> observation -> bool option

type sref = { r_reg : nat list; r_items : val0 list; r_term : ev option;
              r_logs : (nat -> ev list); r_joined_at : (nat -> nat) }

val r_add_log : sref -> nat -> ev list -> sref

val r_deliver : sref -> ev list -> sref

val r_set_reg : sref -> nat list -> sref

val r_push : sref -> val0 -> sref

val r_set_term : sref -> ev -> sref

val r_join : sref -> nat -> sref

val sref0 : val0 option -> sref

val sref_step : skind -> sref -> action -> sref

val emits_after_terminal : bool -> action list -> bool

val direct_or_id : pipe -> bool

val c10_oracle : scenario -> observation -> bool option

type cref = { q_reg : nat list; q_conn : bool; q_items : val0 list;
              q_term : ev option; q_logs : (nat -> ev list);
              q_attempts : nat; q_dbl : bool }

val q_add_log : cref -> nat -> ev list -> cref

val q_upd : cref -> nat list -> bool -> cref

val q_deliver : cref -> ev list -> cref

val q_source_ev : ckind -> cref -> ev -> cref

val q_connect : ckind -> ev list option -> cref -> cref

val cref_step : ckind -> ev list option -> cref -> action -> cref

val cref0 : cref

val c13_oracle : scenario -> observation -> bool option
