(* Hand-written, unverified glue around the extracted model (rxmodel.ml):
   s-expression reader for scenarios and observations, conversions between OCaml ints and
   the extracted nat/Z, printers, and the sub-commands used by ./vp.
   Sub-commands:
     driver run-seq FUEL < scenarios      -> one observation line per scenario
     driver oracle NAME ARGS...           -> see oracle.ml (linked in) *)
open Rxmodel

(* ---------------------------------------------------------------- s-expressions *)
type sx = A of string | L of sx list

let parse_sx (s : string) : sx list =
  let n = String.length s in
  let pos = ref 0 in
  let rec skip () = while !pos < n && (s.[!pos] = ' ' || s.[!pos] = '\t' || s.[!pos] = '\n' || s.[!pos] = '\r') do incr pos done
  and item () : sx =
    skip ();
    if !pos >= n then failwith "sx: eof"
    else if s.[!pos] = '(' then begin
      incr pos;
      let acc = ref [] in
      skip ();
      while !pos < n && s.[!pos] <> ')' do acc := item () :: !acc; skip () done;
      if !pos >= n then failwith "sx: unbalanced";
      incr pos;
      L (List.rev !acc)
    end else begin
      let st = !pos in
      while !pos < n && (let c = s.[!pos] in c <> ' ' && c <> '(' && c <> ')' && c <> '\t' && c <> '\n' && c <> '\r') do incr pos done;
      A (String.sub s st (!pos - st))
    end in
  let acc = ref [] in
  skip ();
  while !pos < n do acc := item () :: !acc; skip () done;
  List.rev !acc

let rec sx_to_string = function
  | A s -> s
  | L l -> "(" ^ String.concat " " (List.map sx_to_string l) ^ ")"

(* ---------------------------------------------------------------- numbers *)
let rec nat_of_int (i : int) : nat = if i <= 0 then O else S (nat_of_int (i - 1))
let nat_of_int i = let rec go acc k = if k <= 0 then acc else go (S acc) (k - 1) in go O i
let rec int_of_nat (n : nat) : int = let rec go acc = function O -> acc | S k -> go (acc + 1) k in go 0 n
let rec pos_of_int (i : int) : positive =
  if i <= 1 then XH else if i land 1 = 0 then XO (pos_of_int (i lsr 1)) else XI (pos_of_int (i lsr 1))
let z_of_int (i : int) : z = if i = 0 then Z0 else if i > 0 then Zpos (pos_of_int i) else Zneg (pos_of_int (- i))
let rec int_of_pos = function XH -> 1 | XO p -> 2 * int_of_pos p | XI p -> 2 * int_of_pos p + 1
let int_of_z = function Z0 -> 0 | Zpos p -> int_of_pos p | Zneg p -> - (int_of_pos p)

let atom_int = function A s -> int_of_string s | L _ -> failwith "expected int"
let atom_nat x = nat_of_int (atom_int x)
let atom_z x = z_of_int (atom_int x)

(* ---------------------------------------------------------------- values and events *)
let rec val_of_sx (x : sx) : val0 =
  match x with
  | A _ -> VInt (atom_z x)
  | L [A "b"; b] -> VBool (atom_int b <> 0)
  | L [A "u"] -> VUnit
  | L (A "l" :: r) -> VList (List.map val_of_sx r)
  | L [A "mn"; v] -> VMatN (val_of_sx v)
  | L [A "me"; e] -> VMatE (atom_nat e)
  | L [A "mc"] -> VMatC
  | L [A "obs"; h] -> VObs (atom_nat h)
  | L [A "obs"] -> VObs O
  | _ -> failwith ("bad value " ^ sx_to_string x)

let rec sx_of_val (v : val0) : sx =
  match v with
  | VInt z -> A (string_of_int (int_of_z z))
  | VBool b -> L [A "b"; A (if b then "1" else "0")]
  | VUnit -> L [A "u"]
  | VList l -> L (A "l" :: List.map sx_of_val l)
  | VMatN v -> L [A "mn"; sx_of_val v]
  | VMatE e -> L [A "me"; A (string_of_int (int_of_nat e))]
  | VMatC -> L [A "mc"]
  | VObs _ -> L [A "obs"]          (* identity of a window is not observable; its content is logged by a child *)

let ev_of_sx = function
  | L [A "n"; v] -> Nx (val_of_sx v)
  | L [A "e"; e] -> Er (atom_nat e)
  | L [A "c"] -> Co
  | x -> failwith ("bad event " ^ sx_to_string x)
let sx_of_ev = function
  | Nx v -> L [A "n"; sx_of_val v]
  | Er e -> L [A "e"; A (string_of_int (int_of_nat e))]
  | Co -> L [A "c"]

(* ---------------------------------------------------------------- function families *)
let fn1_of_sx = function
  | L [A "add"; k] -> FAdd (atom_z k) | L [A "mul"; k] -> FMul (atom_z k) | L [A "const"; k] -> FConst (atom_z k)
  | L [A "id"] -> FId | L [A "mod"; k] -> FModK (atom_z k)
  | x -> failwith ("bad fn1 " ^ sx_to_string x)
let pred_of_sx = function
  | L [A "lt"; k] -> PLt (atom_z k) | L [A "ge"; k] -> PGe (atom_z k) | L [A "even"] -> PEven | L [A "odd"] -> POdd
  | L [A "true"] -> PTrue | L [A "false"] -> PFalse | L [A "eq"; k] -> PEqK (atom_z k) | L [A "ne"; k] -> PNeK (atom_z k)
  | x -> failwith ("bad pred " ^ sx_to_string x)
let fn2_of_sx = function
  | A "add" -> F2Add | A "max" -> F2Max | A "min" -> F2Min | A "fst" -> F2Fst | A "snd" -> F2Snd | A "submul" -> F2SubMul
  | x -> failwith ("bad fn2 " ^ sx_to_string x)
let epred_of_sx = function
  | L [A "always"] -> EPAlways | L [A "never"] -> EPNever | L [A "eq"; e] -> EPEq (atom_nat e) | L [A "lt"; e] -> EPLt (atom_nat e)
  | x -> failwith ("bad epred " ^ sx_to_string x)
let combf_of_sx = function A "list" -> CList | A "sum" -> CSum | x -> failwith ("bad combf " ^ sx_to_string x)
let fmsel_of_sx = function
  | L [A "just"] -> SelJust | L [A "pair"; k] -> SelPair (atom_z k) | L [A "mod"] -> SelMod
  | x -> failwith ("bad fmsel " ^ sx_to_string x)

let op_of_sx (name : string) (ps : sx list) : opk =
  match name, ps with
  | "map", [f] -> OMap (fn1_of_sx f)
  | ("observe_on_keep" | "subscribe_on_keep"), [] -> OMap FId   (* with a synchronous scheduler: the identity *)
  | "filter", [p] -> OFilter (pred_of_sx p)
  | "take", [n] -> OTake (atom_nat n)
  | "take_while", [p] -> OTakeWhile (pred_of_sx p)
  | "take_last", [n] -> OTakeLast (atom_nat n)
  | "skip", [n] -> OSkip (atom_nat n)
  | "skip_last", [n] -> OSkipLast (atom_nat n)
  | "skip_while", [p] -> OSkipWhile (pred_of_sx p)
  | "first", [] -> OFirst
  | "last", [] -> OLast
  | "element_at", [n] -> OElementAt (atom_nat n)
  | "distinct_until_changed", [] -> ODistinct
  | "scan", [f] -> OScan (fn2_of_sx f)
  | "reduce", [f] -> OReduce (fn2_of_sx f)
  | "count", [] -> OCount
  | "sum", [] -> OSum
  | "sum_and_count", [] -> OSumAndCount
  | "min", [] -> OMin
  | "max", [] -> OMax
  | "all", [p] -> OAll (pred_of_sx p)
  | "contains", [v] -> OContains (val_of_sx v)
  | "default_if_empty", [v] -> ODefaultIfEmpty (val_of_sx v)
  | "ignore_elements", [] -> OIgnore
  | "start_with", vs -> OStartWith (List.map val_of_sx vs)
  | "buffer_with_count", [n] -> OBuffer (atom_nat n)
  | "window_with_count", [n] -> OWindow (atom_nat n)
  | "group_by", [k] -> OGroupBy (atom_z k)
  | "materialize", [] -> OMaterialize
  | "dematerialize", [] -> ODematerialize
  | "tap", [t] -> OTap (atom_nat t)
  | "map_to_any", [] -> OMapToAny
  | "merge", [] -> OMerge
  | "flat_map", [f] -> OFlatMap (fmsel_of_sx f)
  | "concat", [] -> OConcat
  | "zip", [] -> OZip
  | "combine_latest", [f] -> OCombineLatest (combf_of_sx f)
  | "amb", [] -> OAmb
  | "take_until", [] -> OTakeUntil
  | "skip_until", [] -> OSkipUntil
  | "sample", [] -> OSample
  | "switch_on_next", [] -> OSwitchOnNext
  | "sequence_equal", [] -> OSequenceEqual
  | "retry", [n] -> ORetry (atom_nat n)
  | "retry_when", [p] -> ORetryWhen (epred_of_sx p)
  | "on_error_resume_next", [] -> OResume
  | _ -> failwith ("bad operator " ^ name)

let rec pipe_of_sx (x : sx) : pipe =
  match x with
  | L [A "cold"; s] -> PCold (atom_nat s)
  | L [A "just"; v] -> PJust (val_of_sx v)
  | L (A "from_iter" :: vs) -> PFromIter (List.map val_of_sx vs)
  | L [A "range"; a; n] -> PRange (atom_z a, atom_z n)
  | L [A "empty"] -> PEmpty
  | L [A "never"] -> PNever
  | L [A "error"; e] -> PError (atom_nat e)
  | L [A "repeat"; v] -> PRepeat (val_of_sx v)
  | L [A "from_iter_repeat"; v] -> PRepeat (val_of_sx v)   (* from_iter (iter::repeat v): the same endless stream *)
  | L [A "defer"; p] -> PDefer (pipe_of_sx p)
  | L [A "start"; c] -> PStart (atom_nat c)
  | L [A "defer_built"; c] -> PDefer (PStart (atom_nat c))   (* defer with a counting factory: call k builds just k *)
  | L [A "result_ok"; v] -> PFromResult (Inl (val_of_sx v))
  | L [A "result_err"; e] -> PFromResult (Inr (atom_nat e))
  | L [A "hot"; h] -> PHot (atom_nat h)
  | L [A "conn"; k] -> PConn (atom_nat k)
  | L [A "manual"; s] -> PManual (atom_nat s)
  | L [A "ref"; i] -> PRef (atom_nat i)
  | L (A "op" :: A name :: L ps :: src :: others) ->
      POp (op_of_sx name ps, pipe_of_sx src, List.map pipe_of_sx others)
  | _ -> failwith ("bad pipe " ^ sx_to_string x)

let rec reaction_of_sx = function
  | L [A "unsub-self"] -> RUnsubSelf
  | L [A "unsub"; k] -> RUnsub (atom_nat k)
  | L [A "emit"; h; e] -> REmit (atom_nat h, ev_of_sx e)
  | L [A "sub"; k; p] -> RSub (atom_nat k, pipe_of_sx p)
  | L [A "push"; s; e] -> RPush (atom_nat s, ev_of_sx e)
  | x -> failwith ("bad reaction " ^ sx_to_string x)

let action_of_sx = function
  | L (A "sub" :: k :: p :: rs) ->
      DSub (atom_nat k, pipe_of_sx p,
            List.map (function L [A "react"; i; r] -> (atom_nat i, reaction_of_sx r) | x -> failwith ("bad react " ^ sx_to_string x)) rs)
  | L [A "unsub"; k] -> DUnsub (atom_nat k)
  | L [A "emit"; h; e] -> DEmit (atom_nat h, ev_of_sx e)
  | L [A "connect"; k; x] -> DConnect (atom_nat k, atom_nat x)
  | L [A "disconnect"; x] -> DDisconnect (atom_nat x)
  | L [A "push"; s; e] -> DPush (atom_nat s, ev_of_sx e)
  | x -> failwith ("bad action " ^ sx_to_string x)

let field name (l : sx list) : sx list =
  let rec go = function
    | L (A n :: r) :: _ when n = name -> r
    | _ :: t -> go t
    | [] -> [] in
  go l

let scenario_of_sx (x : sx) : scenario =
  match x with
  | L (A "scn" :: fs) ->
      let srcs = List.map (function
          | L fl ->
              let polls = (match field "polls" fl with [p] -> atom_int p <> 0 | _ -> false) in
              let atts = List.filter_map (function L (A "att" :: evs) -> Some (List.map ev_of_sx evs) | _ -> None) fl in
              (atts, polls)
          | _ -> failwith "bad src") (field "srcs" fs) in
      let subjects = List.map (function
          | L [A "subject"] -> (KSubject, None)
          | L [A "behavior"; v] -> (KBehavior, Some (val_of_sx v))
          | L [A "replay"] -> (KReplay, None)
          | L [A "async"] -> (KAsync, None)
          | x -> failwith ("bad subject " ^ sx_to_string x)) (field "subjects" fs) in
      let conns = List.map (function
          | L [A "publish"; p] -> (CPublish, pipe_of_sx p)
          | L [A "refcount"; p] -> (CRefCount, pipe_of_sx p)
          | L [A "replay"; p] -> (CReplay, pipe_of_sx p)
          | x -> failwith ("bad conn " ^ sx_to_string x)) (field "conns" fs) in
      let handles = (match field "handles" fs with [h] -> atom_nat h | _ -> O) in
      let defs = List.map pipe_of_sx (field "defs" fs) in
      { sc_scripts = srcs; sc_subjects = subjects; sc_conns = conns; sc_defs = defs; sc_handles = handles;
        sc_script = List.map action_of_sx (field "script" fs) }
  | _ -> failwith "bad scenario"

(* ---------------------------------------------------------------- observations *)
let uid_str (u : nat) : string =
  match udec u with UTop k -> "t" ^ string_of_int (int_of_nat k) | UChild j -> "c" ^ string_of_int (int_of_nat j)

let sx_of_obs (stk : req list) (w : world) : sx =
  let outc = match w.out with
    | SelfDeadlock _ -> "hang"
    | Running -> if stk = [] then "ok" else "hang" in
  let b x = A (if x then "1" else "0") in
  let i n = A (string_of_int (int_of_nat n)) in
  L [A "obs";
     L [A "out"; A outc];
     L (A "log" :: List.map (fun ((u, c), e) -> L [A (uid_str u); i c; sx_of_ev e]) w.log);
     L (A "tap" :: List.map (fun (t, e) -> L [i t; sx_of_ev e]) w.taplog);
     L (A "probes" :: List.map (fun (((((s, a), p), al), ll), c) -> L [i s; i a; i p; b al; i ll; i c]) w.probes);
     L (A "snaps" :: List.map (fun ((c, bs), ns) -> L [i c; L (List.map b bs); L (List.map i ns)]) w.snaps)]

let model_detail (stk : req list) (w : world) : string =
  match w.out with
  | SelfDeadlock _ -> "self-deadlock"
  | Running -> if stk = [] then (if closure_ok w then "ok closure=1" else "ok closure=0") else "spin"

(* ---------------------------------------------------------------- oracles on observation lines *)
let uid_of_str (s : string) : nat =
  let k = nat_of_int (int_of_string (String.sub s 1 (String.length s - 1))) in
  if s.[0] = 't' then uenc (UTop k) else uenc (UChild k)

let observation_of_sx (x : sx) : observation =
  match x with
  | L (A "obs" :: fs) ->
      let outc = (match field "out" fs with [A "ok"] -> O | [A "hang"] -> S O | _ -> S (S O)) in
      let bool_of = function A "1" -> true | _ -> false in
      { ob_out = outc;
        ob_log = List.map (function L [A u; c; e] -> ((uid_of_str u, atom_nat c), ev_of_sx e) | y -> failwith ("bad log entry " ^ sx_to_string y)) (field "log" fs);
        ob_tap = List.map (function L [t; e] -> (atom_nat t, ev_of_sx e) | y -> failwith ("bad tap " ^ sx_to_string y)) (field "tap" fs);
        ob_probes = List.map (function L [s; a; p; al; ll; c] -> (((((atom_nat s, atom_nat a), atom_nat p), bool_of al), atom_nat ll), atom_nat c) | y -> failwith ("bad probe " ^ sx_to_string y)) (field "probes" fs);
        ob_snaps = List.map (function L [c; L bs; L ns] -> ((atom_nat c, List.map bool_of bs), List.map atom_nat ns) | y -> failwith ("bad snap " ^ sx_to_string y)) (field "snaps" fs) }
  | _ -> failwith "bad observation"

let read_lines path =
  let ic = open_in path in
  let acc = ref [] in
  (try while true do let l = input_line ic in if String.length l > 0 then acc := l :: !acc done with End_of_file -> ());
  close_in ic; List.rev !acc

(* verdict of one oracle: None = not applicable, Some true = holds *)
let apply_oracle (name : string) (sc : scenario) (o : observation) : bool option =
  match name with
  | "c01" -> Some (c01_oracle o)
  | "c02" -> c02_oracle sc o
  | "c02loc" -> c02_loc_oracle sc o
  | "c05" -> c05_oracle sc o
  | "c06" -> c06_oracle sc o
  | "c10" -> c10_oracle sc o
  | "c13" -> c13_oracle sc o
  | "c10k" -> c10k_oracle sc o
  | "c13k" -> c13k_oracle sc o
  | "c03" -> c03_oracle sc o
  | "c03m" -> c03_mloc_oracle sc o
  | "c04" -> c04_oracle sc o
  | _ -> failwith ("unknown oracle " ^ name)

let oracle name scen_file obs_file =
  let ss = read_lines scen_file and os = read_lines obs_file in
  List.iter2 (fun s o ->
      let v =
        try
          let x = (match parse_sx o with [x] -> x | _ -> failwith "obs: not one sexp") in
          (match x with
           | L (A "obs" :: _) ->
               let sc = scenario_of_sx (match parse_sx s with [y] -> y | _ -> failwith "scn: not one sexp") in
               (match apply_oracle name sc (observation_of_sx x) with
                | None -> "skip" | Some true -> "ok" | Some false -> "fail")
           | _ -> "fail unreadable-observation")
        with e -> "fail exception " ^ Printexc.to_string e in
      print_endline v) ss os

let run_seq fuel =
  let fuel = nat_of_int fuel in
  (try
     while true do
       let line = input_line stdin in
       if String.length line > 0 && line.[0] = '(' then begin
         (match (try Ok (parse_sx line) with e -> Error (Printexc.to_string e)) with
          | Ok [x] ->
              (match (try Ok (scenario_of_sx x) with e -> Error (Printexc.to_string e)) with
               | Ok sc ->
                   let (stk, w) = run_scenario fuel sc in
                   print_string (sx_to_string (sx_of_obs stk w));
                   print_string (" ;; " ^ model_detail stk w);
                   print_newline ()
               | Error m -> print_endline ("(error \"" ^ String.escaped m ^ "\")"))
          | Ok _ -> print_endline "(error \"not one sexp\")"
          | Error m -> print_endline ("(error \"" ^ String.escaped m ^ "\")"))
       end
     done
   with End_of_file -> ())


(* ================================================================ concurrency glue (C19, C08, C18, ...) *)
(* generic exhaustive exploration of a finite transition system given as an extracted step function:
   states are compared through a canonical key; `succ` lists the successor states *)
let explore (type s) (key : s -> string) (succ : s -> s list) (init : s) (max_states : int) : s list * bool =
  let seen : (string, unit) Hashtbl.t = Hashtbl.create 4096 in
  let finals = ref [] in
  let stack = ref [init] in
  let complete = ref true in
  Hashtbl.replace seen (key init) ();
  while !stack <> [] do
    (match !stack with
     | st :: rest ->
         stack := rest;
         let nx = succ st in
         if nx = [] then finals := st :: !finals
         else List.iter (fun s' ->
             let k = key s' in
             if not (Hashtbl.mem seen k) then begin
               if Hashtbl.length seen >= max_states then complete := false
               else begin Hashtbl.replace seen k (); stack := s' :: !stack end
             end) nx
     | [] -> ())
  done;
  (!finals, !complete)

(* ---- C19: the observer gate ---- *)
let gcall_of_sx = function
  | L [A "next"; v] -> GNext (atom_nat v)
  | L [A "error"] -> GError
  | L [A "complete"] -> GComplete
  | L [A "unsub"] -> GUnsub
  | x -> failwith ("bad gate call " ^ sx_to_string x)
let gev_str = function GN v -> "n" ^ string_of_int (int_of_nat v) | GE -> "e" | GC -> "c"

(* canonical, closure-free form of a gate configuration: only callback starts are kept of the trace *)
let gate_norm (nthr : int) (c : gcfg) : gcfg =
  let tab = Array.init nthr (fun i -> c.g_thr (nat_of_int i)) in
  { c with g_thr = (fun t -> let i = int_of_nat t in if i < nthr then tab.(i) else { g_prog = []; g_pc = PIdle; g_late = false });
           g_trace = List.filter (function EvCbStart _ -> true | _ -> false) c.g_trace }
let gate_key (nthr : int) (c : gcfg) : string =
  let tab = List.init nthr (fun i -> c.g_thr (nat_of_int i)) in
  Marshal.to_string (c.g_n, c.g_e, c.g_c, c.g_termret, tab, c.g_trace) []
let gate_enabled (th : gthread) : bool = not (th.g_pc = PIdle && th.g_prog = [])

let gate_explore () =
  (try
     while true do
       let line = input_line stdin in
       if String.length line > 0 && line.[0] = '(' then begin
         match parse_sx line with
         | [L (A "progs" :: ts)] ->
             let progs = List.map (function L (A "t" :: cs) -> List.map gcall_of_sx cs | x -> failwith ("bad thread " ^ sx_to_string x)) ts in
             let n = List.length progs in
             let arr = Array.of_list progs in
             let init = gate_norm n (ginit (fun t -> let i = int_of_nat t in if i < n then arr.(i) else [])) in
             let succ c = List.concat (List.init n (fun i -> if gate_enabled (c.g_thr (nat_of_int i)) then [gate_norm n (gstep c (nat_of_int i))] else [])) in
             let (finals, complete) = explore (gate_key n) succ init 2000000 in
             let logs = List.sort_uniq compare (List.map (fun c ->
                 String.concat " " (List.filter_map (function EvCbStart (_, e, _) -> Some (gev_str e) | _ -> None) c.g_trace)) finals) in
             Printf.printf "(logs %s %s)\n" (if complete then "complete" else "incomplete") (String.concat " " (List.map (fun l -> "(" ^ l ^ ")") logs))
         | _ -> print_endline "(error \"bad progs\")"
       end
     done
   with End_of_file -> ())

let gate_oracle_cmd () =
  (try
     while true do
       let line = input_line stdin in
       if String.length line > 0 && line.[0] = '(' then begin
         match parse_sx line with
         | [L (A "cbs" :: cbs)] ->
             let conv = function
               | L [k; b; s; r] ->
                   let e = (match k with A "e" -> GE | A "c" -> GC | A _ -> GN O | L _ -> GN O) in
                   (((e, atom_nat b), atom_nat s), atom_nat r)
               | x -> failwith ("bad cb " ^ sx_to_string x) in
             print_endline (if gate_oracle (List.map conv cbs) then "ok" else "fail")
         | _ -> print_endline "fail unreadable"
       end
     done
   with End_of_file -> ())


(* ---- C08: is an observed call/return history of the scheduler a linearisation accepted by the queue LTS? ----
   history events, in log order:  (call C post T) (ret C post T) (call C stop) (ret C stop) (start T) (end T)
   final: waiting | exited | running.  Client operations take effect atomically somewhere between their call
   and their return; the worker's pop takes effect somewhere between its previous event and the `start`
   record of the task.  Depth-first search over the possible orders, memoised. *)
type qev = QCall of int * qop | QRet of int * qop | QStart of int | QEnd of int

exception Search_budget
let queue_accept (evs : qev array) (final : string) : bool =
  let n = Array.length evs in
  let seen : (string, unit) Hashtbl.t = Hashtbl.create 1024 in
  (* state: position, pending client ops, LTS state, is the running task's start record still to come? *)
  let rec go pos (pending : (int * qop) list) (st : qst) (unobs : bool) : bool =
    let key = Marshal.to_string (pos, List.sort compare pending, st, unobs) [] in
    if Hashtbl.mem seen key then false
    else begin
      if Hashtbl.length seen > 1_500_000 then raise Search_budget;      (* the search is exponential in the number of overlapping client operations *)
      Hashtbl.replace seen key ();
      (* (a) linearise one pending client operation now *)
      List.exists (fun (c, o) -> go pos (List.filter (fun x -> x <> (c, o)) pending) (qstep st o) unobs) pending
      (* (b) the worker pops early (its start record comes later) *)
      || (not unobs && (match st.q_worker with WIdle | WWaiting -> true | _ -> false) &&
          (let st1 = qstep (qstep st QWake) QCheck in
           match st1.q_worker with WRunning _ -> go pos pending st1 true | _ -> false))
      (* (c) consume the next recorded event *)
      || (if pos >= n then
            pending = [] && not unobs &&
            (let rec settle s k = if k = 0 then s else match s.q_worker with WIdle -> settle (qstep s QCheck) (k - 1) | _ -> s in
             let s = settle st 3 in
             match s.q_worker, final with
             | WWaiting, "waiting" -> true
             | WExited, "exited" -> true
             | WRunning _, "running" -> true
             | _, _ -> false)
          else match evs.(pos) with
            | QCall (c, o) -> go (pos + 1) ((c, o) :: pending) st unobs
            | QRet (c, o) -> if List.mem (c, o) pending then false else go (pos + 1) pending st unobs
            | QStart t ->
                if unobs then (match st.q_worker with WRunning t' when int_of_nat t' = t -> go (pos + 1) pending st false | _ -> false)
                else (let st1 = qstep (qstep st QWake) QCheck in
                      match st1.q_worker with WRunning t' when int_of_nat t' = t -> go (pos + 1) pending st1 false | _ -> false)
            | QEnd t ->
                (match st.q_worker with
                 | WRunning t' when int_of_nat t' = t && not unobs -> go (pos + 1) pending (qstep st QDone) false
                 | _ -> false))
    end in
  go 0 [] q0 false

let queue_accept_cmd () =
  (try
     while true do
       let line = input_line stdin in
       if String.length line > 0 && line.[0] = '(' then begin
         match parse_sx line with
         | [L (A "hist" :: A final :: evs)] ->
             let conv = function
               | L [A "call"; c; A "post"; t] -> QCall (atom_int c, QPost (atom_nat t))
               | L [A "ret"; c; A "post"; t] -> QRet (atom_int c, QPost (atom_nat t))
               | L [A "call"; c; A "stop"] -> QCall (atom_int c, QStop)
               | L [A "ret"; c; A "stop"] -> QRet (atom_int c, QStop)
               | L [A "start"; t] -> QStart (atom_int t)
               | L [A "end"; t] -> QEnd (atom_int t)
               | x -> failwith ("bad queue event " ^ sx_to_string x) in
             (try print_endline (if queue_accept (Array.of_list (List.map conv evs)) final then "ok" else "fail")
              with Search_budget -> print_endline "giveup"
                 | e -> print_endline ("fail exception " ^ Printexc.to_string e))
         | _ -> print_endline "fail unreadable"
       end
     done
   with End_of_file -> ())


(* ---- C18: the set of (result, number of polls) the to_vec model can produce without spurious re-polls ---- *)
let tovec_explore () =
  (try
     while true do
       let line = input_line stdin in
       if String.length line > 0 && line.[0] = '(' then begin
         match parse_sx line with
         | [L [A "tv"; L (A "items" :: is); en]] ->
             let items = List.map atom_nat is in
             let en = (match en with A "complete" -> TComplete | L [A "error"; e] -> TError (atom_nat e) | _ -> TSilent) in
             (* state = (model state, polls so far) *)
             let succ (st, polls) =
               List.concat (List.map (fun a ->
                   match tstep st a with
                   | Some st' -> [(st', (match a, st.t_pp with APoll, PPStart -> polls + 1 | _ -> polls))]
                   | None -> []) [APoll; ASource]) in
             let key x = Marshal.to_string x [] in
             let (finals, complete) = explore key succ (tv0 items en, 0) 1000000 in
             let outs = List.sort_uniq compare (List.map (fun (st, polls) ->
                 match st.t_pp with
                 | PPReady (None, l) -> Printf.sprintf "(%d ok %s)" polls (String.concat " " (List.map (fun n -> string_of_int (int_of_nat n)) l))
                 | PPReady (Some e, _) -> Printf.sprintf "(%d err %d)" polls (int_of_nat e)
                 | PPParked -> Printf.sprintf "(%d parked)" polls
                 | _ -> Printf.sprintf "(%d stuck)" polls) finals) in
             Printf.printf "(outs %s %s)\n" (if complete then "complete" else "incomplete") (String.concat " " outs)
         | _ -> print_endline "(error \"bad tv\")"
       end
     done
   with End_of_file -> ())


(* ---- C12: subjects under concurrency ---- *)
let subj_oracle_cmd () =
  (try
     while true do
       let line = input_line stdin in
       if String.length line > 0 && line.[0] = '(' then begin
         match parse_sx line with
         | [L (A "idx" :: xs)] ->
             let l = List.map atom_nat xs in
             print_endline (if consecutive l then "ok" else "not-consecutive")
         | _ -> print_endline "(error \"bad idx\")"
       end
     done
   with End_of_file -> ())

let subj_explore () =
  (try
     while true do
       let line = input_line stdin in
       if String.length line > 0 && line.[0] = '(' then begin
         match parse_sx line with
         | [L [A "subj"; A kind; L (A "scripts" :: ss); L [A "late"; late]; L [A "leaver"; leaver]] ] ->
             let scripts = List.map (function L (A "s" :: vs) -> List.map atom_nat vs | x -> failwith ("bad script " ^ sx_to_string x)) ss in
             let np = List.length scripts in
             let arr = Array.of_list scripts in
             let late = int_of_nat (atom_nat late) = 1 and leaver = int_of_nat (atom_nat leaver) = 1 in
             let logs_of (acts : sact list) (init : scfg) : string list =
               let norm (c : scfg) : scfg =
                 let tab = Array.init np (fun i -> c.s_prod (nat_of_int i)) in
                 { c with s_prod = (fun p -> let i = int_of_nat p in if i < np then tab.(i) else { sp_script = []; sp_k = nat_of_int 0; sp_pos = SIdle }) } in
               let key (c : scfg) = Marshal.to_string (c.s_inmap, c.s_alive, c.s_joined, c.s_leave, List.init np (fun i -> c.s_prod (nat_of_int i)), c.s_log) [] in
               let succ c = let k = key c in List.filter (fun c' -> key c' <> k) (List.map (fun a -> norm (sstep c a)) acts) in
               let (finals, complete) = explore key succ (norm init) 2000000 in
               if not complete then failwith "subj-explore: state limit";
               List.sort_uniq compare (List.map (fun c -> String.concat " " (List.map (fun ((_, _), v) -> string_of_int (int_of_nat v)) c.s_log)) finals) in
             let prod_acts = List.concat (List.init np (fun i -> let p = nat_of_int i in [SSnap p; SDeliver p; SFinish p])) in
             let init0 = sinit (fun p -> let i = int_of_nat p in if i < np then arr.(i) else []) in
             if kind = "subject" then begin
               let u1 = if late then logs_of (SJoin :: prod_acts) init0 else [""] in
               let u2 = if leaver then logs_of (SClear :: SRemove :: prod_acts) (sstep init0 SJoin) else [""] in
               Printf.printf "(logs (u1 %s) (u2 %s))\n" (String.concat " " (List.map (fun l -> "(" ^ l ^ ")") u1)) (String.concat " " (List.map (fun l -> "(" ^ l ^ ")") u2))
             end else begin
               let mode = if kind = "replay" then HReplay else HBehavior in
               let hinit0 = hinit mode (nat_of_int 0) (fun p -> let i = int_of_nat p in if i < np then arr.(i) else []) in
               let hnorm (c : hcfg) : hcfg =
                 let tab = Array.init np (fun i -> c.h_prod (nat_of_int i)) in
                 { c with h_prod = (fun p -> let i = int_of_nat p in if i < np then tab.(i) else { hp_script = []; hp_k = nat_of_int 0; hp_pos = HIdle }) } in
               let hkey (c : hcfg) = Marshal.to_string (c.h_hist, c.h_in, c.h_lock, c.h_k, c.h_thr, c.h_stage, List.init np (fun i -> c.h_prod (nat_of_int i)), c.h_log) [] in
               let hacts = (if late then [JStep] else []) @ List.concat (List.init np (fun i -> let p = nat_of_int i in [HAppend p; HSnap p; HDeliver p])) in
               let succ c = let k = hkey c in List.filter (fun c' -> hkey c' <> k) (List.map (fun a -> hnorm (hstep c a)) hacts) in
               let (finals, complete) = explore hkey succ (hnorm hinit0) 2000000 in
               if not complete then failwith "subj-explore: state limit";
               let u1 = if late then List.sort_uniq compare (List.map (fun c -> String.concat " " (List.map (fun ((_, _), v) -> string_of_int (int_of_nat v)) c.h_log)) finals) else [""] in
               Printf.printf "(logs (u1 %s))\n" (String.concat " " (List.map (fun l -> "(" ^ l ^ ")") u1))
             end
         | _ -> print_endline "(error \"bad subj\")"
       end
     done
   with End_of_file -> ())


(* ---- C11: combinators fed from several threads ---- *)
let comb_explore () =
  (try
     while true do
       let line = input_line stdin in
       if String.length line > 0 && line.[0] = '(' then begin
         match parse_sx line with
         | [L [A "comb"; A kind; L (A "scripts" :: ss)]] ->
             let scripts = List.map (function L (A "s" :: vs) -> List.map atom_nat vs | x -> failwith ("bad script " ^ sx_to_string x)) ss in
             let n = List.length scripts in
             let arr = Array.of_list scripts in
             let sf = (fun p -> let i = int_of_nat p in if i < n then arr.(i) else []) in
             let ids = List.init n nat_of_int in
             let str l = String.concat " " l in
             let logs =
               if kind = "merge" then begin
                 let norm (c : mgcfg) = let tab = Array.init n (fun i -> c.m_in (nat_of_int i)) in
                   { c with m_in = (fun p -> let i = int_of_nat p in if i < n then tab.(i) else { mi_script = []; mi_k = nat_of_int 0; mi_st = MNotYet }) } in
                 let key (c : mgcfg) = Marshal.to_string (c.m_reg, c.m_open, c.m_log, List.map (fun i -> c.m_in i) ids) [] in
                 let acts = List.concat (List.map (fun i -> [MItem i; MEnd i; MFin i]) ids) in
                 let succ c = let k = key c in List.filter (fun c' -> key c' <> k) (List.map (fun a -> norm (mgstep c a)) acts) in
                 let (finals, complete) = explore key succ (norm (mginit (nat_of_int n) sf)) 2000000 in
                 if not complete then failwith "comb-explore: state limit";
                 List.map (fun (c : mgcfg) -> str (List.map (function MI (_, v) -> string_of_int (int_of_nat v) | MC -> "c") c.m_log)) finals
               end else if kind = "zip" then begin
                 let norm (c : zcfg) =
                   let q = Array.init n (fun i -> c.z_q (nat_of_int i)) and k = Array.init n (fun i -> c.z_k (nat_of_int i)) and pc = Array.init n (fun i -> c.z_pc (nat_of_int i)) in
                   { c with z_q = (fun p -> let i = int_of_nat p in if i < n then q.(i) else []);
                            z_k = (fun p -> let i = int_of_nat p in if i < n then k.(i) else nat_of_int 0);
                            z_pc = (fun p -> let i = int_of_nat p in if i < n then pc.(i) else ZIdle); z_script = sf } in
                 let key (c : zcfg) = Marshal.to_string (List.map (fun i -> (c.z_q i, c.z_k i, c.z_pc i)) ids, c.z_p, c.z_log) [] in
                 let acts = List.concat (List.map (fun i -> [ZPush i; ZGet i; ZDeliver i]) ids) in
                 let succ c = let k = key c in List.filter (fun c' -> key c' <> k) (List.map (fun a -> norm (zstep c a)) acts) in
                 let (finals, complete) = explore key succ (norm (zinit (nat_of_int n) sf)) 2000000 in
                 if not complete then failwith "comb-explore: state limit";
                 List.map (fun (c : zcfg) -> str (List.map (fun (_, t) -> "(" ^ str (List.map (fun v -> string_of_int (int_of_nat v)) t) ^ ")") c.z_log)) finals
               end else begin
                 let norm (c : acfg) =
                   let k = Array.init n (fun i -> c.a_k (nat_of_int i)) and pc = Array.init n (fun i -> c.a_pc (nat_of_int i)) in
                   { c with a_k = (fun p -> let i = int_of_nat p in if i < n then k.(i) else nat_of_int 0);
                            a_pc = (fun p -> let i = int_of_nat p in if i < n then pc.(i) else AIdle); a_script = sf } in
                 let key (c : acfg) = Marshal.to_string (c.a_win, List.map (fun i -> (c.a_k i, c.a_pc i)) ids, c.a_log) [] in
                 let acts = List.concat (List.map (fun i -> [ACheck i; ASend i]) ids) in
                 let succ c = let k = key c in List.filter (fun c' -> key c' <> k) (List.map (fun a -> norm (astep c a)) acts) in
                 let (finals, complete) = explore key succ (norm (ainit sf)) 2000000 in
                 if not complete then failwith "comb-explore: state limit";
                 List.map (fun (c : acfg) -> str (List.map (fun (_, v) -> string_of_int (int_of_nat v)) c.a_log)) finals
               end in
             let logs = List.sort_uniq compare logs in
             Printf.printf "(logs %s)\n" (String.concat " " (List.map (fun l -> "(" ^ l ^ ")") logs))
         | _ -> print_endline "(error \"bad comb\")"
       end
     done
   with End_of_file -> ())


(* ---- C09: observe_on ---- *)
let oo_explore () =
  (try
     while true do
       let line = input_line stdin in
       if String.length line > 0 && line.[0] = '(' then begin
         match parse_sx line with
         | [L [A "oo"; n; term; unsub]] ->
             let n = atom_nat n and term = int_of_nat (atom_nat term) = 1 and unsub = int_of_nat (atom_nat unsub) = 1 in
             let key (c : ocfg) = Marshal.to_string c [] in
             let acts = [OEmit; OWorker QCheck; ODeliver; OAfter] @ (if unsub then [OUnsub] else []) in
             (* a sleeping worker is only woken by a notification (post / stop), which the queue model applies itself:
                the explicit QWake stands for a spurious wake-up, leads to no new log and is left out here *)
             let succ c = let k = key c in List.filter (fun c' -> key c' <> k) (List.map (fun a -> ostep c a) acts) in
             let (finals, complete) = explore key succ (oinit n term) 2000000 in
             if not complete then failwith "oo-explore: state limit";
             let logs = List.sort_uniq compare (List.map (fun (c : ocfg) -> String.concat " " (List.map (fun v -> string_of_int (int_of_nat v)) c.o_log)) finals) in
             Printf.printf "(logs %s)\n" (String.concat " " (List.map (fun l -> "(" ^ l ^ ")") logs))
         | _ -> print_endline "(error \"bad oo\")"
       end
     done
   with End_of_file -> ())


(* ---- C07: lock-order checker ---- *)
let lock_check () =
  (try
     while true do
       let line = input_line stdin in
       if String.length line > 0 && line.[0] = '(' then begin
         match parse_sx line with
         | [L [A "lc"; bound; L (A "levels" :: lv); L (A "down" :: dn); L (A "edges" :: es)]] ->
             let tab = Hashtbl.create 64 in
             List.iter (function L [c; l] -> Hashtbl.replace tab (int_of_nat (atom_nat c)) (atom_nat l) | x -> failwith ("bad level " ^ sx_to_string x)) lv;
             let downs = List.map (fun x -> int_of_nat (atom_nat x)) dn in
             let level c = (try Hashtbl.find tab (int_of_nat c) with Not_found -> nat_of_int 0) in
             let up l = not (List.mem (int_of_nat l) downs) in
             let edges = List.map (function L [a; b; c; d] -> { e_hcls = atom_nat a; e_hid = atom_nat b; e_wcls = atom_nat c; e_wid = atom_nat d }
                                          | x -> failwith ("bad edge " ^ sx_to_string x)) es in
             let b = atom_nat bound in
             if edges_ok b level up edges then print_endline "ok"
             else begin
               let e = List.find (fun e -> not (edge_ok b level up e)) edges in
               Printf.printf "(bad %d %d %d %d)\n" (int_of_nat e.e_hcls) (int_of_nat e.e_hid) (int_of_nat e.e_wcls) (int_of_nat e.e_wid)
             end
         | _ -> print_endline "(error \"bad lc\")"
       end
     done
   with End_of_file -> ())


(* ---- C16: timeout / delay definitions on a gap script ---- *)
let time_oracle () =
  (try
     while true do
       let line = input_line stdin in
       if String.length line > 0 && line.[0] = '(' then begin
         match parse_sx line with
         | [L [A kind; d; L (A "items" :: is); en]] ->
             let items = List.map (function L [g; v; b] -> { x_gap = atom_nat g; x_val = atom_nat v; x_busy = atom_nat b } | x -> failwith ("bad item " ^ sx_to_string x)) is in
             let i n = string_of_int (int_of_nat n) in
             if kind = "timeout" then begin
               let en = (match en with L [A "end"; g; e] -> Some (atom_nat g, int_of_nat (atom_nat e) = 1) | _ -> None) in
               let log = spec_timeout (atom_nat d) (nat_of_int 0) false items en in
               Printf.printf "(log %s)\n" (String.concat " " (List.map (fun (t, e) ->
                   match e with XItem v -> "(" ^ i t ^ " n " ^ i v ^ ")" | XTimeout -> "(" ^ i t ^ " timeout)" | XDone true -> "(" ^ i t ^ " e)" | XDone false -> "(" ^ i t ^ " c)") log))
             end else begin
               let log = spec_delay (atom_nat d) (nat_of_int 0) items in
               Printf.printf "(log %s)\n" (String.concat " " (List.map (fun ((c, t), v) -> "(" ^ i c ^ " " ^ i t ^ " " ^ i v ^ ")") log))
             end
         | _ -> print_endline "(error \"bad time-oracle input\")"
       end
     done
   with End_of_file -> ())

let () =
  match Array.to_list Sys.argv with
  | _ :: "run-seq" :: fuel :: _ -> run_seq (int_of_string fuel)
  | _ :: "oracle" :: name :: sf :: obf :: _ -> oracle name sf obf
  | _ :: "gate-explore" :: _ -> gate_explore ()
  | _ :: "gate-oracle" :: _ -> gate_oracle_cmd ()
  | _ :: "queue-accept" :: _ -> queue_accept_cmd ()
  | _ :: "tovec-explore" :: _ -> tovec_explore ()
  | _ :: "subj-explore" :: _ -> subj_explore ()
  | _ :: "comb-explore" :: _ -> comb_explore ()
  | _ :: "oo-explore" :: _ -> oo_explore ()
  | _ :: "lock-check" :: _ -> lock_check ()
  | _ :: "time-oracle" :: _ -> time_oracle ()
  | _ :: "subj-oracle" :: _ -> subj_oracle_cmd ()
  | _ -> prerr_endline "usage: driver run-seq FUEL < scenarios"; exit 2
