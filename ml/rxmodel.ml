
(** val negb : bool -> bool **)

let negb = function
| true -> false
| false -> true

type nat =
| O
| S of nat

type ('a, 'b) sum =
| Inl of 'a
| Inr of 'b

(** val fst : ('a1 * 'a2) -> 'a1 **)

let fst = function
| (x, _) -> x

(** val snd : ('a1 * 'a2) -> 'a2 **)

let snd = function
| (_, y) -> y

(** val length : 'a1 list -> nat **)

let rec length = function
| [] -> O
| _ :: l' -> S (length l')

(** val app : 'a1 list -> 'a1 list -> 'a1 list **)

let rec app l m =
  match l with
  | [] -> m
  | a :: l1 -> a :: (app l1 m)

type comparison =
| Eq
| Lt
| Gt

(** val compOpp : comparison -> comparison **)

let compOpp = function
| Eq -> Eq
| Lt -> Gt
| Gt -> Lt

module Coq__1 = struct
 (** val add : nat -> nat -> nat **)
 let rec add n m =
   match n with
   | O -> m
   | S p -> S (add p m)
end
include Coq__1

(** val mul : nat -> nat -> nat **)

let rec mul n m =
  match n with
  | O -> O
  | S p -> add m (mul p m)

(** val sub : nat -> nat -> nat **)

let rec sub n m =
  match n with
  | O -> n
  | S k -> (match m with
            | O -> n
            | S l -> sub k l)

(** val eqb : bool -> bool -> bool **)

let eqb b1 b2 =
  if b1 then b2 else if b2 then false else true

module Nat =
 struct
  (** val sub : nat -> nat -> nat **)

  let rec sub n m =
    match n with
    | O -> n
    | S k -> (match m with
              | O -> n
              | S l -> sub k l)

  (** val eqb : nat -> nat -> bool **)

  let rec eqb n m =
    match n with
    | O -> (match m with
            | O -> true
            | S _ -> false)
    | S n' -> (match m with
               | O -> false
               | S m' -> eqb n' m')

  (** val leb : nat -> nat -> bool **)

  let rec leb n m =
    match n with
    | O -> true
    | S n' -> (match m with
               | O -> false
               | S m' -> leb n' m')

  (** val ltb : nat -> nat -> bool **)

  let ltb n m =
    leb (S n) m

  (** val max : nat -> nat -> nat **)

  let rec max n m =
    match n with
    | O -> m
    | S n' -> (match m with
               | O -> n
               | S m' -> S (max n' m'))

  (** val min : nat -> nat -> nat **)

  let rec min n m =
    match n with
    | O -> O
    | S n' -> (match m with
               | O -> O
               | S m' -> S (min n' m'))

  (** val even : nat -> bool **)

  let rec even = function
  | O -> true
  | S n0 -> (match n0 with
             | O -> false
             | S n' -> even n')

  (** val divmod : nat -> nat -> nat -> nat -> nat * nat **)

  let rec divmod x y q u =
    match x with
    | O -> (q, u)
    | S x' ->
      (match u with
       | O -> divmod x' y (S q) y
       | S u' -> divmod x' y q u')

  (** val modulo : nat -> nat -> nat **)

  let modulo x = function
  | O -> x
  | S y' -> sub y' (snd (divmod x y' O y'))

  (** val div2 : nat -> nat **)

  let rec div2 = function
  | O -> O
  | S n0 -> (match n0 with
             | O -> O
             | S n' -> S (div2 n'))

  (** val eq_dec : nat -> nat -> bool **)

  let rec eq_dec n m =
    match n with
    | O -> (match m with
            | O -> true
            | S _ -> false)
    | S n0 -> (match m with
               | O -> false
               | S n1 -> eq_dec n0 n1)
 end

(** val tl : 'a1 list -> 'a1 list **)

let tl = function
| [] -> []
| _ :: m -> m

(** val in_dec : ('a1 -> 'a1 -> bool) -> 'a1 -> 'a1 list -> bool **)

let rec in_dec h a = function
| [] -> false
| y :: l0 -> let s = h y a in if s then true else in_dec h a l0

(** val nth : nat -> 'a1 list -> 'a1 -> 'a1 **)

let rec nth n l default =
  match n with
  | O -> (match l with
          | [] -> default
          | x :: _ -> x)
  | S m -> (match l with
            | [] -> default
            | _ :: t -> nth m t default)

(** val nth_error : 'a1 list -> nat -> 'a1 option **)

let rec nth_error l = function
| O -> (match l with
        | [] -> None
        | x :: _ -> Some x)
| S n0 -> (match l with
           | [] -> None
           | _ :: l0 -> nth_error l0 n0)

(** val last : 'a1 list -> 'a1 -> 'a1 **)

let rec last l d =
  match l with
  | [] -> d
  | a :: l0 -> (match l0 with
                | [] -> a
                | _ :: _ -> last l0 d)

(** val rev : 'a1 list -> 'a1 list **)

let rec rev = function
| [] -> []
| x :: l' -> app (rev l') (x :: [])

(** val map : ('a1 -> 'a2) -> 'a1 list -> 'a2 list **)

let rec map f = function
| [] -> []
| a :: t -> (f a) :: (map f t)

(** val flat_map : ('a1 -> 'a2 list) -> 'a1 list -> 'a2 list **)

let rec flat_map f = function
| [] -> []
| x :: t -> app (f x) (flat_map f t)

(** val fold_left : ('a1 -> 'a2 -> 'a1) -> 'a2 list -> 'a1 -> 'a1 **)

let rec fold_left f l a0 =
  match l with
  | [] -> a0
  | b :: t -> fold_left f t (f a0 b)

(** val fold_right : ('a2 -> 'a1 -> 'a1) -> 'a1 -> 'a2 list -> 'a1 **)

let rec fold_right f a0 = function
| [] -> a0
| b :: t -> f b (fold_right f a0 t)

(** val existsb : ('a1 -> bool) -> 'a1 list -> bool **)

let rec existsb f = function
| [] -> false
| a :: l0 -> (||) (f a) (existsb f l0)

(** val forallb : ('a1 -> bool) -> 'a1 list -> bool **)

let rec forallb f = function
| [] -> true
| a :: l0 -> (&&) (f a) (forallb f l0)

(** val filter : ('a1 -> bool) -> 'a1 list -> 'a1 list **)

let rec filter f = function
| [] -> []
| x :: l0 -> if f x then x :: (filter f l0) else filter f l0

(** val combine : 'a1 list -> 'a2 list -> ('a1 * 'a2) list **)

let rec combine l l' =
  match l with
  | [] -> []
  | x :: tl0 ->
    (match l' with
     | [] -> []
     | y :: tl' -> (x, y) :: (combine tl0 tl'))

(** val firstn : nat -> 'a1 list -> 'a1 list **)

let rec firstn n l =
  match n with
  | O -> []
  | S n0 -> (match l with
             | [] -> []
             | a :: l0 -> a :: (firstn n0 l0))

(** val skipn : nat -> 'a1 list -> 'a1 list **)

let rec skipn n l =
  match n with
  | O -> l
  | S n0 -> (match l with
             | [] -> []
             | _ :: l0 -> skipn n0 l0)

(** val nodup : ('a1 -> 'a1 -> bool) -> 'a1 list -> 'a1 list **)

let rec nodup decA = function
| [] -> []
| x :: xs -> if in_dec decA x xs then nodup decA xs else x :: (nodup decA xs)

(** val seq : nat -> nat -> nat list **)

let rec seq start = function
| O -> []
| S len0 -> start :: (seq (S start) len0)

(** val repeat : 'a1 -> nat -> 'a1 list **)

let rec repeat x = function
| O -> []
| S k -> x :: (repeat x k)

type positive =
| XI of positive
| XO of positive
| XH

type z =
| Z0
| Zpos of positive
| Zneg of positive

module Pos =
 struct
  (** val succ : positive -> positive **)

  let rec succ = function
  | XI p -> XO (succ p)
  | XO p -> XI p
  | XH -> XO XH

  (** val add : positive -> positive -> positive **)

  let rec add x y =
    match x with
    | XI p ->
      (match y with
       | XI q -> XO (add_carry p q)
       | XO q -> XI (add p q)
       | XH -> XO (succ p))
    | XO p ->
      (match y with
       | XI q -> XI (add p q)
       | XO q -> XO (add p q)
       | XH -> XI p)
    | XH -> (match y with
             | XI q -> XO (succ q)
             | XO q -> XI q
             | XH -> XO XH)

  (** val add_carry : positive -> positive -> positive **)

  and add_carry x y =
    match x with
    | XI p ->
      (match y with
       | XI q -> XI (add_carry p q)
       | XO q -> XO (add_carry p q)
       | XH -> XI (succ p))
    | XO p ->
      (match y with
       | XI q -> XO (add_carry p q)
       | XO q -> XI (add p q)
       | XH -> XO (succ p))
    | XH ->
      (match y with
       | XI q -> XI (succ q)
       | XO q -> XO (succ q)
       | XH -> XI XH)

  (** val pred_double : positive -> positive **)

  let rec pred_double = function
  | XI p -> XI (XO p)
  | XO p -> XI (pred_double p)
  | XH -> XH

  (** val mul : positive -> positive -> positive **)

  let rec mul x y =
    match x with
    | XI p -> add y (XO (mul p y))
    | XO p -> XO (mul p y)
    | XH -> y

  (** val compare_cont : comparison -> positive -> positive -> comparison **)

  let rec compare_cont r x y =
    match x with
    | XI p ->
      (match y with
       | XI q -> compare_cont r p q
       | XO q -> compare_cont Gt p q
       | XH -> Gt)
    | XO p ->
      (match y with
       | XI q -> compare_cont Lt p q
       | XO q -> compare_cont r p q
       | XH -> Gt)
    | XH -> (match y with
             | XH -> r
             | _ -> Lt)

  (** val compare : positive -> positive -> comparison **)

  let compare =
    compare_cont Eq

  (** val eqb : positive -> positive -> bool **)

  let rec eqb p q =
    match p with
    | XI p0 -> (match q with
                | XI q0 -> eqb p0 q0
                | _ -> false)
    | XO p0 -> (match q with
                | XO q0 -> eqb p0 q0
                | _ -> false)
    | XH -> (match q with
             | XH -> true
             | _ -> false)

  (** val iter_op : ('a1 -> 'a1 -> 'a1) -> positive -> 'a1 -> 'a1 **)

  let rec iter_op op p a =
    match p with
    | XI p0 -> op a (iter_op op p0 (op a a))
    | XO p0 -> iter_op op p0 (op a a)
    | XH -> a

  (** val to_nat : positive -> nat **)

  let to_nat x =
    iter_op Coq__1.add x (S O)

  (** val of_succ_nat : nat -> positive **)

  let rec of_succ_nat = function
  | O -> XH
  | S x -> succ (of_succ_nat x)
 end

module Z =
 struct
  (** val double : z -> z **)

  let double = function
  | Z0 -> Z0
  | Zpos p -> Zpos (XO p)
  | Zneg p -> Zneg (XO p)

  (** val succ_double : z -> z **)

  let succ_double = function
  | Z0 -> Zpos XH
  | Zpos p -> Zpos (XI p)
  | Zneg p -> Zneg (Pos.pred_double p)

  (** val pred_double : z -> z **)

  let pred_double = function
  | Z0 -> Zneg XH
  | Zpos p -> Zpos (Pos.pred_double p)
  | Zneg p -> Zneg (XI p)

  (** val pos_sub : positive -> positive -> z **)

  let rec pos_sub x y =
    match x with
    | XI p ->
      (match y with
       | XI q -> double (pos_sub p q)
       | XO q -> succ_double (pos_sub p q)
       | XH -> Zpos (XO p))
    | XO p ->
      (match y with
       | XI q -> pred_double (pos_sub p q)
       | XO q -> double (pos_sub p q)
       | XH -> Zpos (Pos.pred_double p))
    | XH ->
      (match y with
       | XI q -> Zneg (XO q)
       | XO q -> Zneg (Pos.pred_double q)
       | XH -> Z0)

  (** val add : z -> z -> z **)

  let add x y =
    match x with
    | Z0 -> y
    | Zpos x' ->
      (match y with
       | Z0 -> x
       | Zpos y' -> Zpos (Pos.add x' y')
       | Zneg y' -> pos_sub x' y')
    | Zneg x' ->
      (match y with
       | Z0 -> x
       | Zpos y' -> pos_sub y' x'
       | Zneg y' -> Zneg (Pos.add x' y'))

  (** val opp : z -> z **)

  let opp = function
  | Z0 -> Z0
  | Zpos x0 -> Zneg x0
  | Zneg x0 -> Zpos x0

  (** val sub : z -> z -> z **)

  let sub m n =
    add m (opp n)

  (** val mul : z -> z -> z **)

  let mul x y =
    match x with
    | Z0 -> Z0
    | Zpos x' ->
      (match y with
       | Z0 -> Z0
       | Zpos y' -> Zpos (Pos.mul x' y')
       | Zneg y' -> Zneg (Pos.mul x' y'))
    | Zneg x' ->
      (match y with
       | Z0 -> Z0
       | Zpos y' -> Zneg (Pos.mul x' y')
       | Zneg y' -> Zpos (Pos.mul x' y'))

  (** val compare : z -> z -> comparison **)

  let compare x y =
    match x with
    | Z0 -> (match y with
             | Z0 -> Eq
             | Zpos _ -> Lt
             | Zneg _ -> Gt)
    | Zpos x' -> (match y with
                  | Zpos y' -> Pos.compare x' y'
                  | _ -> Gt)
    | Zneg x' ->
      (match y with
       | Zneg y' -> compOpp (Pos.compare x' y')
       | _ -> Lt)

  (** val leb : z -> z -> bool **)

  let leb x y =
    match compare x y with
    | Gt -> false
    | _ -> true

  (** val ltb : z -> z -> bool **)

  let ltb x y =
    match compare x y with
    | Lt -> true
    | _ -> false

  (** val eqb : z -> z -> bool **)

  let eqb x y =
    match x with
    | Z0 -> (match y with
             | Z0 -> true
             | _ -> false)
    | Zpos p -> (match y with
                 | Zpos q -> Pos.eqb p q
                 | _ -> false)
    | Zneg p -> (match y with
                 | Zneg q -> Pos.eqb p q
                 | _ -> false)

  (** val max : z -> z -> z **)

  let max n m =
    match compare n m with
    | Lt -> m
    | _ -> n

  (** val min : z -> z -> z **)

  let min n m =
    match compare n m with
    | Gt -> m
    | _ -> n

  (** val to_nat : z -> nat **)

  let to_nat = function
  | Zpos p -> Pos.to_nat p
  | _ -> O

  (** val of_nat : nat -> z **)

  let of_nat = function
  | O -> Z0
  | S n0 -> Zpos (Pos.of_succ_nat n0)

  (** val pos_div_eucl : positive -> z -> z * z **)

  let rec pos_div_eucl a b =
    match a with
    | XI a' ->
      let (q, r) = pos_div_eucl a' b in
      let r' = add (mul (Zpos (XO XH)) r) (Zpos XH) in
      if ltb r' b
      then ((mul (Zpos (XO XH)) q), r')
      else ((add (mul (Zpos (XO XH)) q) (Zpos XH)), (sub r' b))
    | XO a' ->
      let (q, r) = pos_div_eucl a' b in
      let r' = mul (Zpos (XO XH)) r in
      if ltb r' b
      then ((mul (Zpos (XO XH)) q), r')
      else ((add (mul (Zpos (XO XH)) q) (Zpos XH)), (sub r' b))
    | XH -> if leb (Zpos (XO XH)) b then (Z0, (Zpos XH)) else ((Zpos XH), Z0)

  (** val div_eucl : z -> z -> z * z **)

  let div_eucl a b =
    match a with
    | Z0 -> (Z0, Z0)
    | Zpos a' ->
      (match b with
       | Z0 -> (Z0, a)
       | Zpos _ -> pos_div_eucl a' b
       | Zneg b' ->
         let (q, r) = pos_div_eucl a' (Zpos b') in
         (match r with
          | Z0 -> ((opp q), Z0)
          | _ -> ((opp (add q (Zpos XH))), (add b r))))
    | Zneg a' ->
      (match b with
       | Z0 -> (Z0, a)
       | Zpos _ ->
         let (q, r) = pos_div_eucl a' b in
         (match r with
          | Z0 -> ((opp q), Z0)
          | _ -> ((opp (add q (Zpos XH))), (sub b r)))
       | Zneg b' -> let (q, r) = pos_div_eucl a' (Zpos b') in (q, (opp r)))

  (** val modulo : z -> z -> z **)

  let modulo a b =
    let (_, r) = div_eucl a b in r
 end

type val0 =
| VInt of z
| VBool of bool
| VUnit
| VList of val0 list
| VMatN of val0
| VMatE of nat
| VMatC
| VObs of nat

type err = nat

type ev =
| Nx of val0
| Er of err
| Co

(** val is_term : ev -> bool **)

let is_term = function
| Nx _ -> false
| _ -> true

(** val val_eqb : val0 -> val0 -> bool **)

let rec val_eqb a b =
  match a with
  | VInt x -> (match b with
               | VInt y -> Z.eqb x y
               | _ -> false)
  | VBool x -> (match b with
                | VBool y -> eqb x y
                | _ -> false)
  | VUnit -> (match b with
              | VUnit -> true
              | _ -> false)
  | VList l1 ->
    (match b with
     | VList l2 ->
       let rec go l3 l4 =
         match l3 with
         | [] -> (match l4 with
                  | [] -> true
                  | _ :: _ -> false)
         | x :: r ->
           (match l4 with
            | [] -> false
            | y :: s -> (&&) (val_eqb x y) (go r s))
       in go l1 l2
     | _ -> false)
  | VMatN x -> (match b with
                | VMatN y -> val_eqb x y
                | _ -> false)
  | VMatE x -> (match b with
                | VMatE y -> Nat.eqb x y
                | _ -> false)
  | VMatC -> (match b with
              | VMatC -> true
              | _ -> false)
  | VObs x -> (match b with
               | VObs y -> Nat.eqb x y
               | _ -> false)

(** val as_int : val0 -> z **)

let as_int = function
| VInt z0 -> z0
| VBool b -> if b then Zpos XH else Z0
| _ -> Z0

type fn1 =
| FAdd of z
| FMul of z
| FConst of z
| FId
| FModK of z

(** val app1 : fn1 -> val0 -> val0 **)

let app1 f v =
  match f with
  | FAdd k -> VInt (Z.add (as_int v) k)
  | FMul k -> VInt (Z.mul (as_int v) k)
  | FConst k -> VInt k
  | FId -> v
  | FModK k -> VInt (Z.modulo (as_int v) k)

type pred =
| PLt of z
| PGe of z
| PEven
| POdd
| PTrue
| PFalse
| PEqK of z
| PNeK of z

(** val appp : pred -> val0 -> bool **)

let appp p v =
  match p with
  | PLt k -> Z.ltb (as_int v) k
  | PGe k -> Z.leb k (as_int v)
  | PEven -> Z.eqb (Z.modulo (as_int v) (Zpos (XO XH))) Z0
  | POdd -> negb (Z.eqb (Z.modulo (as_int v) (Zpos (XO XH))) Z0)
  | PTrue -> true
  | PFalse -> false
  | PEqK k -> Z.eqb (as_int v) k
  | PNeK k -> negb (Z.eqb (as_int v) k)

type fn2 =
| F2Add
| F2Max
| F2Min
| F2Fst
| F2Snd
| F2SubMul

(** val app2 : fn2 -> val0 -> val0 -> val0 **)

let app2 f a x =
  match f with
  | F2Add -> VInt (Z.add (as_int a) (as_int x))
  | F2Max -> VInt (Z.max (as_int a) (as_int x))
  | F2Min -> VInt (Z.min (as_int a) (as_int x))
  | F2Fst -> a
  | F2Snd -> x
  | F2SubMul -> VInt (Z.sub (Z.mul (Zpos (XO XH)) (as_int a)) (as_int x))

(** val key_of : z -> val0 -> z **)

let key_of k v =
  Z.modulo (as_int v) k

type epred =
| EPAlways
| EPNever
| EPEq of err
| EPLt of err

(** val appe : epred -> err -> bool **)

let appe p e =
  match p with
  | EPAlways -> true
  | EPNever -> false
  | EPEq k -> Nat.eqb e k
  | EPLt k -> Nat.ltb e k

type combf =
| CList
| CSum

(** val appc : combf -> val0 list -> val0 **)

let appc f l =
  match f with
  | CList -> VList l
  | CSum -> VInt (fold_left (fun a x -> Z.add a (as_int x)) l Z0)

(** val val_ltb : val0 -> val0 -> bool **)

let val_ltb a b =
  Z.ltb (as_int a) (as_int b)

(** val val_add : val0 -> val0 -> val0 **)

let val_add a b =
  VInt (Z.add (as_int a) (as_int b))

(** val seqZ : z -> nat -> z list **)

let rec seqZ a = function
| O -> []
| S k -> a :: (seqZ (Z.add a (Zpos XH)) k)

type oid = nat

type cid = nat

type nid = nat

type hid = nat

type kid = nat

type sid = nat

type xid = nat

(** val upd : (nat -> 'a1) -> nat -> 'a1 -> nat -> 'a1 **)

let upd f k v x =
  if Nat.eqb x k then v else f x

type fmsel =
| SelJust
| SelPair of z
| SelMod

type opk =
| OMap of fn1
| OFilter of pred
| OTake of nat
| OTakeWhile of pred
| OTakeLast of nat
| OSkip of nat
| OSkipLast of nat
| OSkipWhile of pred
| OFirst
| OLast
| OElementAt of nat
| ODistinct
| OScan of fn2
| OReduce of fn2
| OCount
| OSum
| OSumAndCount
| OMin
| OMax
| OAll of pred
| OContains of val0
| ODefaultIfEmpty of val0
| OIgnore
| OStartWith of val0 list
| OBuffer of nat
| OWindow of nat
| OGroupBy of z
| OMaterialize
| ODematerialize
| OTap of nat
| OMapToAny
| OMerge
| OFlatMap of fmsel
| OConcat
| OZip
| OCombineLatest of combf
| OAmb
| OTakeUntil
| OSkipUntil
| OSample
| OSwitchOnNext
| OSequenceEqual
| ORetry of nat
| ORetryWhen of epred
| OResume
| OFwd

type pipe =
| PCold of nat
| PJust of val0
| PFromIter of val0 list
| PRange of z * z
| PEmpty
| PNever
| PError of err
| PRepeat of val0
| PDefer of pipe
| PStart of nat
| PFromResult of (val0, err) sum
| PHot of hid
| PInner of hid
| PConn of kid
| POp of opk * pipe * pipe list

type target =
| TUser of nat
| THandler of nid * nat * nat
| TForward of oid
| TFeed of hid
| TTapLog of nat
| TJunk

type teardown =
| TdFin of cid
| TdSubjRemove of hid * nat
| TdCell of xid

type observer = { o_n : bool; o_e : bool; o_c : bool; o_td : teardown option;
                  o_tgt : target }

(** val is_sub : observer -> bool **)

let is_sub o =
  (&&) ((&&) o.o_n o.o_e) o.o_c

(** val mk_obs : target -> observer **)

let mk_obs t =
  { o_n = true; o_e = true; o_c = true; o_td = None; o_tgt = t }

(** val dead_obs : observer **)

let dead_obs =
  { o_n = false; o_e = false; o_c = false; o_td = None; o_tgt = TJunk }

(** val set_slots : observer -> bool -> bool -> bool -> observer **)

let set_slots o n e c =
  { o_n = n; o_e = e; o_c = c; o_td = o.o_td; o_tgt = o.o_tgt }

(** val set_td : observer -> teardown option -> observer **)

let set_td o t =
  { o_n = o.o_n; o_e = o.o_e; o_c = o.o_c; o_td = t; o_tgt = o.o_tgt }

type ctrl = { c_sub : oid; c_uns : (nat * oid) list; c_serial : nat }

type ostate = { st_cnt : nat; st_flag : bool; st_acc : val0 option;
                st_buf : val0 list; st_qs : val0 list list; st_subj : 
                hid; st_groups : (z * hid) list; st_win : nat option;
                st_aux : oid }

(** val st0 : ostate **)

let st0 =
  { st_cnt = O; st_flag = false; st_acc = None; st_buf = []; st_qs = [];
    st_subj = O; st_groups = []; st_win = None; st_aux = O }

(** val st_set_cnt : ostate -> nat -> ostate **)

let st_set_cnt s v =
  { st_cnt = v; st_flag = s.st_flag; st_acc = s.st_acc; st_buf = s.st_buf;
    st_qs = s.st_qs; st_subj = s.st_subj; st_groups = s.st_groups; st_win =
    s.st_win; st_aux = s.st_aux }

(** val st_set_flag : ostate -> bool -> ostate **)

let st_set_flag s v =
  { st_cnt = s.st_cnt; st_flag = v; st_acc = s.st_acc; st_buf = s.st_buf;
    st_qs = s.st_qs; st_subj = s.st_subj; st_groups = s.st_groups; st_win =
    s.st_win; st_aux = s.st_aux }

(** val st_set_acc : ostate -> val0 option -> ostate **)

let st_set_acc s v =
  { st_cnt = s.st_cnt; st_flag = s.st_flag; st_acc = v; st_buf = s.st_buf;
    st_qs = s.st_qs; st_subj = s.st_subj; st_groups = s.st_groups; st_win =
    s.st_win; st_aux = s.st_aux }

(** val st_set_buf : ostate -> val0 list -> ostate **)

let st_set_buf s v =
  { st_cnt = s.st_cnt; st_flag = s.st_flag; st_acc = s.st_acc; st_buf = v;
    st_qs = s.st_qs; st_subj = s.st_subj; st_groups = s.st_groups; st_win =
    s.st_win; st_aux = s.st_aux }

(** val st_set_qs : ostate -> val0 list list -> ostate **)

let st_set_qs s v =
  { st_cnt = s.st_cnt; st_flag = s.st_flag; st_acc = s.st_acc; st_buf =
    s.st_buf; st_qs = v; st_subj = s.st_subj; st_groups = s.st_groups;
    st_win = s.st_win; st_aux = s.st_aux }

(** val st_set_subj : ostate -> hid -> ostate **)

let st_set_subj s v =
  { st_cnt = s.st_cnt; st_flag = s.st_flag; st_acc = s.st_acc; st_buf =
    s.st_buf; st_qs = s.st_qs; st_subj = v; st_groups = s.st_groups; st_win =
    s.st_win; st_aux = s.st_aux }

(** val st_set_groups : ostate -> (z * hid) list -> ostate **)

let st_set_groups s v =
  { st_cnt = s.st_cnt; st_flag = s.st_flag; st_acc = s.st_acc; st_buf =
    s.st_buf; st_qs = s.st_qs; st_subj = s.st_subj; st_groups = v; st_win =
    s.st_win; st_aux = s.st_aux }

(** val st_set_win : ostate -> nat option -> ostate **)

let st_set_win s v =
  { st_cnt = s.st_cnt; st_flag = s.st_flag; st_acc = s.st_acc; st_buf =
    s.st_buf; st_qs = s.st_qs; st_subj = s.st_subj; st_groups = s.st_groups;
    st_win = v; st_aux = s.st_aux }

(** val st_set_aux : ostate -> oid -> ostate **)

let st_set_aux s v =
  { st_cnt = s.st_cnt; st_flag = s.st_flag; st_acc = s.st_acc; st_buf =
    s.st_buf; st_qs = s.st_qs; st_subj = s.st_subj; st_groups = s.st_groups;
    st_win = s.st_win; st_aux = v }

type node = { n_op : opk; n_src : pipe; n_others : pipe list; n_st : 
              ostate; n_ctl : cid }

type skind =
| KSubject
| KBehavior
| KReplay
| KAsync

type subj = { sj_kind : skind; sj_obs : (nat * oid) list; sj_serial : 
              nat; sj_hook : kid option; sj_last : val0 option;
              sj_err : err option; sj_items : val0 list; sj_done : bool }

(** val mk_subj : skind -> val0 option -> subj **)

let mk_subj k init =
  { sj_kind = k; sj_obs = []; sj_serial = O; sj_hook = None; sj_last = init;
    sj_err = None; sj_items = []; sj_done = false }

(** val sj_set_obs : subj -> (nat * oid) list -> subj **)

let sj_set_obs s v =
  { sj_kind = s.sj_kind; sj_obs = v; sj_serial = s.sj_serial; sj_hook =
    s.sj_hook; sj_last = s.sj_last; sj_err = s.sj_err; sj_items = s.sj_items;
    sj_done = s.sj_done }

(** val sj_set_serial : subj -> nat -> subj **)

let sj_set_serial s v =
  { sj_kind = s.sj_kind; sj_obs = s.sj_obs; sj_serial = v; sj_hook =
    s.sj_hook; sj_last = s.sj_last; sj_err = s.sj_err; sj_items = s.sj_items;
    sj_done = s.sj_done }

(** val sj_set_hook : subj -> kid option -> subj **)

let sj_set_hook s v =
  { sj_kind = s.sj_kind; sj_obs = s.sj_obs; sj_serial = s.sj_serial;
    sj_hook = v; sj_last = s.sj_last; sj_err = s.sj_err; sj_items =
    s.sj_items; sj_done = s.sj_done }

(** val sj_set_last : subj -> val0 option -> subj **)

let sj_set_last s v =
  { sj_kind = s.sj_kind; sj_obs = s.sj_obs; sj_serial = s.sj_serial;
    sj_hook = s.sj_hook; sj_last = v; sj_err = s.sj_err; sj_items =
    s.sj_items; sj_done = s.sj_done }

(** val sj_set_err : subj -> err option -> subj **)

let sj_set_err s v =
  { sj_kind = s.sj_kind; sj_obs = s.sj_obs; sj_serial = s.sj_serial;
    sj_hook = s.sj_hook; sj_last = s.sj_last; sj_err = v; sj_items =
    s.sj_items; sj_done = s.sj_done }

(** val sj_set_items : subj -> val0 list -> subj **)

let sj_set_items s v =
  { sj_kind = s.sj_kind; sj_obs = s.sj_obs; sj_serial = s.sj_serial;
    sj_hook = s.sj_hook; sj_last = s.sj_last; sj_err = s.sj_err; sj_items =
    v; sj_done = s.sj_done }

(** val sj_set_done : subj -> bool -> subj **)

let sj_set_done s v =
  { sj_kind = s.sj_kind; sj_obs = s.sj_obs; sj_serial = s.sj_serial;
    sj_hook = s.sj_hook; sj_last = s.sj_last; sj_err = s.sj_err; sj_items =
    s.sj_items; sj_done = v }

type subscription = { sb_obs : oid; sb_live : bool }

type ckind =
| CPublish
| CRefCount
| CReplay

type conn = { k_kind : ckind; k_src : pipe; k_subj : hid; k_slot : sid option }

type lockid =
| LTd of oid
| LUns of cid
| LSt of nid
| LCell of xid
| LHookSub of hid
| LHookUnsub of hid
| LSlot of kid
| LHist of hid

type mode =
| MR
| MW

(** val lockid_eqb : lockid -> lockid -> bool **)

let lockid_eqb a b =
  match a with
  | LTd x -> (match b with
              | LTd y -> Nat.eqb x y
              | _ -> false)
  | LUns x -> (match b with
               | LUns y -> Nat.eqb x y
               | _ -> false)
  | LSt x -> (match b with
              | LSt y -> Nat.eqb x y
              | _ -> false)
  | LCell x -> (match b with
                | LCell y -> Nat.eqb x y
                | _ -> false)
  | LHookSub x -> (match b with
                   | LHookSub y -> Nat.eqb x y
                   | _ -> false)
  | LHookUnsub x -> (match b with
                     | LHookUnsub y -> Nat.eqb x y
                     | _ -> false)
  | LSlot x -> (match b with
                | LSlot y -> Nat.eqb x y
                | _ -> false)
  | LHist x -> (match b with
                | LHist y -> Nat.eqb x y
                | _ -> false)

type act =
| SinkNext of val0
| SinkError of err
| SinkComplete of nat
| SinkCompleteForce
| UpAbort of nat
| Finalize
| IfSub of act list * act list
| AFlush of val0 list
| AWith of mode * act list
| ASetFlag of bool
| ASubscribe of pipe * nat
| ASubjNew of skind
| ASubjCall of hid * ev
| ADeliver of oid * ev
| AZipDrain

type reaction =
| RUnsubSelf
| RUnsub of nat
| REmit of hid * ev
| RSub of nat * pipe

type action =
| DSub of nat * pipe * (nat * reaction) list
| DUnsub of nat
| DEmit of hid * ev
| DConnect of kid * nat
| DDisconnect of nat

type uid =
| UTop of nat
| UChild of nat

(** val uenc : uid -> nat **)

let uenc = function
| UTop k -> mul (S (S O)) k
| UChild j -> add (mul (S (S O)) j) (S O)

(** val udec : nat -> uid **)

let udec n =
  if Nat.even n then UTop (Nat.div2 n) else UChild (Nat.div2 n)

type dest =
| DNone
| DHandle of nat
| DCell of xid
| DSlot of kid
| DConn of nat

type req =
| Deliver of oid * ev
| Unsub of oid
| RunTd of oid
| ClearTd of oid
| Act of nid * act
| Fin of cid
| FinSub of cid
| UnsubEntry of cid * nat
| Src of nat * nat * oid * ev list * nat
| FromIter of oid * val0 list
| Range of oid * z * nat
| Repeat of oid * val0
| StartWith of oid * val0 list * pipe
| SubscribePipe of pipe * oid
| SubjCall of hid * ev
| Broadcast of hid * ev
| SubjJoin of hid * oid
| Replay of hid * oid
| SetTdCell of oid * xid
| HookSub of hid * nat
| HookUnsub of hid * nat
| Connect of kid
| SlotUnsub of kid
| MkSub of oid * dest
| SubUnsub of sid
| CellUnsub of xid
| AcqL of lockid * mode
| RelL of lockid * mode
| React of nat * nat
| DoSub of nat * pipe * (nat * reaction) list
| Snap
| Drv of action

type outcome =
| Running
| SelfDeadlock of lockid

type world = { obs : (oid -> observer); n_obs : nat; ctls : (cid -> ctrl);
               n_ctls : nat; nodes : (nid -> node); n_nodes : nat;
               subjs : (hid -> subj); n_subjs : nat;
               subs : (sid -> subscription); n_subs : nat;
               cells : (xid -> sid option); n_cells : nat;
               conns : (kid -> conn); scripts : (nat -> ev list list * bool);
               attempts : (nat -> nat); counters : (nat -> nat);
               handles : (nat -> (oid * sid option) option);
               chandles : (nat -> sid option);
               reacts : (nat -> (nat * reaction) list);
               ncalls : (nat -> nat); n_child : nat; n_handles : nat;
               n_hot : nat; log : ((nat * nat) * ev) list;
               taplog : (nat * ev) list;
               probes : (((((nat * nat) * nat) * bool) * nat) * nat) list;
               snaps : ((nat * bool list) * nat list) list;
               held : (lockid * mode) list; cur : nat; out : outcome }

(** val w_obs : (oid -> observer) -> world -> world **)

let w_obs v w =
  { obs = v; n_obs = w.n_obs; ctls = w.ctls; n_ctls = w.n_ctls; nodes =
    w.nodes; n_nodes = w.n_nodes; subjs = w.subjs; n_subjs = w.n_subjs;
    subs = w.subs; n_subs = w.n_subs; cells = w.cells; n_cells = w.n_cells;
    conns = w.conns; scripts = w.scripts; attempts = w.attempts; counters =
    w.counters; handles = w.handles; chandles = w.chandles; reacts =
    w.reacts; ncalls = w.ncalls; n_child = w.n_child; n_handles =
    w.n_handles; n_hot = w.n_hot; log = w.log; taplog = w.taplog; probes =
    w.probes; snaps = w.snaps; held = w.held; cur = w.cur; out = w.out }

(** val w_n_obs : nat -> world -> world **)

let w_n_obs v w =
  { obs = w.obs; n_obs = v; ctls = w.ctls; n_ctls = w.n_ctls; nodes =
    w.nodes; n_nodes = w.n_nodes; subjs = w.subjs; n_subjs = w.n_subjs;
    subs = w.subs; n_subs = w.n_subs; cells = w.cells; n_cells = w.n_cells;
    conns = w.conns; scripts = w.scripts; attempts = w.attempts; counters =
    w.counters; handles = w.handles; chandles = w.chandles; reacts =
    w.reacts; ncalls = w.ncalls; n_child = w.n_child; n_handles =
    w.n_handles; n_hot = w.n_hot; log = w.log; taplog = w.taplog; probes =
    w.probes; snaps = w.snaps; held = w.held; cur = w.cur; out = w.out }

(** val w_ctls : (cid -> ctrl) -> world -> world **)

let w_ctls v w =
  { obs = w.obs; n_obs = w.n_obs; ctls = v; n_ctls = w.n_ctls; nodes =
    w.nodes; n_nodes = w.n_nodes; subjs = w.subjs; n_subjs = w.n_subjs;
    subs = w.subs; n_subs = w.n_subs; cells = w.cells; n_cells = w.n_cells;
    conns = w.conns; scripts = w.scripts; attempts = w.attempts; counters =
    w.counters; handles = w.handles; chandles = w.chandles; reacts =
    w.reacts; ncalls = w.ncalls; n_child = w.n_child; n_handles =
    w.n_handles; n_hot = w.n_hot; log = w.log; taplog = w.taplog; probes =
    w.probes; snaps = w.snaps; held = w.held; cur = w.cur; out = w.out }

(** val w_n_ctls : nat -> world -> world **)

let w_n_ctls v w =
  { obs = w.obs; n_obs = w.n_obs; ctls = w.ctls; n_ctls = v; nodes = w.nodes;
    n_nodes = w.n_nodes; subjs = w.subjs; n_subjs = w.n_subjs; subs = w.subs;
    n_subs = w.n_subs; cells = w.cells; n_cells = w.n_cells; conns = w.conns;
    scripts = w.scripts; attempts = w.attempts; counters = w.counters;
    handles = w.handles; chandles = w.chandles; reacts = w.reacts; ncalls =
    w.ncalls; n_child = w.n_child; n_handles = w.n_handles; n_hot = w.n_hot;
    log = w.log; taplog = w.taplog; probes = w.probes; snaps = w.snaps;
    held = w.held; cur = w.cur; out = w.out }

(** val w_nodes : (nid -> node) -> world -> world **)

let w_nodes v w =
  { obs = w.obs; n_obs = w.n_obs; ctls = w.ctls; n_ctls = w.n_ctls; nodes =
    v; n_nodes = w.n_nodes; subjs = w.subjs; n_subjs = w.n_subjs; subs =
    w.subs; n_subs = w.n_subs; cells = w.cells; n_cells = w.n_cells; conns =
    w.conns; scripts = w.scripts; attempts = w.attempts; counters =
    w.counters; handles = w.handles; chandles = w.chandles; reacts =
    w.reacts; ncalls = w.ncalls; n_child = w.n_child; n_handles =
    w.n_handles; n_hot = w.n_hot; log = w.log; taplog = w.taplog; probes =
    w.probes; snaps = w.snaps; held = w.held; cur = w.cur; out = w.out }

(** val w_n_nodes : nat -> world -> world **)

let w_n_nodes v w =
  { obs = w.obs; n_obs = w.n_obs; ctls = w.ctls; n_ctls = w.n_ctls; nodes =
    w.nodes; n_nodes = v; subjs = w.subjs; n_subjs = w.n_subjs; subs =
    w.subs; n_subs = w.n_subs; cells = w.cells; n_cells = w.n_cells; conns =
    w.conns; scripts = w.scripts; attempts = w.attempts; counters =
    w.counters; handles = w.handles; chandles = w.chandles; reacts =
    w.reacts; ncalls = w.ncalls; n_child = w.n_child; n_handles =
    w.n_handles; n_hot = w.n_hot; log = w.log; taplog = w.taplog; probes =
    w.probes; snaps = w.snaps; held = w.held; cur = w.cur; out = w.out }

(** val w_subjs : (hid -> subj) -> world -> world **)

let w_subjs v w =
  { obs = w.obs; n_obs = w.n_obs; ctls = w.ctls; n_ctls = w.n_ctls; nodes =
    w.nodes; n_nodes = w.n_nodes; subjs = v; n_subjs = w.n_subjs; subs =
    w.subs; n_subs = w.n_subs; cells = w.cells; n_cells = w.n_cells; conns =
    w.conns; scripts = w.scripts; attempts = w.attempts; counters =
    w.counters; handles = w.handles; chandles = w.chandles; reacts =
    w.reacts; ncalls = w.ncalls; n_child = w.n_child; n_handles =
    w.n_handles; n_hot = w.n_hot; log = w.log; taplog = w.taplog; probes =
    w.probes; snaps = w.snaps; held = w.held; cur = w.cur; out = w.out }

(** val w_n_subjs : nat -> world -> world **)

let w_n_subjs v w =
  { obs = w.obs; n_obs = w.n_obs; ctls = w.ctls; n_ctls = w.n_ctls; nodes =
    w.nodes; n_nodes = w.n_nodes; subjs = w.subjs; n_subjs = v; subs =
    w.subs; n_subs = w.n_subs; cells = w.cells; n_cells = w.n_cells; conns =
    w.conns; scripts = w.scripts; attempts = w.attempts; counters =
    w.counters; handles = w.handles; chandles = w.chandles; reacts =
    w.reacts; ncalls = w.ncalls; n_child = w.n_child; n_handles =
    w.n_handles; n_hot = w.n_hot; log = w.log; taplog = w.taplog; probes =
    w.probes; snaps = w.snaps; held = w.held; cur = w.cur; out = w.out }

(** val w_subs : (sid -> subscription) -> world -> world **)

let w_subs v w =
  { obs = w.obs; n_obs = w.n_obs; ctls = w.ctls; n_ctls = w.n_ctls; nodes =
    w.nodes; n_nodes = w.n_nodes; subjs = w.subjs; n_subjs = w.n_subjs;
    subs = v; n_subs = w.n_subs; cells = w.cells; n_cells = w.n_cells;
    conns = w.conns; scripts = w.scripts; attempts = w.attempts; counters =
    w.counters; handles = w.handles; chandles = w.chandles; reacts =
    w.reacts; ncalls = w.ncalls; n_child = w.n_child; n_handles =
    w.n_handles; n_hot = w.n_hot; log = w.log; taplog = w.taplog; probes =
    w.probes; snaps = w.snaps; held = w.held; cur = w.cur; out = w.out }

(** val w_n_subs : nat -> world -> world **)

let w_n_subs v w =
  { obs = w.obs; n_obs = w.n_obs; ctls = w.ctls; n_ctls = w.n_ctls; nodes =
    w.nodes; n_nodes = w.n_nodes; subjs = w.subjs; n_subjs = w.n_subjs;
    subs = w.subs; n_subs = v; cells = w.cells; n_cells = w.n_cells; conns =
    w.conns; scripts = w.scripts; attempts = w.attempts; counters =
    w.counters; handles = w.handles; chandles = w.chandles; reacts =
    w.reacts; ncalls = w.ncalls; n_child = w.n_child; n_handles =
    w.n_handles; n_hot = w.n_hot; log = w.log; taplog = w.taplog; probes =
    w.probes; snaps = w.snaps; held = w.held; cur = w.cur; out = w.out }

(** val w_cells : (xid -> sid option) -> world -> world **)

let w_cells v w =
  { obs = w.obs; n_obs = w.n_obs; ctls = w.ctls; n_ctls = w.n_ctls; nodes =
    w.nodes; n_nodes = w.n_nodes; subjs = w.subjs; n_subjs = w.n_subjs;
    subs = w.subs; n_subs = w.n_subs; cells = v; n_cells = w.n_cells; conns =
    w.conns; scripts = w.scripts; attempts = w.attempts; counters =
    w.counters; handles = w.handles; chandles = w.chandles; reacts =
    w.reacts; ncalls = w.ncalls; n_child = w.n_child; n_handles =
    w.n_handles; n_hot = w.n_hot; log = w.log; taplog = w.taplog; probes =
    w.probes; snaps = w.snaps; held = w.held; cur = w.cur; out = w.out }

(** val w_n_cells : nat -> world -> world **)

let w_n_cells v w =
  { obs = w.obs; n_obs = w.n_obs; ctls = w.ctls; n_ctls = w.n_ctls; nodes =
    w.nodes; n_nodes = w.n_nodes; subjs = w.subjs; n_subjs = w.n_subjs;
    subs = w.subs; n_subs = w.n_subs; cells = w.cells; n_cells = v; conns =
    w.conns; scripts = w.scripts; attempts = w.attempts; counters =
    w.counters; handles = w.handles; chandles = w.chandles; reacts =
    w.reacts; ncalls = w.ncalls; n_child = w.n_child; n_handles =
    w.n_handles; n_hot = w.n_hot; log = w.log; taplog = w.taplog; probes =
    w.probes; snaps = w.snaps; held = w.held; cur = w.cur; out = w.out }

(** val w_conns : (kid -> conn) -> world -> world **)

let w_conns v w =
  { obs = w.obs; n_obs = w.n_obs; ctls = w.ctls; n_ctls = w.n_ctls; nodes =
    w.nodes; n_nodes = w.n_nodes; subjs = w.subjs; n_subjs = w.n_subjs;
    subs = w.subs; n_subs = w.n_subs; cells = w.cells; n_cells = w.n_cells;
    conns = v; scripts = w.scripts; attempts = w.attempts; counters =
    w.counters; handles = w.handles; chandles = w.chandles; reacts =
    w.reacts; ncalls = w.ncalls; n_child = w.n_child; n_handles =
    w.n_handles; n_hot = w.n_hot; log = w.log; taplog = w.taplog; probes =
    w.probes; snaps = w.snaps; held = w.held; cur = w.cur; out = w.out }

(** val w_attempts : (nat -> nat) -> world -> world **)

let w_attempts v w =
  { obs = w.obs; n_obs = w.n_obs; ctls = w.ctls; n_ctls = w.n_ctls; nodes =
    w.nodes; n_nodes = w.n_nodes; subjs = w.subjs; n_subjs = w.n_subjs;
    subs = w.subs; n_subs = w.n_subs; cells = w.cells; n_cells = w.n_cells;
    conns = w.conns; scripts = w.scripts; attempts = v; counters =
    w.counters; handles = w.handles; chandles = w.chandles; reacts =
    w.reacts; ncalls = w.ncalls; n_child = w.n_child; n_handles =
    w.n_handles; n_hot = w.n_hot; log = w.log; taplog = w.taplog; probes =
    w.probes; snaps = w.snaps; held = w.held; cur = w.cur; out = w.out }

(** val w_counters : (nat -> nat) -> world -> world **)

let w_counters v w =
  { obs = w.obs; n_obs = w.n_obs; ctls = w.ctls; n_ctls = w.n_ctls; nodes =
    w.nodes; n_nodes = w.n_nodes; subjs = w.subjs; n_subjs = w.n_subjs;
    subs = w.subs; n_subs = w.n_subs; cells = w.cells; n_cells = w.n_cells;
    conns = w.conns; scripts = w.scripts; attempts = w.attempts; counters =
    v; handles = w.handles; chandles = w.chandles; reacts = w.reacts;
    ncalls = w.ncalls; n_child = w.n_child; n_handles = w.n_handles; n_hot =
    w.n_hot; log = w.log; taplog = w.taplog; probes = w.probes; snaps =
    w.snaps; held = w.held; cur = w.cur; out = w.out }

(** val w_handles : (nat -> (oid * sid option) option) -> world -> world **)

let w_handles v w =
  { obs = w.obs; n_obs = w.n_obs; ctls = w.ctls; n_ctls = w.n_ctls; nodes =
    w.nodes; n_nodes = w.n_nodes; subjs = w.subjs; n_subjs = w.n_subjs;
    subs = w.subs; n_subs = w.n_subs; cells = w.cells; n_cells = w.n_cells;
    conns = w.conns; scripts = w.scripts; attempts = w.attempts; counters =
    w.counters; handles = v; chandles = w.chandles; reacts = w.reacts;
    ncalls = w.ncalls; n_child = w.n_child; n_handles = w.n_handles; n_hot =
    w.n_hot; log = w.log; taplog = w.taplog; probes = w.probes; snaps =
    w.snaps; held = w.held; cur = w.cur; out = w.out }

(** val w_chandles : (nat -> sid option) -> world -> world **)

let w_chandles v w =
  { obs = w.obs; n_obs = w.n_obs; ctls = w.ctls; n_ctls = w.n_ctls; nodes =
    w.nodes; n_nodes = w.n_nodes; subjs = w.subjs; n_subjs = w.n_subjs;
    subs = w.subs; n_subs = w.n_subs; cells = w.cells; n_cells = w.n_cells;
    conns = w.conns; scripts = w.scripts; attempts = w.attempts; counters =
    w.counters; handles = w.handles; chandles = v; reacts = w.reacts;
    ncalls = w.ncalls; n_child = w.n_child; n_handles = w.n_handles; n_hot =
    w.n_hot; log = w.log; taplog = w.taplog; probes = w.probes; snaps =
    w.snaps; held = w.held; cur = w.cur; out = w.out }

(** val w_reacts : (nat -> (nat * reaction) list) -> world -> world **)

let w_reacts v w =
  { obs = w.obs; n_obs = w.n_obs; ctls = w.ctls; n_ctls = w.n_ctls; nodes =
    w.nodes; n_nodes = w.n_nodes; subjs = w.subjs; n_subjs = w.n_subjs;
    subs = w.subs; n_subs = w.n_subs; cells = w.cells; n_cells = w.n_cells;
    conns = w.conns; scripts = w.scripts; attempts = w.attempts; counters =
    w.counters; handles = w.handles; chandles = w.chandles; reacts = v;
    ncalls = w.ncalls; n_child = w.n_child; n_handles = w.n_handles; n_hot =
    w.n_hot; log = w.log; taplog = w.taplog; probes = w.probes; snaps =
    w.snaps; held = w.held; cur = w.cur; out = w.out }

(** val w_ncalls : (nat -> nat) -> world -> world **)

let w_ncalls v w =
  { obs = w.obs; n_obs = w.n_obs; ctls = w.ctls; n_ctls = w.n_ctls; nodes =
    w.nodes; n_nodes = w.n_nodes; subjs = w.subjs; n_subjs = w.n_subjs;
    subs = w.subs; n_subs = w.n_subs; cells = w.cells; n_cells = w.n_cells;
    conns = w.conns; scripts = w.scripts; attempts = w.attempts; counters =
    w.counters; handles = w.handles; chandles = w.chandles; reacts =
    w.reacts; ncalls = v; n_child = w.n_child; n_handles = w.n_handles;
    n_hot = w.n_hot; log = w.log; taplog = w.taplog; probes = w.probes;
    snaps = w.snaps; held = w.held; cur = w.cur; out = w.out }

(** val w_n_child : nat -> world -> world **)

let w_n_child v w =
  { obs = w.obs; n_obs = w.n_obs; ctls = w.ctls; n_ctls = w.n_ctls; nodes =
    w.nodes; n_nodes = w.n_nodes; subjs = w.subjs; n_subjs = w.n_subjs;
    subs = w.subs; n_subs = w.n_subs; cells = w.cells; n_cells = w.n_cells;
    conns = w.conns; scripts = w.scripts; attempts = w.attempts; counters =
    w.counters; handles = w.handles; chandles = w.chandles; reacts =
    w.reacts; ncalls = w.ncalls; n_child = v; n_handles = w.n_handles;
    n_hot = w.n_hot; log = w.log; taplog = w.taplog; probes = w.probes;
    snaps = w.snaps; held = w.held; cur = w.cur; out = w.out }

(** val w_log : ((nat * nat) * ev) list -> world -> world **)

let w_log v w =
  { obs = w.obs; n_obs = w.n_obs; ctls = w.ctls; n_ctls = w.n_ctls; nodes =
    w.nodes; n_nodes = w.n_nodes; subjs = w.subjs; n_subjs = w.n_subjs;
    subs = w.subs; n_subs = w.n_subs; cells = w.cells; n_cells = w.n_cells;
    conns = w.conns; scripts = w.scripts; attempts = w.attempts; counters =
    w.counters; handles = w.handles; chandles = w.chandles; reacts =
    w.reacts; ncalls = w.ncalls; n_child = w.n_child; n_handles =
    w.n_handles; n_hot = w.n_hot; log = v; taplog = w.taplog; probes =
    w.probes; snaps = w.snaps; held = w.held; cur = w.cur; out = w.out }

(** val w_taplog : (nat * ev) list -> world -> world **)

let w_taplog v w =
  { obs = w.obs; n_obs = w.n_obs; ctls = w.ctls; n_ctls = w.n_ctls; nodes =
    w.nodes; n_nodes = w.n_nodes; subjs = w.subjs; n_subjs = w.n_subjs;
    subs = w.subs; n_subs = w.n_subs; cells = w.cells; n_cells = w.n_cells;
    conns = w.conns; scripts = w.scripts; attempts = w.attempts; counters =
    w.counters; handles = w.handles; chandles = w.chandles; reacts =
    w.reacts; ncalls = w.ncalls; n_child = w.n_child; n_handles =
    w.n_handles; n_hot = w.n_hot; log = w.log; taplog = v; probes = w.probes;
    snaps = w.snaps; held = w.held; cur = w.cur; out = w.out }

(** val w_probes :
    (((((nat * nat) * nat) * bool) * nat) * nat) list -> world -> world **)

let w_probes v w =
  { obs = w.obs; n_obs = w.n_obs; ctls = w.ctls; n_ctls = w.n_ctls; nodes =
    w.nodes; n_nodes = w.n_nodes; subjs = w.subjs; n_subjs = w.n_subjs;
    subs = w.subs; n_subs = w.n_subs; cells = w.cells; n_cells = w.n_cells;
    conns = w.conns; scripts = w.scripts; attempts = w.attempts; counters =
    w.counters; handles = w.handles; chandles = w.chandles; reacts =
    w.reacts; ncalls = w.ncalls; n_child = w.n_child; n_handles =
    w.n_handles; n_hot = w.n_hot; log = w.log; taplog = w.taplog; probes = v;
    snaps = w.snaps; held = w.held; cur = w.cur; out = w.out }

(** val w_snaps : ((nat * bool list) * nat list) list -> world -> world **)

let w_snaps v w =
  { obs = w.obs; n_obs = w.n_obs; ctls = w.ctls; n_ctls = w.n_ctls; nodes =
    w.nodes; n_nodes = w.n_nodes; subjs = w.subjs; n_subjs = w.n_subjs;
    subs = w.subs; n_subs = w.n_subs; cells = w.cells; n_cells = w.n_cells;
    conns = w.conns; scripts = w.scripts; attempts = w.attempts; counters =
    w.counters; handles = w.handles; chandles = w.chandles; reacts =
    w.reacts; ncalls = w.ncalls; n_child = w.n_child; n_handles =
    w.n_handles; n_hot = w.n_hot; log = w.log; taplog = w.taplog; probes =
    w.probes; snaps = v; held = w.held; cur = w.cur; out = w.out }

(** val w_held : (lockid * mode) list -> world -> world **)

let w_held v w =
  { obs = w.obs; n_obs = w.n_obs; ctls = w.ctls; n_ctls = w.n_ctls; nodes =
    w.nodes; n_nodes = w.n_nodes; subjs = w.subjs; n_subjs = w.n_subjs;
    subs = w.subs; n_subs = w.n_subs; cells = w.cells; n_cells = w.n_cells;
    conns = w.conns; scripts = w.scripts; attempts = w.attempts; counters =
    w.counters; handles = w.handles; chandles = w.chandles; reacts =
    w.reacts; ncalls = w.ncalls; n_child = w.n_child; n_handles =
    w.n_handles; n_hot = w.n_hot; log = w.log; taplog = w.taplog; probes =
    w.probes; snaps = w.snaps; held = v; cur = w.cur; out = w.out }

(** val w_cur : nat -> world -> world **)

let w_cur v w =
  { obs = w.obs; n_obs = w.n_obs; ctls = w.ctls; n_ctls = w.n_ctls; nodes =
    w.nodes; n_nodes = w.n_nodes; subjs = w.subjs; n_subjs = w.n_subjs;
    subs = w.subs; n_subs = w.n_subs; cells = w.cells; n_cells = w.n_cells;
    conns = w.conns; scripts = w.scripts; attempts = w.attempts; counters =
    w.counters; handles = w.handles; chandles = w.chandles; reacts =
    w.reacts; ncalls = w.ncalls; n_child = w.n_child; n_handles =
    w.n_handles; n_hot = w.n_hot; log = w.log; taplog = w.taplog; probes =
    w.probes; snaps = w.snaps; held = w.held; cur = v; out = w.out }

(** val w_out : outcome -> world -> world **)

let w_out v w =
  { obs = w.obs; n_obs = w.n_obs; ctls = w.ctls; n_ctls = w.n_ctls; nodes =
    w.nodes; n_nodes = w.n_nodes; subjs = w.subjs; n_subjs = w.n_subjs;
    subs = w.subs; n_subs = w.n_subs; cells = w.cells; n_cells = w.n_cells;
    conns = w.conns; scripts = w.scripts; attempts = w.attempts; counters =
    w.counters; handles = w.handles; chandles = w.chandles; reacts =
    w.reacts; ncalls = w.ncalls; n_child = w.n_child; n_handles =
    w.n_handles; n_hot = w.n_hot; log = w.log; taplog = w.taplog; probes =
    w.probes; snaps = w.snaps; held = w.held; cur = w.cur; out = v }

(** val set_obs : world -> oid -> observer -> world **)

let set_obs w o v =
  w_obs (upd w.obs o v) w

(** val set_ctl : world -> cid -> ctrl -> world **)

let set_ctl w c v =
  w_ctls (upd w.ctls c v) w

(** val set_node : world -> nid -> node -> world **)

let set_node w n v =
  w_nodes (upd w.nodes n v) w

(** val set_subj : world -> hid -> subj -> world **)

let set_subj w h v =
  w_subjs (upd w.subjs h v) w

(** val set_nst : world -> nid -> ostate -> world **)

let set_nst w n s =
  let nd = w.nodes n in
  set_node w n { n_op = nd.n_op; n_src = nd.n_src; n_others = nd.n_others;
    n_st = s; n_ctl = nd.n_ctl }

(** val add_log : world -> nat -> ev -> world **)

let add_log w u e =
  w_log (app w.log (((u, w.cur), e) :: [])) w

(** val alloc_obs : world -> target -> oid * world **)

let alloc_obs w t =
  (w.n_obs, (w_n_obs (S w.n_obs) (set_obs w w.n_obs (mk_obs t))))

(** val alloc_subj : world -> skind -> val0 option -> hid * world **)

let alloc_subj w k init =
  (w.n_subjs,
    (w_n_subjs (S w.n_subjs) (set_subj w w.n_subjs (mk_subj k init))))

(** val alloc_cell : world -> xid * world **)

let alloc_cell w =
  (w.n_cells,
    (w_n_cells (S w.n_cells) (w_cells (upd w.cells w.n_cells None) w)))

(** val remove_ser : nat -> (nat * oid) list -> (nat * oid) list **)

let rec remove_ser s = function
| [] -> []
| p :: r ->
  let (k, o) = p in
  if Nat.eqb k s then remove_ser s r else (k, o) :: (remove_ser s r)

(** val find_ser : nat -> (nat * oid) list -> oid option **)

let rec find_ser s = function
| [] -> None
| p :: r -> let (k, o) = p in if Nat.eqb k s then Some o else find_ser s r

(** val find_key : z -> (z * hid) list -> hid option **)

let rec find_key k = function
| [] -> None
| p :: r -> let (x, h) = p in if Z.eqb x k then Some h else find_key k r

(** val push_last_n : nat -> val0 list -> val0 -> val0 list **)

let push_last_n n l x =
  let l' = app l (x :: []) in if Nat.ltb n (length l') then tl l' else l'

(** val upd_nth : nat -> ('a1 -> 'a1) -> 'a1 list -> 'a1 list **)

let rec upd_nth i f = function
| [] -> []
| x :: r -> (match i with
             | O -> (f x) :: r
             | S j -> x :: (upd_nth j f r))

(** val all_nonempty : val0 list list -> bool **)

let all_nonempty qs =
  forallb (fun q -> negb (Nat.eqb (length q) O)) qs

(** val heads : val0 list list -> val0 list **)

let heads qs =
  flat_map (fun q -> match q with
                     | [] -> []
                     | x :: _ -> x :: []) qs

(** val tails : val0 list list -> val0 list list **)

let tails qs =
  map tl qs

(** val all_eq_head : val0 list -> bool **)

let all_eq_head = function
| [] -> true
| x :: r -> forallb (val_eqb x) r

(** val dflt_err : err -> act list **)

let dflt_err e =
  (SinkError e) :: []

(** val dflt_comp : nat -> act list **)

let dflt_comp ser =
  (SinkComplete ser) :: []

(** val fwd : ostate -> nat -> ev -> ostate * act list **)

let fwd st ser e =
  (st,
    (match e with
     | Nx v -> (SinkNext v) :: []
     | Er x -> dflt_err x
     | Co -> dflt_comp ser))

(** val fold_acc : (val0 -> val0 -> val0) -> ostate -> val0 -> ostate **)

let fold_acc f st x =
  st_set_acc st (Some (match st.st_acc with
                       | Some a -> f a x
                       | None -> x))

(** val emit_acc_then_complete : ostate -> nat -> act list **)

let emit_acc_then_complete st ser =
  app (match st.st_acc with
       | Some a -> (SinkNext a) :: []
       | None -> []) ((SinkComplete ser) :: [])

(** val fm_pipe : fmsel -> pipe list -> val0 -> pipe **)

let fm_pipe f others x =
  match f with
  | SelJust -> PJust x
  | SelPair k -> PFromIter (x :: ((VInt (Z.add (as_int x) k)) :: []))
  | SelMod ->
    nth
      (Z.to_nat
        (Z.modulo (as_int x) (Z.of_nat (Nat.max (S O) (length others)))))
      others PEmpty

(** val resume_pipe : pipe list -> err -> pipe **)

let resume_pipe others e =
  nth (Nat.modulo e (Nat.max (S O) (length others))) others PEmpty

(** val handler :
    opk -> pipe -> pipe list -> ostate -> nat -> nat -> hid -> ev ->
    ostate * act list **)

let handler op src others st port ser fresh e =
  match op with
  | OMap f ->
    (match e with
     | Nx x -> (st, ((SinkNext (app1 f x)) :: []))
     | _ -> fwd st ser e)
  | OFilter p ->
    (match e with
     | Nx x -> (st, (if appp p x then (SinkNext x) :: [] else []))
     | _ -> fwd st ser e)
  | OTake n ->
    (match e with
     | Nx x ->
       let c = st.st_cnt in
       ((st_set_cnt st (S c)),
       (app (if Nat.ltb c n then (SinkNext x) :: [] else [])
         (if Nat.leb n (S c)
          then (UpAbort ser) :: ((SinkComplete ser) :: (Finalize :: []))
          else [])))
     | _ -> fwd st ser e)
  | OTakeWhile p ->
    (match e with
     | Nx x ->
       (st,
         (if appp p x
          then (SinkNext x) :: []
          else (UpAbort ser) :: ((SinkComplete ser) :: [])))
     | _ -> fwd st ser e)
  | OTakeLast n ->
    (match e with
     | Nx x -> ((st_set_buf st (push_last_n n st.st_buf x)), [])
     | Er x -> (st, (dflt_err x))
     | Co ->
       (st, ((AWith (MR, ((AFlush st.st_buf) :: []))) :: ((SinkComplete
         ser) :: []))))
  | OSkip n ->
    (match e with
     | Nx x ->
       let c = st.st_cnt in
       ((st_set_cnt st (S c)),
       (if Nat.leb n c then (SinkNext x) :: [] else []))
     | _ -> fwd st ser e)
  | OSkipLast n ->
    (match e with
     | Nx x ->
       let l = app st.st_buf (x :: []) in
       if Nat.ltb n (length l)
       then ((st_set_buf st (tl l)),
              (match l with
               | [] -> []
               | y :: _ -> (SinkNext y) :: []))
       else ((st_set_buf st l), [])
     | _ -> fwd st ser e)
  | OSkipWhile p ->
    (match e with
     | Nx x ->
       if st.st_flag
       then (st, ((SinkNext x) :: []))
       else if appp p x
            then (st, [])
            else (st, ((SinkNext x) :: ((ASetFlag true) :: [])))
     | _ -> fwd st ser e)
  | ODistinct ->
    (match e with
     | Nx x ->
       (match st.st_acc with
        | Some l ->
          if val_eqb l x
          then (st, [])
          else ((st_set_acc st (Some x)), ((SinkNext x) :: []))
        | None -> ((st_set_acc st (Some x)), ((SinkNext x) :: [])))
     | _ -> fwd st ser e)
  | OScan f ->
    (match e with
     | Nx x ->
       let st' = fold_acc (app2 f) st x in
       (st',
       (match st'.st_acc with
        | Some a -> (SinkNext a) :: []
        | None -> []))
     | _ -> fwd st ser e)
  | OReduce f ->
    (match e with
     | Nx x -> ((fold_acc (app2 f) st x), [])
     | Er x -> (st, (dflt_err x))
     | Co -> (st, (emit_acc_then_complete st ser)))
  | OCount ->
    (match e with
     | Nx _ -> ((st_set_cnt st (S st.st_cnt)), [])
     | Er x -> (st, (dflt_err x))
     | Co ->
       (st, ((SinkNext (VInt (Z.of_nat st.st_cnt))) :: ((SinkComplete
         ser) :: []))))
  | OSum ->
    (match e with
     | Nx x -> ((fold_acc val_add st x), [])
     | Er x -> (st, (dflt_err x))
     | Co -> (st, (emit_acc_then_complete st ser)))
  | OSumAndCount ->
    (match e with
     | Nx x -> ((st_set_cnt (fold_acc val_add st x) (S st.st_cnt)), [])
     | Er x -> (st, (dflt_err x))
     | Co ->
       (st,
         (app
           (match st.st_acc with
            | Some a ->
              (SinkNext (VList (a :: ((VInt
                (Z.of_nat st.st_cnt)) :: [])))) :: []
            | None -> []) ((SinkComplete ser) :: []))))
  | OMin ->
    (match e with
     | Nx x ->
       ((fold_acc (fun a x0 -> if val_ltb x0 a then x0 else a) st x), [])
     | Er x -> (st, (dflt_err x))
     | Co -> (st, (emit_acc_then_complete st ser)))
  | OMax ->
    (match e with
     | Nx x ->
       ((fold_acc (fun a x0 -> if val_ltb a x0 then x0 else a) st x), [])
     | Er x -> (st, (dflt_err x))
     | Co -> (st, (emit_acc_then_complete st ser)))
  | OAll _ ->
    (match e with
     | Nx _ ->
       (st, ((UpAbort ser) :: ((SinkNext (VBool false)) :: ((SinkComplete
         ser) :: []))))
     | Er x -> (st, (dflt_err x))
     | Co -> (st, ((SinkNext (VBool true)) :: ((SinkComplete ser) :: []))))
  | OContains t ->
    (match e with
     | Nx x ->
       (st,
         (if val_eqb x t
          then (SinkNext (VBool true)) :: ((UpAbort ser) :: ((SinkComplete
                 ser) :: []))
          else []))
     | _ -> (st, ((SinkNext (VBool false)) :: ((SinkComplete ser) :: []))))
  | ODefaultIfEmpty d ->
    (match e with
     | Nx x -> ((st_set_flag st true), ((SinkNext x) :: []))
     | Er x -> (st, (dflt_err x))
     | Co ->
       (st,
         (app (if st.st_flag then [] else (SinkNext d) :: []) ((SinkComplete
           ser) :: []))))
  | OIgnore -> (match e with
                | Nx _ -> (st, [])
                | _ -> fwd st ser e)
  | OBuffer n ->
    (match e with
     | Nx x ->
       let l = app st.st_buf (x :: []) in
       if Nat.eqb (length l) n
       then ((st_set_buf st []), ((SinkNext (VList l)) :: []))
       else ((st_set_buf st l), [])
     | Er x -> (st, (dflt_err x))
     | Co ->
       (st,
         (app
           (match st.st_buf with
            | [] -> []
            | v :: l0 -> (SinkNext (VList (v :: l0))) :: []) ((SinkComplete
           ser) :: []))))
  | OWindow n ->
    (match e with
     | Nx x ->
       let c = st.st_cnt in
       let full = Nat.eqb (S c) n in
       ((st_set_cnt st (if full then O else S c)), ((AWith (MW,
       (app (if Nat.eqb c O then (SinkNext (VObs st.st_subj)) :: [] else [])
         (app ((ASubjCall (st.st_subj, (Nx x))) :: [])
           (if full
            then (ASubjCall (st.st_subj, Co)) :: ((ASubjNew KSubject) :: [])
            else []))))) :: []))
     | Er x ->
       (st, ((ASubjCall (st.st_subj, (Er x))) :: ((SinkError x) :: [])))
     | Co ->
       (st, ((ASubjCall (st.st_subj, Co)) :: ((SinkComplete ser) :: []))))
  | OGroupBy k ->
    (match e with
     | Nx x ->
       let key = key_of k x in
       (match find_key key st.st_groups with
        | Some h -> (st, ((ASubjCall (h, (Nx x))) :: []))
        | None ->
          ((st_set_groups st (app st.st_groups ((key, fresh) :: []))),
            ((ASubjNew KSubject) :: ((AWith (MW, ((SinkNext (VObs
            fresh)) :: []))) :: ((ASubjCall (fresh, (Nx x))) :: [])))))
     | Er x ->
       (st,
         (app (map (fun g -> ASubjCall ((snd g), (Er x))) st.st_groups)
           ((SinkError x) :: [])))
     | Co ->
       (st,
         (app (map (fun g -> ASubjCall ((snd g), Co)) st.st_groups)
           ((SinkComplete ser) :: []))))
  | OMaterialize ->
    (match e with
     | Nx x -> (st, ((SinkNext (VMatN x)) :: []))
     | Er x -> (st, ((SinkNext (VMatE x)) :: ((SinkComplete ser) :: [])))
     | Co -> (st, ((SinkNext VMatC) :: ((SinkComplete ser) :: []))))
  | ODematerialize ->
    (match e with
     | Nx v ->
       (match v with
        | VMatN x -> (st, ((SinkNext x) :: []))
        | VMatE x -> (st, ((SinkError x) :: []))
        | VMatC -> (st, ((UpAbort ser) :: ((SinkComplete ser) :: [])))
        | _ -> fwd st ser e)
     | _ -> fwd st ser e)
  | OTap _ ->
    (match e with
     | Nx x -> (st, ((ADeliver (st.st_aux, (Nx x))) :: ((SinkNext x) :: [])))
     | Er x -> (st, ((ADeliver (st.st_aux, (Er x))) :: ((SinkError x) :: [])))
     | Co -> (st, ((ADeliver (st.st_aux, Co)) :: ((SinkComplete ser) :: []))))
  | OFlatMap f ->
    (match port with
     | O ->
       (match e with
        | Nx x -> (st, ((ASubscribe ((fm_pipe f others x), (S O))) :: []))
        | _ -> fwd st ser e)
     | S _ -> fwd st ser e)
  | OConcat ->
    (match e with
     | Nx x -> (st, ((SinkNext x) :: []))
     | Er x -> (st, (dflt_err x))
     | Co ->
       let i = st.st_cnt in
       if Nat.leb (length others) i
       then (st, (SinkCompleteForce :: []))
       else ((st_set_cnt st (S i)), ((ASubscribe ((nth i others PEmpty),
              O)) :: [])))
  | OZip ->
    (match e with
     | Nx x ->
       ((st_set_qs st (upd_nth port (fun q -> app q (x :: [])) st.st_qs)),
         (AZipDrain :: []))
     | _ -> fwd st ser e)
  | OCombineLatest f ->
    (match e with
     | Nx v ->
       (match v with
        | VList l -> (st, ((SinkNext (appc f l)) :: []))
        | _ -> (st, []))
     | _ -> fwd st ser e)
  | OAmb ->
    (match st.st_win with
     | Some w ->
       let win = Nat.eqb ser w in
       (st,
       (if win
        then (match e with
              | Nx x -> (SinkNext x) :: []
              | Er x -> (SinkError x) :: []
              | Co -> SinkCompleteForce :: [])
        else (UpAbort ser) :: []))
     | None ->
       let win = true in
       let st' = st_set_win st (Some ser) in
       (st',
       (if win
        then (match e with
              | Nx x -> (SinkNext x) :: []
              | Er x -> (SinkError x) :: []
              | Co -> SinkCompleteForce :: [])
        else (UpAbort ser) :: [])))
  | OTakeUntil ->
    (match port with
     | O ->
       (match e with
        | Nx _ -> (st, (SinkCompleteForce :: []))
        | _ -> (st, []))
     | S _ ->
       (match e with
        | Nx x -> (st, ((SinkNext x) :: []))
        | Er x -> (st, (dflt_err x))
        | Co -> (st, (SinkCompleteForce :: []))))
  | OSkipUntil ->
    (match port with
     | O ->
       (match e with
        | Nx _ -> ((st_set_flag st true), ((UpAbort ser) :: []))
        | _ -> (st, []))
     | S _ ->
       (match e with
        | Nx x -> (st, (if st.st_flag then (SinkNext x) :: [] else []))
        | Er x -> (st, (dflt_err x))
        | Co -> (st, (SinkCompleteForce :: []))))
  | OSample ->
    (match port with
     | O ->
       (match e with
        | Nx _ ->
          ((st_set_acc st None),
            (match st.st_acc with
             | Some v -> (SinkNext v) :: []
             | None -> []))
        | _ -> (st, []))
     | S _ ->
       (match e with
        | Nx x -> ((st_set_acc st (Some x)), [])
        | Er x -> (st, (dflt_err x))
        | Co -> (st, (SinkCompleteForce :: []))))
  | OSwitchOnNext ->
    (match port with
     | O ->
       (match e with
        | Nx x ->
          (st,
            (if st.st_flag then (UpAbort ser) :: [] else (SinkNext x) :: []))
        | _ -> fwd st ser e)
     | S _ ->
       (match e with
        | Nx x -> ((st_set_flag st true), ((SinkNext x) :: []))
        | Er x -> (st, (dflt_err x))
        | Co -> (st, (SinkCompleteForce :: []))))
  | OSequenceEqual ->
    (match e with
     | Nx v ->
       (match v with
        | VList l ->
          (st,
            (if all_eq_head l
             then []
             else (UpAbort ser) :: ((SinkNext (VBool
                    false)) :: ((SinkComplete ser) :: []))))
        | _ -> (st, []))
     | Er x -> (st, (dflt_err x))
     | Co -> (st, ((SinkNext (VBool true)) :: ((SinkComplete ser) :: []))))
  | ORetry n ->
    (match e with
     | Er x ->
       let k = st.st_cnt in
       if (||) (Nat.eqb n O) (Nat.ltb k n)
       then ((st_set_cnt st (S k)), ((UpAbort ser) :: ((ASubscribe (src,
              O)) :: [])))
       else (st, ((SinkError x) :: []))
     | _ -> fwd st ser e)
  | ORetryWhen p ->
    (match e with
     | Er x ->
       if appe p x
       then (st, ((UpAbort ser) :: ((ASubscribe (src, O)) :: [])))
       else (st, ((SinkError x) :: []))
     | _ -> fwd st ser e)
  | OResume ->
    (match port with
     | O ->
       (match e with
        | Er x ->
          (st, ((UpAbort ser) :: ((ASubscribe ((resume_pipe others x), (S
            O))) :: [])))
        | _ -> fwd st ser e)
     | S _ -> fwd st ser e)
  | _ -> fwd st ser e

(** val init_state : opk -> pipe list -> ostate **)

let init_state op others =
  match op with
  | OZip -> st_set_qs st0 (map (fun _ -> []) (seq O (S (length others))))
  | ORetry _ -> st_set_cnt st0 (S O)
  | _ -> st0

(** val conflicts : (lockid * mode) list -> lockid -> mode -> bool **)

let conflicts hd l m =
  existsb (fun p ->
    (&&) (lockid_eqb (fst p) l)
      (match m with
       | MR -> (match snd p with
                | MR -> false
                | MW -> true)
       | MW -> true)) hd

(** val release :
    (lockid * mode) list -> lockid -> mode -> (lockid * mode) list **)

let rec release hd l m =
  match hd with
  | [] -> []
  | p :: r ->
    let (l', m') = p in
    if (&&) (lockid_eqb l' l)
         (match m with
          | MR -> (match m' with
                   | MR -> true
                   | MW -> false)
          | MW -> (match m' with
                   | MR -> false
                   | MW -> true))
    then r
    else (l', m') :: (release r l m)

(** val script_of : world -> nat -> nat -> ev list **)

let script_of w s att =
  let l = fst (w.scripts s) in nth (Nat.min att (sub (length l) (S O))) l []

(** val neg_pred : pred -> pred **)

let neg_pred = function
| PLt k -> PGe k
| PGe k -> PLt k
| PEven -> POdd
| POdd -> PEven
| PTrue -> PFalse
| PFalse -> PTrue
| PEqK k -> PNeK k
| PNeK k -> PEqK k

(** val plan : opk -> pipe -> pipe list -> (nat * pipe) list * nat list **)

let plan op src others =
  let k = length others in
  (match op with
   | OFirst -> (((O, (POp ((OTake (S O)), src, []))) :: []), (O :: []))
   | OLast -> (((O, (POp ((OTakeLast (S O)), src, []))) :: []), (O :: []))
   | OElementAt n ->
     (((O, (POp ((OSkip (sub n (S O))), (POp ((OTake n), src, [])),
       []))) :: []), (O :: []))
   | OAll p ->
     (((O, (POp ((OTake (S O)), (POp ((OFilter (neg_pred p)), src, [])),
       []))) :: []), (O :: []))
   | OMerge ->
     ((map (fun p -> (O, p)) (app (rev others) (src :: []))),
       (rev (seq O (S k))))
   | OZip -> ((combine (seq O (S k)) (src :: others)), (seq O (S k)))
   | OCombineLatest _ -> (((O, (POp (OZip, src, others))) :: []), (O :: []))
   | OAmb ->
     ((map (fun p -> (O, p)) (app (rev others) (src :: []))),
       (rev (seq O (S k))))
   | OTakeUntil ->
     (((O, (nth O others PNever)) :: (((S O), src) :: [])), (O :: ((S
       O) :: [])))
   | OSkipUntil ->
     (((O, (nth O others PNever)) :: (((S O), src) :: [])), (O :: ((S
       O) :: [])))
   | OSample ->
     (((O, (nth O others PNever)) :: (((S O), src) :: [])), (O :: ((S
       O) :: [])))
   | OSwitchOnNext -> ([], [])
   | OSequenceEqual -> (((O, (POp (OZip, src, others))) :: []), (O :: []))
   | _ -> (((O, src) :: []), (O :: [])))

(** val init_acts : opk -> pipe -> pipe list -> act list **)

let init_acts op src others =
  match op with
  | OSwitchOnNext ->
    (ASubscribe (src, O)) :: ((ASubscribe ((nth O others PNever), (S
      O))) :: [])
  | _ -> []

(** val hist_replay : subj -> oid -> req list **)

let hist_replay sj o =
  app (map (fun v -> Deliver (o, (Nx v))) sj.sj_items)
    (match sj.sj_err with
     | Some e -> (Deliver (o, (Er e))) :: []
     | None -> if sj.sj_done then (Deliver (o, Co)) :: [] else [])

(** val handle_sub : world -> nat -> req list **)

let handle_sub w k =
  match w.handles k with
  | Some p ->
    let (_, o0) = p in
    (match o0 with
     | Some s -> (SubUnsub s) :: []
     | None -> [])
  | None -> []

(** val step : req -> world -> req list * world **)

let step r w =
  match r with
  | Deliver (o, e) ->
    let ob = w.obs o in
    let fire =
      match e with
      | Nx _ -> ob.o_n
      | Er _ -> ob.o_e
      | Co -> (&&) ob.o_e ob.o_c
    in
    let w1 =
      match e with
      | Nx _ -> w
      | _ ->
        if ob.o_e then set_obs w o (set_slots ob false false false) else w
    in
    if fire
    then (match ob.o_tgt with
          | TUser u ->
            let w2 = add_log w1 u e in
            let (creqs, w3) =
              match e with
              | Nx v ->
                (match v with
                 | VInt _ -> ([], w2)
                 | VBool _ -> ([], w2)
                 | VUnit -> ([], w2)
                 | VList _ -> ([], w2)
                 | VMatN _ -> ([], w2)
                 | VMatE _ -> ([], w2)
                 | VMatC -> ([], w2)
                 | VObs h ->
                   let j = w2.n_child in
                   let (o', w') =
                     alloc_obs (w_n_child (S j) w2) (TUser (uenc (UChild j)))
                   in
                   (((SubscribePipe ((PHot h), o')) :: []), w'))
              | _ -> ([], w2)
            in
            (match udec u with
             | UTop k ->
               let i = w3.ncalls k in
               ((app creqs ((React (k, i)) :: [])),
               (w_ncalls (upd w3.ncalls k (S i)) w3))
             | UChild _ -> (creqs, w3))
          | THandler (n, port, ser) ->
            let nd = w1.nodes n in
            let (st', acts) =
              handler nd.n_op nd.n_src nd.n_others nd.n_st port ser
                w1.n_subjs e
            in
            ((map (fun x -> Act (n, x)) acts), (set_nst w1 n st'))
          | TForward o' -> (((Deliver (o', e)) :: []), w1)
          | TFeed h -> (((SubjCall (h, e)) :: []), w1)
          | TTapLog t -> ([], (w_taplog (app w1.taplog ((t, e) :: [])) w1))
          | TJunk -> ([], w1))
    else ([], w1)
  | Unsub o ->
    (((AcqL ((LTd o), MR)) :: ((RunTd o) :: ((RelL ((LTd o),
      MR)) :: ((ClearTd o) :: [])))),
      (set_obs w o (set_slots (w.obs o) false false false)))
  | RunTd o ->
    (match (w.obs o).o_td with
     | Some t ->
       (match t with
        | TdFin c -> (((Fin c) :: []), w)
        | TdSubjRemove (h, ser) ->
          let l = remove_ser ser (w.subjs h).sj_obs in
          (((AcqL ((LHookUnsub h), MR)) :: ((HookUnsub (h,
          (length l))) :: ((RelL ((LHookUnsub h), MR)) :: []))),
          (set_subj w h (sj_set_obs (w.subjs h) l)))
        | TdCell x ->
          (((AcqL ((LCell x), MR)) :: ((CellUnsub x) :: ((RelL ((LCell x),
            MR)) :: []))), w))
     | None -> ([], w))
  | ClearTd o -> ([], (set_obs w o (set_td (w.obs o) None)))
  | Act (n, a) ->
    let nd = w.nodes n in
    let c = nd.n_ctl in
    let ct = w.ctls c in
    let sub0 = ct.c_sub in
    let alive = is_sub (w.obs sub0) in
    (match a with
     | SinkNext v ->
       if alive
       then (((Deliver (sub0, (Nx v))) :: []), w)
       else (((Fin c) :: []), w)
     | SinkError e ->
       if alive
       then (((Deliver (sub0, (Er e))) :: ((Fin c) :: [])), w)
       else (((Fin c) :: []), w)
     | SinkComplete ser ->
       if alive
       then let uns' = remove_ser ser ct.c_uns in
            let w1 =
              set_ctl w c { c_sub = sub0; c_uns = uns'; c_serial =
                ct.c_serial }
            in
            (match uns' with
             | [] -> (((Deliver (sub0, Co)) :: ((Fin c) :: [])), w1)
             | _ :: _ -> ([], w1))
       else (((Fin c) :: []), w)
     | SinkCompleteForce ->
       if alive
       then (((Deliver (sub0, Co)) :: ((Fin c) :: [])), w)
       else (((Fin c) :: []), w)
     | UpAbort ser ->
       (((AcqL ((LUns c), MW)) :: ((UnsubEntry (c, ser)) :: ((RelL ((LUns c),
         MW)) :: []))), w)
     | Finalize -> (((Fin c) :: []), w)
     | IfSub (yes, no) ->
       ((map (fun x -> Act (n, x)) (if alive then yes else no)), w)
     | AFlush l ->
       (match l with
        | [] -> ([], w)
        | x :: rest ->
          if alive
          then (((Act (n, (SinkNext x))) :: ((Act (n, (AFlush
                 rest))) :: [])), w)
          else ([], w))
     | AWith (m, body) ->
       ((app ((AcqL ((LSt n), m)) :: [])
          (app (map (fun x -> Act (n, x)) body) ((RelL ((LSt n), m)) :: []))),
         w)
     | ASetFlag b -> ([], (set_nst w n (st_set_flag nd.n_st b)))
     | ASubscribe (p, port) ->
       let ser = ct.c_serial in
       let (o', w1) = alloc_obs w (THandler (n, port, ser)) in
       if alive
       then let w2 =
              set_ctl w1 c { c_sub = sub0; c_uns =
                (app ct.c_uns ((ser, o') :: [])); c_serial = (S ser) }
            in
            (((SubscribePipe (p, o')) :: []), w2)
       else let w2 =
              set_ctl w1 c { c_sub = sub0; c_uns = ct.c_uns; c_serial = (S
                ser) }
            in
            (((SubscribePipe (p, o')) :: []),
            (set_obs w2 o' (set_slots (w2.obs o') false false false)))
     | ASubjNew k ->
       let (h, w1) = alloc_subj w k None in
       ([],
       (match nd.n_op with
        | OWindow _ -> set_nst w1 n (st_set_subj (w1.nodes n).n_st h)
        | _ -> w1))
     | ASubjCall (h, e) -> (((SubjCall (h, e)) :: []), w)
     | ADeliver (o, e) -> (((Deliver (o, e)) :: []), w)
     | AZipDrain ->
       let qs = nd.n_st.st_qs in
       if all_nonempty qs
       then let w1 = set_nst w n (st_set_qs nd.n_st (tails qs)) in
            if alive
            then (((Act (n, (SinkNext (VList (heads qs))))) :: ((Act (n,
                   AZipDrain)) :: [])), w1)
            else ([], w1)
       else ([], w))
  | Fin c ->
    ((app ((AcqL ((LUns c), MR)) :: [])
       (app (map (fun p -> Unsub (snd p)) (w.ctls c).c_uns) ((RelL ((LUns c),
         MR)) :: ((FinSub c) :: [])))), w)
  | FinSub c ->
    let ct = w.ctls c in
    let w1 =
      set_ctl w c { c_sub = ct.c_sub; c_uns = []; c_serial = ct.c_serial }
    in
    if is_sub (w.obs ct.c_sub)
    then (((Unsub ct.c_sub) :: []), w1)
    else ([], w1)
  | UnsubEntry (c, ser) ->
    let ct = w.ctls c in
    (match find_ser ser ct.c_uns with
     | Some o ->
       (((Unsub o) :: []),
         (set_ctl w c { c_sub = ct.c_sub; c_uns = (remove_ser ser ct.c_uns);
           c_serial = ct.c_serial }))
     | None -> ([], w))
  | Src (s, att, o, script, idx) ->
    let alive = is_sub (w.obs o) in
    let w1 =
      w_probes
        (app w.probes ((((((s, att), idx), alive), (length w.log)),
          w.cur) :: [])) w
    in
    (match script with
     | [] -> ([], w1)
     | e :: rest ->
       if (&&) (snd (w.scripts s)) (negb alive)
       then ([], w1)
       else (((Deliver (o, e)) :: ((Src (s, att, o, rest, (S idx))) :: [])),
              w1))
  | FromIter (o, l) ->
    (match l with
     | [] -> ((if is_sub (w.obs o) then (Deliver (o, Co)) :: [] else []), w)
     | x :: rest ->
       if is_sub (w.obs o)
       then (((Deliver (o, (Nx x))) :: ((FromIter (o, rest)) :: [])), w)
       else ([], w))
  | Range (o, a, n) ->
    (match n with
     | O -> (((Deliver (o, Co)) :: []), w)
     | S k ->
       if is_sub (w.obs o)
       then (((Deliver (o, (Nx (VInt a)))) :: ((Range (o,
              (Z.add a (Zpos XH)), k)) :: [])), w)
       else (((Deliver (o, Co)) :: []), w))
  | Repeat (o, v) ->
    if is_sub (w.obs o)
    then (((Deliver (o, (Nx v))) :: ((Repeat (o, v)) :: [])), w)
    else ([], w)
  | StartWith (o, l, src) ->
    (match l with
     | [] ->
       if is_sub (w.obs o)
       then (((SubscribePipe ((POp (OFwd, src, [])), o)) :: []), w)
       else ([], w)
     | x :: rest ->
       if is_sub (w.obs o)
       then (((Deliver (o, (Nx x))) :: ((StartWith (o, rest, src)) :: [])), w)
       else ([], w))
  | SubscribePipe (p, o) ->
    if negb (is_sub (w.obs o))
    then ([], w)
    else (match p with
          | PCold s ->
            let att = w.attempts s in
            (((Src (s, att, o, (script_of w s att), O)) :: []),
            (w_attempts (upd w.attempts s (S att)) w))
          | PJust v ->
            (((Deliver (o, (Nx v))) :: ((Deliver (o, Co)) :: [])), w)
          | PFromIter l -> (((FromIter (o, l)) :: []), w)
          | PRange (a, n) -> (((Range (o, a, (Z.to_nat n))) :: []), w)
          | PEmpty -> (((Deliver (o, Co)) :: []), w)
          | PNever -> ([], w)
          | PError e -> (((Deliver (o, (Er e))) :: []), w)
          | PRepeat v -> (((Repeat (o, v)) :: []), w)
          | PDefer q -> (((SubscribePipe (q, o)) :: []), w)
          | PStart c ->
            let k = w.counters c in
            (((Deliver (o, (Nx (VInt (Z.of_nat k))))) :: ((Deliver (o,
            Co)) :: [])), (w_counters (upd w.counters c (S k)) w))
          | PFromResult r0 ->
            (match r0 with
             | Inl v ->
               (((Deliver (o, (Nx v))) :: ((Deliver (o, Co)) :: [])), w)
             | Inr e -> (((Deliver (o, (Er e))) :: []), w))
          | PHot h ->
            let sj = w.subjs h in
            (match sj.sj_kind with
             | KSubject -> (((SubjJoin (h, o)) :: []), w)
             | KBehavior ->
               (match sj.sj_err with
                | Some e ->
                  (((AcqL ((LHist h), MR)) :: ((Deliver (o, (Er
                    e))) :: ((RelL ((LHist h), MR)) :: []))), w)
                | None ->
                  (match sj.sj_last with
                   | Some v ->
                     let (x, w1) = alloc_cell w in
                     let (o', w2) = alloc_obs w1 (TForward o) in
                     (((AcqL ((LHist h), MR)) :: ((Deliver (o, (Nx
                     v))) :: ((RelL ((LHist h), MR)) :: ((SetTdCell (o,
                     x)) :: ((SubjJoin (h, o')) :: ((MkSub (o', (DCell
                     x))) :: [])))))), w2)
                   | None ->
                     (((AcqL ((LHist h), MR)) :: ((Deliver (o, Co)) :: ((RelL
                       ((LHist h), MR)) :: []))), w)))
             | KReplay ->
               let (x, w1) = alloc_cell w in
               let (o', w2) = alloc_obs w1 (TForward o) in
               (((SetTdCell (o, x)) :: ((SubjJoin (h, o')) :: ((AcqL ((LHist
               h), MR)) :: ((Replay (h, o)) :: ((RelL ((LHist h),
               MR)) :: ((MkSub (o', (DCell x))) :: [])))))), w2)
             | KAsync ->
               (((SubscribePipe ((POp ((OTakeLast (S O)), (PInner h), [])),
                 o)) :: []), w))
          | PInner h -> (((SubjJoin (h, o)) :: []), w)
          | PConn k ->
            (((SubscribePipe ((PHot (w.conns k).k_subj), o)) :: []), w)
          | POp (op, src, others) ->
            (match op with
             | OMap _ ->
               let c = w.n_ctls in
               let n = w.n_nodes in
               let (ups, order) = plan op src others in
               let w1 = w_n_ctls (S c) (w_n_nodes (S n) w) in
               let w2 = set_obs w1 o (set_td (w1.obs o) (Some (TdFin c))) in
               let (entries, w3) =
                 fold_left (fun acc pp ->
                   let (es, wa) = acc in
                   let ser = length es in
                   let (o', wb) = alloc_obs wa (THandler (n, (fst pp), ser))
                   in
                   ((app es ((ser, o') :: [])), wb)) ups ([], w2)
               in
               let w4 =
                 set_ctl w3 c { c_sub = o; c_uns = entries; c_serial =
                   (length entries) }
               in
               let st = init_state op others in
               (match op with
                | OWindow _ ->
                  let (h, wt) = alloc_subj w4 KSubject None in
                  let st1 = st_set_subj st h in
                  let w6 =
                    set_node wt n { n_op = op; n_src = src; n_others =
                      others; n_st = st1; n_ctl = c }
                  in
                  ((app
                     (flat_map (fun i ->
                       match nth_error ups i with
                       | Some pp ->
                         (match find_ser i entries with
                          | Some o' -> (SubscribePipe ((snd pp), o')) :: []
                          | None -> [])
                       | None -> []) order)
                     (map (fun x -> Act (n, x)) (init_acts op src others))),
                  w6)
                | OTap t ->
                  let (ot, wt) = alloc_obs w4 (TTapLog t) in
                  let st1 = st_set_aux st ot in
                  let w6 =
                    set_node wt n { n_op = op; n_src = src; n_others =
                      others; n_st = st1; n_ctl = c }
                  in
                  ((app
                     (flat_map (fun i ->
                       match nth_error ups i with
                       | Some pp ->
                         (match find_ser i entries with
                          | Some o' -> (SubscribePipe ((snd pp), o')) :: []
                          | None -> [])
                       | None -> []) order)
                     (map (fun x -> Act (n, x)) (init_acts op src others))),
                  w6)
                | _ ->
                  let w6 =
                    set_node w4 n { n_op = op; n_src = src; n_others =
                      others; n_st = st; n_ctl = c }
                  in
                  ((app
                     (flat_map (fun i ->
                       match nth_error ups i with
                       | Some pp ->
                         (match find_ser i entries with
                          | Some o' -> (SubscribePipe ((snd pp), o')) :: []
                          | None -> [])
                       | None -> []) order)
                     (map (fun x -> Act (n, x)) (init_acts op src others))),
                  w6))
             | OFilter _ ->
               let c = w.n_ctls in
               let n = w.n_nodes in
               let (ups, order) = plan op src others in
               let w1 = w_n_ctls (S c) (w_n_nodes (S n) w) in
               let w2 = set_obs w1 o (set_td (w1.obs o) (Some (TdFin c))) in
               let (entries, w3) =
                 fold_left (fun acc pp ->
                   let (es, wa) = acc in
                   let ser = length es in
                   let (o', wb) = alloc_obs wa (THandler (n, (fst pp), ser))
                   in
                   ((app es ((ser, o') :: [])), wb)) ups ([], w2)
               in
               let w4 =
                 set_ctl w3 c { c_sub = o; c_uns = entries; c_serial =
                   (length entries) }
               in
               let st = init_state op others in
               (match op with
                | OWindow _ ->
                  let (h, wt) = alloc_subj w4 KSubject None in
                  let st1 = st_set_subj st h in
                  let w6 =
                    set_node wt n { n_op = op; n_src = src; n_others =
                      others; n_st = st1; n_ctl = c }
                  in
                  ((app
                     (flat_map (fun i ->
                       match nth_error ups i with
                       | Some pp ->
                         (match find_ser i entries with
                          | Some o' -> (SubscribePipe ((snd pp), o')) :: []
                          | None -> [])
                       | None -> []) order)
                     (map (fun x -> Act (n, x)) (init_acts op src others))),
                  w6)
                | OTap t ->
                  let (ot, wt) = alloc_obs w4 (TTapLog t) in
                  let st1 = st_set_aux st ot in
                  let w6 =
                    set_node wt n { n_op = op; n_src = src; n_others =
                      others; n_st = st1; n_ctl = c }
                  in
                  ((app
                     (flat_map (fun i ->
                       match nth_error ups i with
                       | Some pp ->
                         (match find_ser i entries with
                          | Some o' -> (SubscribePipe ((snd pp), o')) :: []
                          | None -> [])
                       | None -> []) order)
                     (map (fun x -> Act (n, x)) (init_acts op src others))),
                  w6)
                | _ ->
                  let w6 =
                    set_node w4 n { n_op = op; n_src = src; n_others =
                      others; n_st = st; n_ctl = c }
                  in
                  ((app
                     (flat_map (fun i ->
                       match nth_error ups i with
                       | Some pp ->
                         (match find_ser i entries with
                          | Some o' -> (SubscribePipe ((snd pp), o')) :: []
                          | None -> [])
                       | None -> []) order)
                     (map (fun x -> Act (n, x)) (init_acts op src others))),
                  w6))
             | OTake _ ->
               let c = w.n_ctls in
               let n = w.n_nodes in
               let (ups, order) = plan op src others in
               let w1 = w_n_ctls (S c) (w_n_nodes (S n) w) in
               let w2 = set_obs w1 o (set_td (w1.obs o) (Some (TdFin c))) in
               let (entries, w3) =
                 fold_left (fun acc pp ->
                   let (es, wa) = acc in
                   let ser = length es in
                   let (o', wb) = alloc_obs wa (THandler (n, (fst pp), ser))
                   in
                   ((app es ((ser, o') :: [])), wb)) ups ([], w2)
               in
               let w4 =
                 set_ctl w3 c { c_sub = o; c_uns = entries; c_serial =
                   (length entries) }
               in
               let st = init_state op others in
               (match op with
                | OWindow _ ->
                  let (h, wt) = alloc_subj w4 KSubject None in
                  let st1 = st_set_subj st h in
                  let w6 =
                    set_node wt n { n_op = op; n_src = src; n_others =
                      others; n_st = st1; n_ctl = c }
                  in
                  ((app
                     (flat_map (fun i ->
                       match nth_error ups i with
                       | Some pp ->
                         (match find_ser i entries with
                          | Some o' -> (SubscribePipe ((snd pp), o')) :: []
                          | None -> [])
                       | None -> []) order)
                     (map (fun x -> Act (n, x)) (init_acts op src others))),
                  w6)
                | OTap t ->
                  let (ot, wt) = alloc_obs w4 (TTapLog t) in
                  let st1 = st_set_aux st ot in
                  let w6 =
                    set_node wt n { n_op = op; n_src = src; n_others =
                      others; n_st = st1; n_ctl = c }
                  in
                  ((app
                     (flat_map (fun i ->
                       match nth_error ups i with
                       | Some pp ->
                         (match find_ser i entries with
                          | Some o' -> (SubscribePipe ((snd pp), o')) :: []
                          | None -> [])
                       | None -> []) order)
                     (map (fun x -> Act (n, x)) (init_acts op src others))),
                  w6)
                | _ ->
                  let w6 =
                    set_node w4 n { n_op = op; n_src = src; n_others =
                      others; n_st = st; n_ctl = c }
                  in
                  ((app
                     (flat_map (fun i ->
                       match nth_error ups i with
                       | Some pp ->
                         (match find_ser i entries with
                          | Some o' -> (SubscribePipe ((snd pp), o')) :: []
                          | None -> [])
                       | None -> []) order)
                     (map (fun x -> Act (n, x)) (init_acts op src others))),
                  w6))
             | OTakeWhile _ ->
               let c = w.n_ctls in
               let n = w.n_nodes in
               let (ups, order) = plan op src others in
               let w1 = w_n_ctls (S c) (w_n_nodes (S n) w) in
               let w2 = set_obs w1 o (set_td (w1.obs o) (Some (TdFin c))) in
               let (entries, w3) =
                 fold_left (fun acc pp ->
                   let (es, wa) = acc in
                   let ser = length es in
                   let (o', wb) = alloc_obs wa (THandler (n, (fst pp), ser))
                   in
                   ((app es ((ser, o') :: [])), wb)) ups ([], w2)
               in
               let w4 =
                 set_ctl w3 c { c_sub = o; c_uns = entries; c_serial =
                   (length entries) }
               in
               let st = init_state op others in
               (match op with
                | OWindow _ ->
                  let (h, wt) = alloc_subj w4 KSubject None in
                  let st1 = st_set_subj st h in
                  let w6 =
                    set_node wt n { n_op = op; n_src = src; n_others =
                      others; n_st = st1; n_ctl = c }
                  in
                  ((app
                     (flat_map (fun i ->
                       match nth_error ups i with
                       | Some pp ->
                         (match find_ser i entries with
                          | Some o' -> (SubscribePipe ((snd pp), o')) :: []
                          | None -> [])
                       | None -> []) order)
                     (map (fun x -> Act (n, x)) (init_acts op src others))),
                  w6)
                | OTap t ->
                  let (ot, wt) = alloc_obs w4 (TTapLog t) in
                  let st1 = st_set_aux st ot in
                  let w6 =
                    set_node wt n { n_op = op; n_src = src; n_others =
                      others; n_st = st1; n_ctl = c }
                  in
                  ((app
                     (flat_map (fun i ->
                       match nth_error ups i with
                       | Some pp ->
                         (match find_ser i entries with
                          | Some o' -> (SubscribePipe ((snd pp), o')) :: []
                          | None -> [])
                       | None -> []) order)
                     (map (fun x -> Act (n, x)) (init_acts op src others))),
                  w6)
                | _ ->
                  let w6 =
                    set_node w4 n { n_op = op; n_src = src; n_others =
                      others; n_st = st; n_ctl = c }
                  in
                  ((app
                     (flat_map (fun i ->
                       match nth_error ups i with
                       | Some pp ->
                         (match find_ser i entries with
                          | Some o' -> (SubscribePipe ((snd pp), o')) :: []
                          | None -> [])
                       | None -> []) order)
                     (map (fun x -> Act (n, x)) (init_acts op src others))),
                  w6))
             | OTakeLast _ ->
               let c = w.n_ctls in
               let n = w.n_nodes in
               let (ups, order) = plan op src others in
               let w1 = w_n_ctls (S c) (w_n_nodes (S n) w) in
               let w2 = set_obs w1 o (set_td (w1.obs o) (Some (TdFin c))) in
               let (entries, w3) =
                 fold_left (fun acc pp ->
                   let (es, wa) = acc in
                   let ser = length es in
                   let (o', wb) = alloc_obs wa (THandler (n, (fst pp), ser))
                   in
                   ((app es ((ser, o') :: [])), wb)) ups ([], w2)
               in
               let w4 =
                 set_ctl w3 c { c_sub = o; c_uns = entries; c_serial =
                   (length entries) }
               in
               let st = init_state op others in
               (match op with
                | OWindow _ ->
                  let (h, wt) = alloc_subj w4 KSubject None in
                  let st1 = st_set_subj st h in
                  let w6 =
                    set_node wt n { n_op = op; n_src = src; n_others =
                      others; n_st = st1; n_ctl = c }
                  in
                  ((app
                     (flat_map (fun i ->
                       match nth_error ups i with
                       | Some pp ->
                         (match find_ser i entries with
                          | Some o' -> (SubscribePipe ((snd pp), o')) :: []
                          | None -> [])
                       | None -> []) order)
                     (map (fun x -> Act (n, x)) (init_acts op src others))),
                  w6)
                | OTap t ->
                  let (ot, wt) = alloc_obs w4 (TTapLog t) in
                  let st1 = st_set_aux st ot in
                  let w6 =
                    set_node wt n { n_op = op; n_src = src; n_others =
                      others; n_st = st1; n_ctl = c }
                  in
                  ((app
                     (flat_map (fun i ->
                       match nth_error ups i with
                       | Some pp ->
                         (match find_ser i entries with
                          | Some o' -> (SubscribePipe ((snd pp), o')) :: []
                          | None -> [])
                       | None -> []) order)
                     (map (fun x -> Act (n, x)) (init_acts op src others))),
                  w6)
                | _ ->
                  let w6 =
                    set_node w4 n { n_op = op; n_src = src; n_others =
                      others; n_st = st; n_ctl = c }
                  in
                  ((app
                     (flat_map (fun i ->
                       match nth_error ups i with
                       | Some pp ->
                         (match find_ser i entries with
                          | Some o' -> (SubscribePipe ((snd pp), o')) :: []
                          | None -> [])
                       | None -> []) order)
                     (map (fun x -> Act (n, x)) (init_acts op src others))),
                  w6))
             | OSkip _ ->
               let c = w.n_ctls in
               let n = w.n_nodes in
               let (ups, order) = plan op src others in
               let w1 = w_n_ctls (S c) (w_n_nodes (S n) w) in
               let w2 = set_obs w1 o (set_td (w1.obs o) (Some (TdFin c))) in
               let (entries, w3) =
                 fold_left (fun acc pp ->
                   let (es, wa) = acc in
                   let ser = length es in
                   let (o', wb) = alloc_obs wa (THandler (n, (fst pp), ser))
                   in
                   ((app es ((ser, o') :: [])), wb)) ups ([], w2)
               in
               let w4 =
                 set_ctl w3 c { c_sub = o; c_uns = entries; c_serial =
                   (length entries) }
               in
               let st = init_state op others in
               (match op with
                | OWindow _ ->
                  let (h, wt) = alloc_subj w4 KSubject None in
                  let st1 = st_set_subj st h in
                  let w6 =
                    set_node wt n { n_op = op; n_src = src; n_others =
                      others; n_st = st1; n_ctl = c }
                  in
                  ((app
                     (flat_map (fun i ->
                       match nth_error ups i with
                       | Some pp ->
                         (match find_ser i entries with
                          | Some o' -> (SubscribePipe ((snd pp), o')) :: []
                          | None -> [])
                       | None -> []) order)
                     (map (fun x -> Act (n, x)) (init_acts op src others))),
                  w6)
                | OTap t ->
                  let (ot, wt) = alloc_obs w4 (TTapLog t) in
                  let st1 = st_set_aux st ot in
                  let w6 =
                    set_node wt n { n_op = op; n_src = src; n_others =
                      others; n_st = st1; n_ctl = c }
                  in
                  ((app
                     (flat_map (fun i ->
                       match nth_error ups i with
                       | Some pp ->
                         (match find_ser i entries with
                          | Some o' -> (SubscribePipe ((snd pp), o')) :: []
                          | None -> [])
                       | None -> []) order)
                     (map (fun x -> Act (n, x)) (init_acts op src others))),
                  w6)
                | _ ->
                  let w6 =
                    set_node w4 n { n_op = op; n_src = src; n_others =
                      others; n_st = st; n_ctl = c }
                  in
                  ((app
                     (flat_map (fun i ->
                       match nth_error ups i with
                       | Some pp ->
                         (match find_ser i entries with
                          | Some o' -> (SubscribePipe ((snd pp), o')) :: []
                          | None -> [])
                       | None -> []) order)
                     (map (fun x -> Act (n, x)) (init_acts op src others))),
                  w6))
             | OSkipLast _ ->
               let c = w.n_ctls in
               let n = w.n_nodes in
               let (ups, order) = plan op src others in
               let w1 = w_n_ctls (S c) (w_n_nodes (S n) w) in
               let w2 = set_obs w1 o (set_td (w1.obs o) (Some (TdFin c))) in
               let (entries, w3) =
                 fold_left (fun acc pp ->
                   let (es, wa) = acc in
                   let ser = length es in
                   let (o', wb) = alloc_obs wa (THandler (n, (fst pp), ser))
                   in
                   ((app es ((ser, o') :: [])), wb)) ups ([], w2)
               in
               let w4 =
                 set_ctl w3 c { c_sub = o; c_uns = entries; c_serial =
                   (length entries) }
               in
               let st = init_state op others in
               (match op with
                | OWindow _ ->
                  let (h, wt) = alloc_subj w4 KSubject None in
                  let st1 = st_set_subj st h in
                  let w6 =
                    set_node wt n { n_op = op; n_src = src; n_others =
                      others; n_st = st1; n_ctl = c }
                  in
                  ((app
                     (flat_map (fun i ->
                       match nth_error ups i with
                       | Some pp ->
                         (match find_ser i entries with
                          | Some o' -> (SubscribePipe ((snd pp), o')) :: []
                          | None -> [])
                       | None -> []) order)
                     (map (fun x -> Act (n, x)) (init_acts op src others))),
                  w6)
                | OTap t ->
                  let (ot, wt) = alloc_obs w4 (TTapLog t) in
                  let st1 = st_set_aux st ot in
                  let w6 =
                    set_node wt n { n_op = op; n_src = src; n_others =
                      others; n_st = st1; n_ctl = c }
                  in
                  ((app
                     (flat_map (fun i ->
                       match nth_error ups i with
                       | Some pp ->
                         (match find_ser i entries with
                          | Some o' -> (SubscribePipe ((snd pp), o')) :: []
                          | None -> [])
                       | None -> []) order)
                     (map (fun x -> Act (n, x)) (init_acts op src others))),
                  w6)
                | _ ->
                  let w6 =
                    set_node w4 n { n_op = op; n_src = src; n_others =
                      others; n_st = st; n_ctl = c }
                  in
                  ((app
                     (flat_map (fun i ->
                       match nth_error ups i with
                       | Some pp ->
                         (match find_ser i entries with
                          | Some o' -> (SubscribePipe ((snd pp), o')) :: []
                          | None -> [])
                       | None -> []) order)
                     (map (fun x -> Act (n, x)) (init_acts op src others))),
                  w6))
             | OSkipWhile _ ->
               let c = w.n_ctls in
               let n = w.n_nodes in
               let (ups, order) = plan op src others in
               let w1 = w_n_ctls (S c) (w_n_nodes (S n) w) in
               let w2 = set_obs w1 o (set_td (w1.obs o) (Some (TdFin c))) in
               let (entries, w3) =
                 fold_left (fun acc pp ->
                   let (es, wa) = acc in
                   let ser = length es in
                   let (o', wb) = alloc_obs wa (THandler (n, (fst pp), ser))
                   in
                   ((app es ((ser, o') :: [])), wb)) ups ([], w2)
               in
               let w4 =
                 set_ctl w3 c { c_sub = o; c_uns = entries; c_serial =
                   (length entries) }
               in
               let st = init_state op others in
               (match op with
                | OWindow _ ->
                  let (h, wt) = alloc_subj w4 KSubject None in
                  let st1 = st_set_subj st h in
                  let w6 =
                    set_node wt n { n_op = op; n_src = src; n_others =
                      others; n_st = st1; n_ctl = c }
                  in
                  ((app
                     (flat_map (fun i ->
                       match nth_error ups i with
                       | Some pp ->
                         (match find_ser i entries with
                          | Some o' -> (SubscribePipe ((snd pp), o')) :: []
                          | None -> [])
                       | None -> []) order)
                     (map (fun x -> Act (n, x)) (init_acts op src others))),
                  w6)
                | OTap t ->
                  let (ot, wt) = alloc_obs w4 (TTapLog t) in
                  let st1 = st_set_aux st ot in
                  let w6 =
                    set_node wt n { n_op = op; n_src = src; n_others =
                      others; n_st = st1; n_ctl = c }
                  in
                  ((app
                     (flat_map (fun i ->
                       match nth_error ups i with
                       | Some pp ->
                         (match find_ser i entries with
                          | Some o' -> (SubscribePipe ((snd pp), o')) :: []
                          | None -> [])
                       | None -> []) order)
                     (map (fun x -> Act (n, x)) (init_acts op src others))),
                  w6)
                | _ ->
                  let w6 =
                    set_node w4 n { n_op = op; n_src = src; n_others =
                      others; n_st = st; n_ctl = c }
                  in
                  ((app
                     (flat_map (fun i ->
                       match nth_error ups i with
                       | Some pp ->
                         (match find_ser i entries with
                          | Some o' -> (SubscribePipe ((snd pp), o')) :: []
                          | None -> [])
                       | None -> []) order)
                     (map (fun x -> Act (n, x)) (init_acts op src others))),
                  w6))
             | OFirst ->
               let c = w.n_ctls in
               let n = w.n_nodes in
               let (ups, order) = plan op src others in
               let w1 = w_n_ctls (S c) (w_n_nodes (S n) w) in
               let w2 = set_obs w1 o (set_td (w1.obs o) (Some (TdFin c))) in
               let (entries, w3) =
                 fold_left (fun acc pp ->
                   let (es, wa) = acc in
                   let ser = length es in
                   let (o', wb) = alloc_obs wa (THandler (n, (fst pp), ser))
                   in
                   ((app es ((ser, o') :: [])), wb)) ups ([], w2)
               in
               let w4 =
                 set_ctl w3 c { c_sub = o; c_uns = entries; c_serial =
                   (length entries) }
               in
               let st = init_state op others in
               (match op with
                | OWindow _ ->
                  let (h, wt) = alloc_subj w4 KSubject None in
                  let st1 = st_set_subj st h in
                  let w6 =
                    set_node wt n { n_op = op; n_src = src; n_others =
                      others; n_st = st1; n_ctl = c }
                  in
                  ((app
                     (flat_map (fun i ->
                       match nth_error ups i with
                       | Some pp ->
                         (match find_ser i entries with
                          | Some o' -> (SubscribePipe ((snd pp), o')) :: []
                          | None -> [])
                       | None -> []) order)
                     (map (fun x -> Act (n, x)) (init_acts op src others))),
                  w6)
                | OTap t ->
                  let (ot, wt) = alloc_obs w4 (TTapLog t) in
                  let st1 = st_set_aux st ot in
                  let w6 =
                    set_node wt n { n_op = op; n_src = src; n_others =
                      others; n_st = st1; n_ctl = c }
                  in
                  ((app
                     (flat_map (fun i ->
                       match nth_error ups i with
                       | Some pp ->
                         (match find_ser i entries with
                          | Some o' -> (SubscribePipe ((snd pp), o')) :: []
                          | None -> [])
                       | None -> []) order)
                     (map (fun x -> Act (n, x)) (init_acts op src others))),
                  w6)
                | _ ->
                  let w6 =
                    set_node w4 n { n_op = op; n_src = src; n_others =
                      others; n_st = st; n_ctl = c }
                  in
                  ((app
                     (flat_map (fun i ->
                       match nth_error ups i with
                       | Some pp ->
                         (match find_ser i entries with
                          | Some o' -> (SubscribePipe ((snd pp), o')) :: []
                          | None -> [])
                       | None -> []) order)
                     (map (fun x -> Act (n, x)) (init_acts op src others))),
                  w6))
             | OLast ->
               let c = w.n_ctls in
               let n = w.n_nodes in
               let (ups, order) = plan op src others in
               let w1 = w_n_ctls (S c) (w_n_nodes (S n) w) in
               let w2 = set_obs w1 o (set_td (w1.obs o) (Some (TdFin c))) in
               let (entries, w3) =
                 fold_left (fun acc pp ->
                   let (es, wa) = acc in
                   let ser = length es in
                   let (o', wb) = alloc_obs wa (THandler (n, (fst pp), ser))
                   in
                   ((app es ((ser, o') :: [])), wb)) ups ([], w2)
               in
               let w4 =
                 set_ctl w3 c { c_sub = o; c_uns = entries; c_serial =
                   (length entries) }
               in
               let st = init_state op others in
               (match op with
                | OWindow _ ->
                  let (h, wt) = alloc_subj w4 KSubject None in
                  let st1 = st_set_subj st h in
                  let w6 =
                    set_node wt n { n_op = op; n_src = src; n_others =
                      others; n_st = st1; n_ctl = c }
                  in
                  ((app
                     (flat_map (fun i ->
                       match nth_error ups i with
                       | Some pp ->
                         (match find_ser i entries with
                          | Some o' -> (SubscribePipe ((snd pp), o')) :: []
                          | None -> [])
                       | None -> []) order)
                     (map (fun x -> Act (n, x)) (init_acts op src others))),
                  w6)
                | OTap t ->
                  let (ot, wt) = alloc_obs w4 (TTapLog t) in
                  let st1 = st_set_aux st ot in
                  let w6 =
                    set_node wt n { n_op = op; n_src = src; n_others =
                      others; n_st = st1; n_ctl = c }
                  in
                  ((app
                     (flat_map (fun i ->
                       match nth_error ups i with
                       | Some pp ->
                         (match find_ser i entries with
                          | Some o' -> (SubscribePipe ((snd pp), o')) :: []
                          | None -> [])
                       | None -> []) order)
                     (map (fun x -> Act (n, x)) (init_acts op src others))),
                  w6)
                | _ ->
                  let w6 =
                    set_node w4 n { n_op = op; n_src = src; n_others =
                      others; n_st = st; n_ctl = c }
                  in
                  ((app
                     (flat_map (fun i ->
                       match nth_error ups i with
                       | Some pp ->
                         (match find_ser i entries with
                          | Some o' -> (SubscribePipe ((snd pp), o')) :: []
                          | None -> [])
                       | None -> []) order)
                     (map (fun x -> Act (n, x)) (init_acts op src others))),
                  w6))
             | OElementAt _ ->
               let c = w.n_ctls in
               let n = w.n_nodes in
               let (ups, order) = plan op src others in
               let w1 = w_n_ctls (S c) (w_n_nodes (S n) w) in
               let w2 = set_obs w1 o (set_td (w1.obs o) (Some (TdFin c))) in
               let (entries, w3) =
                 fold_left (fun acc pp ->
                   let (es, wa) = acc in
                   let ser = length es in
                   let (o', wb) = alloc_obs wa (THandler (n, (fst pp), ser))
                   in
                   ((app es ((ser, o') :: [])), wb)) ups ([], w2)
               in
               let w4 =
                 set_ctl w3 c { c_sub = o; c_uns = entries; c_serial =
                   (length entries) }
               in
               let st = init_state op others in
               (match op with
                | OWindow _ ->
                  let (h, wt) = alloc_subj w4 KSubject None in
                  let st1 = st_set_subj st h in
                  let w6 =
                    set_node wt n { n_op = op; n_src = src; n_others =
                      others; n_st = st1; n_ctl = c }
                  in
                  ((app
                     (flat_map (fun i ->
                       match nth_error ups i with
                       | Some pp ->
                         (match find_ser i entries with
                          | Some o' -> (SubscribePipe ((snd pp), o')) :: []
                          | None -> [])
                       | None -> []) order)
                     (map (fun x -> Act (n, x)) (init_acts op src others))),
                  w6)
                | OTap t ->
                  let (ot, wt) = alloc_obs w4 (TTapLog t) in
                  let st1 = st_set_aux st ot in
                  let w6 =
                    set_node wt n { n_op = op; n_src = src; n_others =
                      others; n_st = st1; n_ctl = c }
                  in
                  ((app
                     (flat_map (fun i ->
                       match nth_error ups i with
                       | Some pp ->
                         (match find_ser i entries with
                          | Some o' -> (SubscribePipe ((snd pp), o')) :: []
                          | None -> [])
                       | None -> []) order)
                     (map (fun x -> Act (n, x)) (init_acts op src others))),
                  w6)
                | _ ->
                  let w6 =
                    set_node w4 n { n_op = op; n_src = src; n_others =
                      others; n_st = st; n_ctl = c }
                  in
                  ((app
                     (flat_map (fun i ->
                       match nth_error ups i with
                       | Some pp ->
                         (match find_ser i entries with
                          | Some o' -> (SubscribePipe ((snd pp), o')) :: []
                          | None -> [])
                       | None -> []) order)
                     (map (fun x -> Act (n, x)) (init_acts op src others))),
                  w6))
             | ODistinct ->
               let c = w.n_ctls in
               let n = w.n_nodes in
               let (ups, order) = plan op src others in
               let w1 = w_n_ctls (S c) (w_n_nodes (S n) w) in
               let w2 = set_obs w1 o (set_td (w1.obs o) (Some (TdFin c))) in
               let (entries, w3) =
                 fold_left (fun acc pp ->
                   let (es, wa) = acc in
                   let ser = length es in
                   let (o', wb) = alloc_obs wa (THandler (n, (fst pp), ser))
                   in
                   ((app es ((ser, o') :: [])), wb)) ups ([], w2)
               in
               let w4 =
                 set_ctl w3 c { c_sub = o; c_uns = entries; c_serial =
                   (length entries) }
               in
               let st = init_state op others in
               (match op with
                | OWindow _ ->
                  let (h, wt) = alloc_subj w4 KSubject None in
                  let st1 = st_set_subj st h in
                  let w6 =
                    set_node wt n { n_op = op; n_src = src; n_others =
                      others; n_st = st1; n_ctl = c }
                  in
                  ((app
                     (flat_map (fun i ->
                       match nth_error ups i with
                       | Some pp ->
                         (match find_ser i entries with
                          | Some o' -> (SubscribePipe ((snd pp), o')) :: []
                          | None -> [])
                       | None -> []) order)
                     (map (fun x -> Act (n, x)) (init_acts op src others))),
                  w6)
                | OTap t ->
                  let (ot, wt) = alloc_obs w4 (TTapLog t) in
                  let st1 = st_set_aux st ot in
                  let w6 =
                    set_node wt n { n_op = op; n_src = src; n_others =
                      others; n_st = st1; n_ctl = c }
                  in
                  ((app
                     (flat_map (fun i ->
                       match nth_error ups i with
                       | Some pp ->
                         (match find_ser i entries with
                          | Some o' -> (SubscribePipe ((snd pp), o')) :: []
                          | None -> [])
                       | None -> []) order)
                     (map (fun x -> Act (n, x)) (init_acts op src others))),
                  w6)
                | _ ->
                  let w6 =
                    set_node w4 n { n_op = op; n_src = src; n_others =
                      others; n_st = st; n_ctl = c }
                  in
                  ((app
                     (flat_map (fun i ->
                       match nth_error ups i with
                       | Some pp ->
                         (match find_ser i entries with
                          | Some o' -> (SubscribePipe ((snd pp), o')) :: []
                          | None -> [])
                       | None -> []) order)
                     (map (fun x -> Act (n, x)) (init_acts op src others))),
                  w6))
             | OScan _ ->
               let c = w.n_ctls in
               let n = w.n_nodes in
               let (ups, order) = plan op src others in
               let w1 = w_n_ctls (S c) (w_n_nodes (S n) w) in
               let w2 = set_obs w1 o (set_td (w1.obs o) (Some (TdFin c))) in
               let (entries, w3) =
                 fold_left (fun acc pp ->
                   let (es, wa) = acc in
                   let ser = length es in
                   let (o', wb) = alloc_obs wa (THandler (n, (fst pp), ser))
                   in
                   ((app es ((ser, o') :: [])), wb)) ups ([], w2)
               in
               let w4 =
                 set_ctl w3 c { c_sub = o; c_uns = entries; c_serial =
                   (length entries) }
               in
               let st = init_state op others in
               (match op with
                | OWindow _ ->
                  let (h, wt) = alloc_subj w4 KSubject None in
                  let st1 = st_set_subj st h in
                  let w6 =
                    set_node wt n { n_op = op; n_src = src; n_others =
                      others; n_st = st1; n_ctl = c }
                  in
                  ((app
                     (flat_map (fun i ->
                       match nth_error ups i with
                       | Some pp ->
                         (match find_ser i entries with
                          | Some o' -> (SubscribePipe ((snd pp), o')) :: []
                          | None -> [])
                       | None -> []) order)
                     (map (fun x -> Act (n, x)) (init_acts op src others))),
                  w6)
                | OTap t ->
                  let (ot, wt) = alloc_obs w4 (TTapLog t) in
                  let st1 = st_set_aux st ot in
                  let w6 =
                    set_node wt n { n_op = op; n_src = src; n_others =
                      others; n_st = st1; n_ctl = c }
                  in
                  ((app
                     (flat_map (fun i ->
                       match nth_error ups i with
                       | Some pp ->
                         (match find_ser i entries with
                          | Some o' -> (SubscribePipe ((snd pp), o')) :: []
                          | None -> [])
                       | None -> []) order)
                     (map (fun x -> Act (n, x)) (init_acts op src others))),
                  w6)
                | _ ->
                  let w6 =
                    set_node w4 n { n_op = op; n_src = src; n_others =
                      others; n_st = st; n_ctl = c }
                  in
                  ((app
                     (flat_map (fun i ->
                       match nth_error ups i with
                       | Some pp ->
                         (match find_ser i entries with
                          | Some o' -> (SubscribePipe ((snd pp), o')) :: []
                          | None -> [])
                       | None -> []) order)
                     (map (fun x -> Act (n, x)) (init_acts op src others))),
                  w6))
             | OReduce _ ->
               let c = w.n_ctls in
               let n = w.n_nodes in
               let (ups, order) = plan op src others in
               let w1 = w_n_ctls (S c) (w_n_nodes (S n) w) in
               let w2 = set_obs w1 o (set_td (w1.obs o) (Some (TdFin c))) in
               let (entries, w3) =
                 fold_left (fun acc pp ->
                   let (es, wa) = acc in
                   let ser = length es in
                   let (o', wb) = alloc_obs wa (THandler (n, (fst pp), ser))
                   in
                   ((app es ((ser, o') :: [])), wb)) ups ([], w2)
               in
               let w4 =
                 set_ctl w3 c { c_sub = o; c_uns = entries; c_serial =
                   (length entries) }
               in
               let st = init_state op others in
               (match op with
                | OWindow _ ->
                  let (h, wt) = alloc_subj w4 KSubject None in
                  let st1 = st_set_subj st h in
                  let w6 =
                    set_node wt n { n_op = op; n_src = src; n_others =
                      others; n_st = st1; n_ctl = c }
                  in
                  ((app
                     (flat_map (fun i ->
                       match nth_error ups i with
                       | Some pp ->
                         (match find_ser i entries with
                          | Some o' -> (SubscribePipe ((snd pp), o')) :: []
                          | None -> [])
                       | None -> []) order)
                     (map (fun x -> Act (n, x)) (init_acts op src others))),
                  w6)
                | OTap t ->
                  let (ot, wt) = alloc_obs w4 (TTapLog t) in
                  let st1 = st_set_aux st ot in
                  let w6 =
                    set_node wt n { n_op = op; n_src = src; n_others =
                      others; n_st = st1; n_ctl = c }
                  in
                  ((app
                     (flat_map (fun i ->
                       match nth_error ups i with
                       | Some pp ->
                         (match find_ser i entries with
                          | Some o' -> (SubscribePipe ((snd pp), o')) :: []
                          | None -> [])
                       | None -> []) order)
                     (map (fun x -> Act (n, x)) (init_acts op src others))),
                  w6)
                | _ ->
                  let w6 =
                    set_node w4 n { n_op = op; n_src = src; n_others =
                      others; n_st = st; n_ctl = c }
                  in
                  ((app
                     (flat_map (fun i ->
                       match nth_error ups i with
                       | Some pp ->
                         (match find_ser i entries with
                          | Some o' -> (SubscribePipe ((snd pp), o')) :: []
                          | None -> [])
                       | None -> []) order)
                     (map (fun x -> Act (n, x)) (init_acts op src others))),
                  w6))
             | OCount ->
               let c = w.n_ctls in
               let n = w.n_nodes in
               let (ups, order) = plan op src others in
               let w1 = w_n_ctls (S c) (w_n_nodes (S n) w) in
               let w2 = set_obs w1 o (set_td (w1.obs o) (Some (TdFin c))) in
               let (entries, w3) =
                 fold_left (fun acc pp ->
                   let (es, wa) = acc in
                   let ser = length es in
                   let (o', wb) = alloc_obs wa (THandler (n, (fst pp), ser))
                   in
                   ((app es ((ser, o') :: [])), wb)) ups ([], w2)
               in
               let w4 =
                 set_ctl w3 c { c_sub = o; c_uns = entries; c_serial =
                   (length entries) }
               in
               let st = init_state op others in
               (match op with
                | OWindow _ ->
                  let (h, wt) = alloc_subj w4 KSubject None in
                  let st1 = st_set_subj st h in
                  let w6 =
                    set_node wt n { n_op = op; n_src = src; n_others =
                      others; n_st = st1; n_ctl = c }
                  in
                  ((app
                     (flat_map (fun i ->
                       match nth_error ups i with
                       | Some pp ->
                         (match find_ser i entries with
                          | Some o' -> (SubscribePipe ((snd pp), o')) :: []
                          | None -> [])
                       | None -> []) order)
                     (map (fun x -> Act (n, x)) (init_acts op src others))),
                  w6)
                | OTap t ->
                  let (ot, wt) = alloc_obs w4 (TTapLog t) in
                  let st1 = st_set_aux st ot in
                  let w6 =
                    set_node wt n { n_op = op; n_src = src; n_others =
                      others; n_st = st1; n_ctl = c }
                  in
                  ((app
                     (flat_map (fun i ->
                       match nth_error ups i with
                       | Some pp ->
                         (match find_ser i entries with
                          | Some o' -> (SubscribePipe ((snd pp), o')) :: []
                          | None -> [])
                       | None -> []) order)
                     (map (fun x -> Act (n, x)) (init_acts op src others))),
                  w6)
                | _ ->
                  let w6 =
                    set_node w4 n { n_op = op; n_src = src; n_others =
                      others; n_st = st; n_ctl = c }
                  in
                  ((app
                     (flat_map (fun i ->
                       match nth_error ups i with
                       | Some pp ->
                         (match find_ser i entries with
                          | Some o' -> (SubscribePipe ((snd pp), o')) :: []
                          | None -> [])
                       | None -> []) order)
                     (map (fun x -> Act (n, x)) (init_acts op src others))),
                  w6))
             | OSum ->
               let c = w.n_ctls in
               let n = w.n_nodes in
               let (ups, order) = plan op src others in
               let w1 = w_n_ctls (S c) (w_n_nodes (S n) w) in
               let w2 = set_obs w1 o (set_td (w1.obs o) (Some (TdFin c))) in
               let (entries, w3) =
                 fold_left (fun acc pp ->
                   let (es, wa) = acc in
                   let ser = length es in
                   let (o', wb) = alloc_obs wa (THandler (n, (fst pp), ser))
                   in
                   ((app es ((ser, o') :: [])), wb)) ups ([], w2)
               in
               let w4 =
                 set_ctl w3 c { c_sub = o; c_uns = entries; c_serial =
                   (length entries) }
               in
               let st = init_state op others in
               (match op with
                | OWindow _ ->
                  let (h, wt) = alloc_subj w4 KSubject None in
                  let st1 = st_set_subj st h in
                  let w6 =
                    set_node wt n { n_op = op; n_src = src; n_others =
                      others; n_st = st1; n_ctl = c }
                  in
                  ((app
                     (flat_map (fun i ->
                       match nth_error ups i with
                       | Some pp ->
                         (match find_ser i entries with
                          | Some o' -> (SubscribePipe ((snd pp), o')) :: []
                          | None -> [])
                       | None -> []) order)
                     (map (fun x -> Act (n, x)) (init_acts op src others))),
                  w6)
                | OTap t ->
                  let (ot, wt) = alloc_obs w4 (TTapLog t) in
                  let st1 = st_set_aux st ot in
                  let w6 =
                    set_node wt n { n_op = op; n_src = src; n_others =
                      others; n_st = st1; n_ctl = c }
                  in
                  ((app
                     (flat_map (fun i ->
                       match nth_error ups i with
                       | Some pp ->
                         (match find_ser i entries with
                          | Some o' -> (SubscribePipe ((snd pp), o')) :: []
                          | None -> [])
                       | None -> []) order)
                     (map (fun x -> Act (n, x)) (init_acts op src others))),
                  w6)
                | _ ->
                  let w6 =
                    set_node w4 n { n_op = op; n_src = src; n_others =
                      others; n_st = st; n_ctl = c }
                  in
                  ((app
                     (flat_map (fun i ->
                       match nth_error ups i with
                       | Some pp ->
                         (match find_ser i entries with
                          | Some o' -> (SubscribePipe ((snd pp), o')) :: []
                          | None -> [])
                       | None -> []) order)
                     (map (fun x -> Act (n, x)) (init_acts op src others))),
                  w6))
             | OSumAndCount ->
               let c = w.n_ctls in
               let n = w.n_nodes in
               let (ups, order) = plan op src others in
               let w1 = w_n_ctls (S c) (w_n_nodes (S n) w) in
               let w2 = set_obs w1 o (set_td (w1.obs o) (Some (TdFin c))) in
               let (entries, w3) =
                 fold_left (fun acc pp ->
                   let (es, wa) = acc in
                   let ser = length es in
                   let (o', wb) = alloc_obs wa (THandler (n, (fst pp), ser))
                   in
                   ((app es ((ser, o') :: [])), wb)) ups ([], w2)
               in
               let w4 =
                 set_ctl w3 c { c_sub = o; c_uns = entries; c_serial =
                   (length entries) }
               in
               let st = init_state op others in
               (match op with
                | OWindow _ ->
                  let (h, wt) = alloc_subj w4 KSubject None in
                  let st1 = st_set_subj st h in
                  let w6 =
                    set_node wt n { n_op = op; n_src = src; n_others =
                      others; n_st = st1; n_ctl = c }
                  in
                  ((app
                     (flat_map (fun i ->
                       match nth_error ups i with
                       | Some pp ->
                         (match find_ser i entries with
                          | Some o' -> (SubscribePipe ((snd pp), o')) :: []
                          | None -> [])
                       | None -> []) order)
                     (map (fun x -> Act (n, x)) (init_acts op src others))),
                  w6)
                | OTap t ->
                  let (ot, wt) = alloc_obs w4 (TTapLog t) in
                  let st1 = st_set_aux st ot in
                  let w6 =
                    set_node wt n { n_op = op; n_src = src; n_others =
                      others; n_st = st1; n_ctl = c }
                  in
                  ((app
                     (flat_map (fun i ->
                       match nth_error ups i with
                       | Some pp ->
                         (match find_ser i entries with
                          | Some o' -> (SubscribePipe ((snd pp), o')) :: []
                          | None -> [])
                       | None -> []) order)
                     (map (fun x -> Act (n, x)) (init_acts op src others))),
                  w6)
                | _ ->
                  let w6 =
                    set_node w4 n { n_op = op; n_src = src; n_others =
                      others; n_st = st; n_ctl = c }
                  in
                  ((app
                     (flat_map (fun i ->
                       match nth_error ups i with
                       | Some pp ->
                         (match find_ser i entries with
                          | Some o' -> (SubscribePipe ((snd pp), o')) :: []
                          | None -> [])
                       | None -> []) order)
                     (map (fun x -> Act (n, x)) (init_acts op src others))),
                  w6))
             | OMin ->
               let c = w.n_ctls in
               let n = w.n_nodes in
               let (ups, order) = plan op src others in
               let w1 = w_n_ctls (S c) (w_n_nodes (S n) w) in
               let w2 = set_obs w1 o (set_td (w1.obs o) (Some (TdFin c))) in
               let (entries, w3) =
                 fold_left (fun acc pp ->
                   let (es, wa) = acc in
                   let ser = length es in
                   let (o', wb) = alloc_obs wa (THandler (n, (fst pp), ser))
                   in
                   ((app es ((ser, o') :: [])), wb)) ups ([], w2)
               in
               let w4 =
                 set_ctl w3 c { c_sub = o; c_uns = entries; c_serial =
                   (length entries) }
               in
               let st = init_state op others in
               (match op with
                | OWindow _ ->
                  let (h, wt) = alloc_subj w4 KSubject None in
                  let st1 = st_set_subj st h in
                  let w6 =
                    set_node wt n { n_op = op; n_src = src; n_others =
                      others; n_st = st1; n_ctl = c }
                  in
                  ((app
                     (flat_map (fun i ->
                       match nth_error ups i with
                       | Some pp ->
                         (match find_ser i entries with
                          | Some o' -> (SubscribePipe ((snd pp), o')) :: []
                          | None -> [])
                       | None -> []) order)
                     (map (fun x -> Act (n, x)) (init_acts op src others))),
                  w6)
                | OTap t ->
                  let (ot, wt) = alloc_obs w4 (TTapLog t) in
                  let st1 = st_set_aux st ot in
                  let w6 =
                    set_node wt n { n_op = op; n_src = src; n_others =
                      others; n_st = st1; n_ctl = c }
                  in
                  ((app
                     (flat_map (fun i ->
                       match nth_error ups i with
                       | Some pp ->
                         (match find_ser i entries with
                          | Some o' -> (SubscribePipe ((snd pp), o')) :: []
                          | None -> [])
                       | None -> []) order)
                     (map (fun x -> Act (n, x)) (init_acts op src others))),
                  w6)
                | _ ->
                  let w6 =
                    set_node w4 n { n_op = op; n_src = src; n_others =
                      others; n_st = st; n_ctl = c }
                  in
                  ((app
                     (flat_map (fun i ->
                       match nth_error ups i with
                       | Some pp ->
                         (match find_ser i entries with
                          | Some o' -> (SubscribePipe ((snd pp), o')) :: []
                          | None -> [])
                       | None -> []) order)
                     (map (fun x -> Act (n, x)) (init_acts op src others))),
                  w6))
             | OMax ->
               let c = w.n_ctls in
               let n = w.n_nodes in
               let (ups, order) = plan op src others in
               let w1 = w_n_ctls (S c) (w_n_nodes (S n) w) in
               let w2 = set_obs w1 o (set_td (w1.obs o) (Some (TdFin c))) in
               let (entries, w3) =
                 fold_left (fun acc pp ->
                   let (es, wa) = acc in
                   let ser = length es in
                   let (o', wb) = alloc_obs wa (THandler (n, (fst pp), ser))
                   in
                   ((app es ((ser, o') :: [])), wb)) ups ([], w2)
               in
               let w4 =
                 set_ctl w3 c { c_sub = o; c_uns = entries; c_serial =
                   (length entries) }
               in
               let st = init_state op others in
               (match op with
                | OWindow _ ->
                  let (h, wt) = alloc_subj w4 KSubject None in
                  let st1 = st_set_subj st h in
                  let w6 =
                    set_node wt n { n_op = op; n_src = src; n_others =
                      others; n_st = st1; n_ctl = c }
                  in
                  ((app
                     (flat_map (fun i ->
                       match nth_error ups i with
                       | Some pp ->
                         (match find_ser i entries with
                          | Some o' -> (SubscribePipe ((snd pp), o')) :: []
                          | None -> [])
                       | None -> []) order)
                     (map (fun x -> Act (n, x)) (init_acts op src others))),
                  w6)
                | OTap t ->
                  let (ot, wt) = alloc_obs w4 (TTapLog t) in
                  let st1 = st_set_aux st ot in
                  let w6 =
                    set_node wt n { n_op = op; n_src = src; n_others =
                      others; n_st = st1; n_ctl = c }
                  in
                  ((app
                     (flat_map (fun i ->
                       match nth_error ups i with
                       | Some pp ->
                         (match find_ser i entries with
                          | Some o' -> (SubscribePipe ((snd pp), o')) :: []
                          | None -> [])
                       | None -> []) order)
                     (map (fun x -> Act (n, x)) (init_acts op src others))),
                  w6)
                | _ ->
                  let w6 =
                    set_node w4 n { n_op = op; n_src = src; n_others =
                      others; n_st = st; n_ctl = c }
                  in
                  ((app
                     (flat_map (fun i ->
                       match nth_error ups i with
                       | Some pp ->
                         (match find_ser i entries with
                          | Some o' -> (SubscribePipe ((snd pp), o')) :: []
                          | None -> [])
                       | None -> []) order)
                     (map (fun x -> Act (n, x)) (init_acts op src others))),
                  w6))
             | OAll _ ->
               let c = w.n_ctls in
               let n = w.n_nodes in
               let (ups, order) = plan op src others in
               let w1 = w_n_ctls (S c) (w_n_nodes (S n) w) in
               let w2 = set_obs w1 o (set_td (w1.obs o) (Some (TdFin c))) in
               let (entries, w3) =
                 fold_left (fun acc pp ->
                   let (es, wa) = acc in
                   let ser = length es in
                   let (o', wb) = alloc_obs wa (THandler (n, (fst pp), ser))
                   in
                   ((app es ((ser, o') :: [])), wb)) ups ([], w2)
               in
               let w4 =
                 set_ctl w3 c { c_sub = o; c_uns = entries; c_serial =
                   (length entries) }
               in
               let st = init_state op others in
               (match op with
                | OWindow _ ->
                  let (h, wt) = alloc_subj w4 KSubject None in
                  let st1 = st_set_subj st h in
                  let w6 =
                    set_node wt n { n_op = op; n_src = src; n_others =
                      others; n_st = st1; n_ctl = c }
                  in
                  ((app
                     (flat_map (fun i ->
                       match nth_error ups i with
                       | Some pp ->
                         (match find_ser i entries with
                          | Some o' -> (SubscribePipe ((snd pp), o')) :: []
                          | None -> [])
                       | None -> []) order)
                     (map (fun x -> Act (n, x)) (init_acts op src others))),
                  w6)
                | OTap t ->
                  let (ot, wt) = alloc_obs w4 (TTapLog t) in
                  let st1 = st_set_aux st ot in
                  let w6 =
                    set_node wt n { n_op = op; n_src = src; n_others =
                      others; n_st = st1; n_ctl = c }
                  in
                  ((app
                     (flat_map (fun i ->
                       match nth_error ups i with
                       | Some pp ->
                         (match find_ser i entries with
                          | Some o' -> (SubscribePipe ((snd pp), o')) :: []
                          | None -> [])
                       | None -> []) order)
                     (map (fun x -> Act (n, x)) (init_acts op src others))),
                  w6)
                | _ ->
                  let w6 =
                    set_node w4 n { n_op = op; n_src = src; n_others =
                      others; n_st = st; n_ctl = c }
                  in
                  ((app
                     (flat_map (fun i ->
                       match nth_error ups i with
                       | Some pp ->
                         (match find_ser i entries with
                          | Some o' -> (SubscribePipe ((snd pp), o')) :: []
                          | None -> [])
                       | None -> []) order)
                     (map (fun x -> Act (n, x)) (init_acts op src others))),
                  w6))
             | OContains _ ->
               let c = w.n_ctls in
               let n = w.n_nodes in
               let (ups, order) = plan op src others in
               let w1 = w_n_ctls (S c) (w_n_nodes (S n) w) in
               let w2 = set_obs w1 o (set_td (w1.obs o) (Some (TdFin c))) in
               let (entries, w3) =
                 fold_left (fun acc pp ->
                   let (es, wa) = acc in
                   let ser = length es in
                   let (o', wb) = alloc_obs wa (THandler (n, (fst pp), ser))
                   in
                   ((app es ((ser, o') :: [])), wb)) ups ([], w2)
               in
               let w4 =
                 set_ctl w3 c { c_sub = o; c_uns = entries; c_serial =
                   (length entries) }
               in
               let st = init_state op others in
               (match op with
                | OWindow _ ->
                  let (h, wt) = alloc_subj w4 KSubject None in
                  let st1 = st_set_subj st h in
                  let w6 =
                    set_node wt n { n_op = op; n_src = src; n_others =
                      others; n_st = st1; n_ctl = c }
                  in
                  ((app
                     (flat_map (fun i ->
                       match nth_error ups i with
                       | Some pp ->
                         (match find_ser i entries with
                          | Some o' -> (SubscribePipe ((snd pp), o')) :: []
                          | None -> [])
                       | None -> []) order)
                     (map (fun x -> Act (n, x)) (init_acts op src others))),
                  w6)
                | OTap t ->
                  let (ot, wt) = alloc_obs w4 (TTapLog t) in
                  let st1 = st_set_aux st ot in
                  let w6 =
                    set_node wt n { n_op = op; n_src = src; n_others =
                      others; n_st = st1; n_ctl = c }
                  in
                  ((app
                     (flat_map (fun i ->
                       match nth_error ups i with
                       | Some pp ->
                         (match find_ser i entries with
                          | Some o' -> (SubscribePipe ((snd pp), o')) :: []
                          | None -> [])
                       | None -> []) order)
                     (map (fun x -> Act (n, x)) (init_acts op src others))),
                  w6)
                | _ ->
                  let w6 =
                    set_node w4 n { n_op = op; n_src = src; n_others =
                      others; n_st = st; n_ctl = c }
                  in
                  ((app
                     (flat_map (fun i ->
                       match nth_error ups i with
                       | Some pp ->
                         (match find_ser i entries with
                          | Some o' -> (SubscribePipe ((snd pp), o')) :: []
                          | None -> [])
                       | None -> []) order)
                     (map (fun x -> Act (n, x)) (init_acts op src others))),
                  w6))
             | ODefaultIfEmpty _ ->
               let c = w.n_ctls in
               let n = w.n_nodes in
               let (ups, order) = plan op src others in
               let w1 = w_n_ctls (S c) (w_n_nodes (S n) w) in
               let w2 = set_obs w1 o (set_td (w1.obs o) (Some (TdFin c))) in
               let (entries, w3) =
                 fold_left (fun acc pp ->
                   let (es, wa) = acc in
                   let ser = length es in
                   let (o', wb) = alloc_obs wa (THandler (n, (fst pp), ser))
                   in
                   ((app es ((ser, o') :: [])), wb)) ups ([], w2)
               in
               let w4 =
                 set_ctl w3 c { c_sub = o; c_uns = entries; c_serial =
                   (length entries) }
               in
               let st = init_state op others in
               (match op with
                | OWindow _ ->
                  let (h, wt) = alloc_subj w4 KSubject None in
                  let st1 = st_set_subj st h in
                  let w6 =
                    set_node wt n { n_op = op; n_src = src; n_others =
                      others; n_st = st1; n_ctl = c }
                  in
                  ((app
                     (flat_map (fun i ->
                       match nth_error ups i with
                       | Some pp ->
                         (match find_ser i entries with
                          | Some o' -> (SubscribePipe ((snd pp), o')) :: []
                          | None -> [])
                       | None -> []) order)
                     (map (fun x -> Act (n, x)) (init_acts op src others))),
                  w6)
                | OTap t ->
                  let (ot, wt) = alloc_obs w4 (TTapLog t) in
                  let st1 = st_set_aux st ot in
                  let w6 =
                    set_node wt n { n_op = op; n_src = src; n_others =
                      others; n_st = st1; n_ctl = c }
                  in
                  ((app
                     (flat_map (fun i ->
                       match nth_error ups i with
                       | Some pp ->
                         (match find_ser i entries with
                          | Some o' -> (SubscribePipe ((snd pp), o')) :: []
                          | None -> [])
                       | None -> []) order)
                     (map (fun x -> Act (n, x)) (init_acts op src others))),
                  w6)
                | _ ->
                  let w6 =
                    set_node w4 n { n_op = op; n_src = src; n_others =
                      others; n_st = st; n_ctl = c }
                  in
                  ((app
                     (flat_map (fun i ->
                       match nth_error ups i with
                       | Some pp ->
                         (match find_ser i entries with
                          | Some o' -> (SubscribePipe ((snd pp), o')) :: []
                          | None -> [])
                       | None -> []) order)
                     (map (fun x -> Act (n, x)) (init_acts op src others))),
                  w6))
             | OIgnore ->
               let c = w.n_ctls in
               let n = w.n_nodes in
               let (ups, order) = plan op src others in
               let w1 = w_n_ctls (S c) (w_n_nodes (S n) w) in
               let w2 = set_obs w1 o (set_td (w1.obs o) (Some (TdFin c))) in
               let (entries, w3) =
                 fold_left (fun acc pp ->
                   let (es, wa) = acc in
                   let ser = length es in
                   let (o', wb) = alloc_obs wa (THandler (n, (fst pp), ser))
                   in
                   ((app es ((ser, o') :: [])), wb)) ups ([], w2)
               in
               let w4 =
                 set_ctl w3 c { c_sub = o; c_uns = entries; c_serial =
                   (length entries) }
               in
               let st = init_state op others in
               (match op with
                | OWindow _ ->
                  let (h, wt) = alloc_subj w4 KSubject None in
                  let st1 = st_set_subj st h in
                  let w6 =
                    set_node wt n { n_op = op; n_src = src; n_others =
                      others; n_st = st1; n_ctl = c }
                  in
                  ((app
                     (flat_map (fun i ->
                       match nth_error ups i with
                       | Some pp ->
                         (match find_ser i entries with
                          | Some o' -> (SubscribePipe ((snd pp), o')) :: []
                          | None -> [])
                       | None -> []) order)
                     (map (fun x -> Act (n, x)) (init_acts op src others))),
                  w6)
                | OTap t ->
                  let (ot, wt) = alloc_obs w4 (TTapLog t) in
                  let st1 = st_set_aux st ot in
                  let w6 =
                    set_node wt n { n_op = op; n_src = src; n_others =
                      others; n_st = st1; n_ctl = c }
                  in
                  ((app
                     (flat_map (fun i ->
                       match nth_error ups i with
                       | Some pp ->
                         (match find_ser i entries with
                          | Some o' -> (SubscribePipe ((snd pp), o')) :: []
                          | None -> [])
                       | None -> []) order)
                     (map (fun x -> Act (n, x)) (init_acts op src others))),
                  w6)
                | _ ->
                  let w6 =
                    set_node w4 n { n_op = op; n_src = src; n_others =
                      others; n_st = st; n_ctl = c }
                  in
                  ((app
                     (flat_map (fun i ->
                       match nth_error ups i with
                       | Some pp ->
                         (match find_ser i entries with
                          | Some o' -> (SubscribePipe ((snd pp), o')) :: []
                          | None -> [])
                       | None -> []) order)
                     (map (fun x -> Act (n, x)) (init_acts op src others))),
                  w6))
             | OStartWith l -> (((StartWith (o, l, src)) :: []), w)
             | OBuffer _ ->
               let c = w.n_ctls in
               let n = w.n_nodes in
               let (ups, order) = plan op src others in
               let w1 = w_n_ctls (S c) (w_n_nodes (S n) w) in
               let w2 = set_obs w1 o (set_td (w1.obs o) (Some (TdFin c))) in
               let (entries, w3) =
                 fold_left (fun acc pp ->
                   let (es, wa) = acc in
                   let ser = length es in
                   let (o', wb) = alloc_obs wa (THandler (n, (fst pp), ser))
                   in
                   ((app es ((ser, o') :: [])), wb)) ups ([], w2)
               in
               let w4 =
                 set_ctl w3 c { c_sub = o; c_uns = entries; c_serial =
                   (length entries) }
               in
               let st = init_state op others in
               (match op with
                | OWindow _ ->
                  let (h, wt) = alloc_subj w4 KSubject None in
                  let st1 = st_set_subj st h in
                  let w6 =
                    set_node wt n { n_op = op; n_src = src; n_others =
                      others; n_st = st1; n_ctl = c }
                  in
                  ((app
                     (flat_map (fun i ->
                       match nth_error ups i with
                       | Some pp ->
                         (match find_ser i entries with
                          | Some o' -> (SubscribePipe ((snd pp), o')) :: []
                          | None -> [])
                       | None -> []) order)
                     (map (fun x -> Act (n, x)) (init_acts op src others))),
                  w6)
                | OTap t ->
                  let (ot, wt) = alloc_obs w4 (TTapLog t) in
                  let st1 = st_set_aux st ot in
                  let w6 =
                    set_node wt n { n_op = op; n_src = src; n_others =
                      others; n_st = st1; n_ctl = c }
                  in
                  ((app
                     (flat_map (fun i ->
                       match nth_error ups i with
                       | Some pp ->
                         (match find_ser i entries with
                          | Some o' -> (SubscribePipe ((snd pp), o')) :: []
                          | None -> [])
                       | None -> []) order)
                     (map (fun x -> Act (n, x)) (init_acts op src others))),
                  w6)
                | _ ->
                  let w6 =
                    set_node w4 n { n_op = op; n_src = src; n_others =
                      others; n_st = st; n_ctl = c }
                  in
                  ((app
                     (flat_map (fun i ->
                       match nth_error ups i with
                       | Some pp ->
                         (match find_ser i entries with
                          | Some o' -> (SubscribePipe ((snd pp), o')) :: []
                          | None -> [])
                       | None -> []) order)
                     (map (fun x -> Act (n, x)) (init_acts op src others))),
                  w6))
             | OWindow _ ->
               let c = w.n_ctls in
               let n = w.n_nodes in
               let (ups, order) = plan op src others in
               let w1 = w_n_ctls (S c) (w_n_nodes (S n) w) in
               let w2 = set_obs w1 o (set_td (w1.obs o) (Some (TdFin c))) in
               let (entries, w3) =
                 fold_left (fun acc pp ->
                   let (es, wa) = acc in
                   let ser = length es in
                   let (o', wb) = alloc_obs wa (THandler (n, (fst pp), ser))
                   in
                   ((app es ((ser, o') :: [])), wb)) ups ([], w2)
               in
               let w4 =
                 set_ctl w3 c { c_sub = o; c_uns = entries; c_serial =
                   (length entries) }
               in
               let st = init_state op others in
               (match op with
                | OWindow _ ->
                  let (h, wt) = alloc_subj w4 KSubject None in
                  let st1 = st_set_subj st h in
                  let w6 =
                    set_node wt n { n_op = op; n_src = src; n_others =
                      others; n_st = st1; n_ctl = c }
                  in
                  ((app
                     (flat_map (fun i ->
                       match nth_error ups i with
                       | Some pp ->
                         (match find_ser i entries with
                          | Some o' -> (SubscribePipe ((snd pp), o')) :: []
                          | None -> [])
                       | None -> []) order)
                     (map (fun x -> Act (n, x)) (init_acts op src others))),
                  w6)
                | OTap t ->
                  let (ot, wt) = alloc_obs w4 (TTapLog t) in
                  let st1 = st_set_aux st ot in
                  let w6 =
                    set_node wt n { n_op = op; n_src = src; n_others =
                      others; n_st = st1; n_ctl = c }
                  in
                  ((app
                     (flat_map (fun i ->
                       match nth_error ups i with
                       | Some pp ->
                         (match find_ser i entries with
                          | Some o' -> (SubscribePipe ((snd pp), o')) :: []
                          | None -> [])
                       | None -> []) order)
                     (map (fun x -> Act (n, x)) (init_acts op src others))),
                  w6)
                | _ ->
                  let w6 =
                    set_node w4 n { n_op = op; n_src = src; n_others =
                      others; n_st = st; n_ctl = c }
                  in
                  ((app
                     (flat_map (fun i ->
                       match nth_error ups i with
                       | Some pp ->
                         (match find_ser i entries with
                          | Some o' -> (SubscribePipe ((snd pp), o')) :: []
                          | None -> [])
                       | None -> []) order)
                     (map (fun x -> Act (n, x)) (init_acts op src others))),
                  w6))
             | OGroupBy _ ->
               let c = w.n_ctls in
               let n = w.n_nodes in
               let (ups, order) = plan op src others in
               let w1 = w_n_ctls (S c) (w_n_nodes (S n) w) in
               let w2 = set_obs w1 o (set_td (w1.obs o) (Some (TdFin c))) in
               let (entries, w3) =
                 fold_left (fun acc pp ->
                   let (es, wa) = acc in
                   let ser = length es in
                   let (o', wb) = alloc_obs wa (THandler (n, (fst pp), ser))
                   in
                   ((app es ((ser, o') :: [])), wb)) ups ([], w2)
               in
               let w4 =
                 set_ctl w3 c { c_sub = o; c_uns = entries; c_serial =
                   (length entries) }
               in
               let st = init_state op others in
               (match op with
                | OWindow _ ->
                  let (h, wt) = alloc_subj w4 KSubject None in
                  let st1 = st_set_subj st h in
                  let w6 =
                    set_node wt n { n_op = op; n_src = src; n_others =
                      others; n_st = st1; n_ctl = c }
                  in
                  ((app
                     (flat_map (fun i ->
                       match nth_error ups i with
                       | Some pp ->
                         (match find_ser i entries with
                          | Some o' -> (SubscribePipe ((snd pp), o')) :: []
                          | None -> [])
                       | None -> []) order)
                     (map (fun x -> Act (n, x)) (init_acts op src others))),
                  w6)
                | OTap t ->
                  let (ot, wt) = alloc_obs w4 (TTapLog t) in
                  let st1 = st_set_aux st ot in
                  let w6 =
                    set_node wt n { n_op = op; n_src = src; n_others =
                      others; n_st = st1; n_ctl = c }
                  in
                  ((app
                     (flat_map (fun i ->
                       match nth_error ups i with
                       | Some pp ->
                         (match find_ser i entries with
                          | Some o' -> (SubscribePipe ((snd pp), o')) :: []
                          | None -> [])
                       | None -> []) order)
                     (map (fun x -> Act (n, x)) (init_acts op src others))),
                  w6)
                | _ ->
                  let w6 =
                    set_node w4 n { n_op = op; n_src = src; n_others =
                      others; n_st = st; n_ctl = c }
                  in
                  ((app
                     (flat_map (fun i ->
                       match nth_error ups i with
                       | Some pp ->
                         (match find_ser i entries with
                          | Some o' -> (SubscribePipe ((snd pp), o')) :: []
                          | None -> [])
                       | None -> []) order)
                     (map (fun x -> Act (n, x)) (init_acts op src others))),
                  w6))
             | OMaterialize ->
               let c = w.n_ctls in
               let n = w.n_nodes in
               let (ups, order) = plan op src others in
               let w1 = w_n_ctls (S c) (w_n_nodes (S n) w) in
               let w2 = set_obs w1 o (set_td (w1.obs o) (Some (TdFin c))) in
               let (entries, w3) =
                 fold_left (fun acc pp ->
                   let (es, wa) = acc in
                   let ser = length es in
                   let (o', wb) = alloc_obs wa (THandler (n, (fst pp), ser))
                   in
                   ((app es ((ser, o') :: [])), wb)) ups ([], w2)
               in
               let w4 =
                 set_ctl w3 c { c_sub = o; c_uns = entries; c_serial =
                   (length entries) }
               in
               let st = init_state op others in
               (match op with
                | OWindow _ ->
                  let (h, wt) = alloc_subj w4 KSubject None in
                  let st1 = st_set_subj st h in
                  let w6 =
                    set_node wt n { n_op = op; n_src = src; n_others =
                      others; n_st = st1; n_ctl = c }
                  in
                  ((app
                     (flat_map (fun i ->
                       match nth_error ups i with
                       | Some pp ->
                         (match find_ser i entries with
                          | Some o' -> (SubscribePipe ((snd pp), o')) :: []
                          | None -> [])
                       | None -> []) order)
                     (map (fun x -> Act (n, x)) (init_acts op src others))),
                  w6)
                | OTap t ->
                  let (ot, wt) = alloc_obs w4 (TTapLog t) in
                  let st1 = st_set_aux st ot in
                  let w6 =
                    set_node wt n { n_op = op; n_src = src; n_others =
                      others; n_st = st1; n_ctl = c }
                  in
                  ((app
                     (flat_map (fun i ->
                       match nth_error ups i with
                       | Some pp ->
                         (match find_ser i entries with
                          | Some o' -> (SubscribePipe ((snd pp), o')) :: []
                          | None -> [])
                       | None -> []) order)
                     (map (fun x -> Act (n, x)) (init_acts op src others))),
                  w6)
                | _ ->
                  let w6 =
                    set_node w4 n { n_op = op; n_src = src; n_others =
                      others; n_st = st; n_ctl = c }
                  in
                  ((app
                     (flat_map (fun i ->
                       match nth_error ups i with
                       | Some pp ->
                         (match find_ser i entries with
                          | Some o' -> (SubscribePipe ((snd pp), o')) :: []
                          | None -> [])
                       | None -> []) order)
                     (map (fun x -> Act (n, x)) (init_acts op src others))),
                  w6))
             | ODematerialize ->
               let c = w.n_ctls in
               let n = w.n_nodes in
               let (ups, order) = plan op src others in
               let w1 = w_n_ctls (S c) (w_n_nodes (S n) w) in
               let w2 = set_obs w1 o (set_td (w1.obs o) (Some (TdFin c))) in
               let (entries, w3) =
                 fold_left (fun acc pp ->
                   let (es, wa) = acc in
                   let ser = length es in
                   let (o', wb) = alloc_obs wa (THandler (n, (fst pp), ser))
                   in
                   ((app es ((ser, o') :: [])), wb)) ups ([], w2)
               in
               let w4 =
                 set_ctl w3 c { c_sub = o; c_uns = entries; c_serial =
                   (length entries) }
               in
               let st = init_state op others in
               (match op with
                | OWindow _ ->
                  let (h, wt) = alloc_subj w4 KSubject None in
                  let st1 = st_set_subj st h in
                  let w6 =
                    set_node wt n { n_op = op; n_src = src; n_others =
                      others; n_st = st1; n_ctl = c }
                  in
                  ((app
                     (flat_map (fun i ->
                       match nth_error ups i with
                       | Some pp ->
                         (match find_ser i entries with
                          | Some o' -> (SubscribePipe ((snd pp), o')) :: []
                          | None -> [])
                       | None -> []) order)
                     (map (fun x -> Act (n, x)) (init_acts op src others))),
                  w6)
                | OTap t ->
                  let (ot, wt) = alloc_obs w4 (TTapLog t) in
                  let st1 = st_set_aux st ot in
                  let w6 =
                    set_node wt n { n_op = op; n_src = src; n_others =
                      others; n_st = st1; n_ctl = c }
                  in
                  ((app
                     (flat_map (fun i ->
                       match nth_error ups i with
                       | Some pp ->
                         (match find_ser i entries with
                          | Some o' -> (SubscribePipe ((snd pp), o')) :: []
                          | None -> [])
                       | None -> []) order)
                     (map (fun x -> Act (n, x)) (init_acts op src others))),
                  w6)
                | _ ->
                  let w6 =
                    set_node w4 n { n_op = op; n_src = src; n_others =
                      others; n_st = st; n_ctl = c }
                  in
                  ((app
                     (flat_map (fun i ->
                       match nth_error ups i with
                       | Some pp ->
                         (match find_ser i entries with
                          | Some o' -> (SubscribePipe ((snd pp), o')) :: []
                          | None -> [])
                       | None -> []) order)
                     (map (fun x -> Act (n, x)) (init_acts op src others))),
                  w6))
             | OTap _ ->
               let c = w.n_ctls in
               let n = w.n_nodes in
               let (ups, order) = plan op src others in
               let w1 = w_n_ctls (S c) (w_n_nodes (S n) w) in
               let w2 = set_obs w1 o (set_td (w1.obs o) (Some (TdFin c))) in
               let (entries, w3) =
                 fold_left (fun acc pp ->
                   let (es, wa) = acc in
                   let ser = length es in
                   let (o', wb) = alloc_obs wa (THandler (n, (fst pp), ser))
                   in
                   ((app es ((ser, o') :: [])), wb)) ups ([], w2)
               in
               let w4 =
                 set_ctl w3 c { c_sub = o; c_uns = entries; c_serial =
                   (length entries) }
               in
               let st = init_state op others in
               (match op with
                | OWindow _ ->
                  let (h, wt) = alloc_subj w4 KSubject None in
                  let st1 = st_set_subj st h in
                  let w6 =
                    set_node wt n { n_op = op; n_src = src; n_others =
                      others; n_st = st1; n_ctl = c }
                  in
                  ((app
                     (flat_map (fun i ->
                       match nth_error ups i with
                       | Some pp ->
                         (match find_ser i entries with
                          | Some o' -> (SubscribePipe ((snd pp), o')) :: []
                          | None -> [])
                       | None -> []) order)
                     (map (fun x -> Act (n, x)) (init_acts op src others))),
                  w6)
                | OTap t ->
                  let (ot, wt) = alloc_obs w4 (TTapLog t) in
                  let st1 = st_set_aux st ot in
                  let w6 =
                    set_node wt n { n_op = op; n_src = src; n_others =
                      others; n_st = st1; n_ctl = c }
                  in
                  ((app
                     (flat_map (fun i ->
                       match nth_error ups i with
                       | Some pp ->
                         (match find_ser i entries with
                          | Some o' -> (SubscribePipe ((snd pp), o')) :: []
                          | None -> [])
                       | None -> []) order)
                     (map (fun x -> Act (n, x)) (init_acts op src others))),
                  w6)
                | _ ->
                  let w6 =
                    set_node w4 n { n_op = op; n_src = src; n_others =
                      others; n_st = st; n_ctl = c }
                  in
                  ((app
                     (flat_map (fun i ->
                       match nth_error ups i with
                       | Some pp ->
                         (match find_ser i entries with
                          | Some o' -> (SubscribePipe ((snd pp), o')) :: []
                          | None -> [])
                       | None -> []) order)
                     (map (fun x -> Act (n, x)) (init_acts op src others))),
                  w6))
             | OMapToAny ->
               let c = w.n_ctls in
               let n = w.n_nodes in
               let (ups, order) = plan op src others in
               let w1 = w_n_ctls (S c) (w_n_nodes (S n) w) in
               let w2 = set_obs w1 o (set_td (w1.obs o) (Some (TdFin c))) in
               let (entries, w3) =
                 fold_left (fun acc pp ->
                   let (es, wa) = acc in
                   let ser = length es in
                   let (o', wb) = alloc_obs wa (THandler (n, (fst pp), ser))
                   in
                   ((app es ((ser, o') :: [])), wb)) ups ([], w2)
               in
               let w4 =
                 set_ctl w3 c { c_sub = o; c_uns = entries; c_serial =
                   (length entries) }
               in
               let st = init_state op others in
               (match op with
                | OWindow _ ->
                  let (h, wt) = alloc_subj w4 KSubject None in
                  let st1 = st_set_subj st h in
                  let w6 =
                    set_node wt n { n_op = op; n_src = src; n_others =
                      others; n_st = st1; n_ctl = c }
                  in
                  ((app
                     (flat_map (fun i ->
                       match nth_error ups i with
                       | Some pp ->
                         (match find_ser i entries with
                          | Some o' -> (SubscribePipe ((snd pp), o')) :: []
                          | None -> [])
                       | None -> []) order)
                     (map (fun x -> Act (n, x)) (init_acts op src others))),
                  w6)
                | OTap t ->
                  let (ot, wt) = alloc_obs w4 (TTapLog t) in
                  let st1 = st_set_aux st ot in
                  let w6 =
                    set_node wt n { n_op = op; n_src = src; n_others =
                      others; n_st = st1; n_ctl = c }
                  in
                  ((app
                     (flat_map (fun i ->
                       match nth_error ups i with
                       | Some pp ->
                         (match find_ser i entries with
                          | Some o' -> (SubscribePipe ((snd pp), o')) :: []
                          | None -> [])
                       | None -> []) order)
                     (map (fun x -> Act (n, x)) (init_acts op src others))),
                  w6)
                | _ ->
                  let w6 =
                    set_node w4 n { n_op = op; n_src = src; n_others =
                      others; n_st = st; n_ctl = c }
                  in
                  ((app
                     (flat_map (fun i ->
                       match nth_error ups i with
                       | Some pp ->
                         (match find_ser i entries with
                          | Some o' -> (SubscribePipe ((snd pp), o')) :: []
                          | None -> [])
                       | None -> []) order)
                     (map (fun x -> Act (n, x)) (init_acts op src others))),
                  w6))
             | OMerge ->
               let c = w.n_ctls in
               let n = w.n_nodes in
               let (ups, order) = plan op src others in
               let w1 = w_n_ctls (S c) (w_n_nodes (S n) w) in
               let w2 = set_obs w1 o (set_td (w1.obs o) (Some (TdFin c))) in
               let (entries, w3) =
                 fold_left (fun acc pp ->
                   let (es, wa) = acc in
                   let ser = length es in
                   let (o', wb) = alloc_obs wa (THandler (n, (fst pp), ser))
                   in
                   ((app es ((ser, o') :: [])), wb)) ups ([], w2)
               in
               let w4 =
                 set_ctl w3 c { c_sub = o; c_uns = entries; c_serial =
                   (length entries) }
               in
               let st = init_state op others in
               (match op with
                | OWindow _ ->
                  let (h, wt) = alloc_subj w4 KSubject None in
                  let st1 = st_set_subj st h in
                  let w6 =
                    set_node wt n { n_op = op; n_src = src; n_others =
                      others; n_st = st1; n_ctl = c }
                  in
                  ((app
                     (flat_map (fun i ->
                       match nth_error ups i with
                       | Some pp ->
                         (match find_ser i entries with
                          | Some o' -> (SubscribePipe ((snd pp), o')) :: []
                          | None -> [])
                       | None -> []) order)
                     (map (fun x -> Act (n, x)) (init_acts op src others))),
                  w6)
                | OTap t ->
                  let (ot, wt) = alloc_obs w4 (TTapLog t) in
                  let st1 = st_set_aux st ot in
                  let w6 =
                    set_node wt n { n_op = op; n_src = src; n_others =
                      others; n_st = st1; n_ctl = c }
                  in
                  ((app
                     (flat_map (fun i ->
                       match nth_error ups i with
                       | Some pp ->
                         (match find_ser i entries with
                          | Some o' -> (SubscribePipe ((snd pp), o')) :: []
                          | None -> [])
                       | None -> []) order)
                     (map (fun x -> Act (n, x)) (init_acts op src others))),
                  w6)
                | _ ->
                  let w6 =
                    set_node w4 n { n_op = op; n_src = src; n_others =
                      others; n_st = st; n_ctl = c }
                  in
                  ((app
                     (flat_map (fun i ->
                       match nth_error ups i with
                       | Some pp ->
                         (match find_ser i entries with
                          | Some o' -> (SubscribePipe ((snd pp), o')) :: []
                          | None -> [])
                       | None -> []) order)
                     (map (fun x -> Act (n, x)) (init_acts op src others))),
                  w6))
             | OFlatMap _ ->
               let c = w.n_ctls in
               let n = w.n_nodes in
               let (ups, order) = plan op src others in
               let w1 = w_n_ctls (S c) (w_n_nodes (S n) w) in
               let w2 = set_obs w1 o (set_td (w1.obs o) (Some (TdFin c))) in
               let (entries, w3) =
                 fold_left (fun acc pp ->
                   let (es, wa) = acc in
                   let ser = length es in
                   let (o', wb) = alloc_obs wa (THandler (n, (fst pp), ser))
                   in
                   ((app es ((ser, o') :: [])), wb)) ups ([], w2)
               in
               let w4 =
                 set_ctl w3 c { c_sub = o; c_uns = entries; c_serial =
                   (length entries) }
               in
               let st = init_state op others in
               (match op with
                | OWindow _ ->
                  let (h, wt) = alloc_subj w4 KSubject None in
                  let st1 = st_set_subj st h in
                  let w6 =
                    set_node wt n { n_op = op; n_src = src; n_others =
                      others; n_st = st1; n_ctl = c }
                  in
                  ((app
                     (flat_map (fun i ->
                       match nth_error ups i with
                       | Some pp ->
                         (match find_ser i entries with
                          | Some o' -> (SubscribePipe ((snd pp), o')) :: []
                          | None -> [])
                       | None -> []) order)
                     (map (fun x -> Act (n, x)) (init_acts op src others))),
                  w6)
                | OTap t ->
                  let (ot, wt) = alloc_obs w4 (TTapLog t) in
                  let st1 = st_set_aux st ot in
                  let w6 =
                    set_node wt n { n_op = op; n_src = src; n_others =
                      others; n_st = st1; n_ctl = c }
                  in
                  ((app
                     (flat_map (fun i ->
                       match nth_error ups i with
                       | Some pp ->
                         (match find_ser i entries with
                          | Some o' -> (SubscribePipe ((snd pp), o')) :: []
                          | None -> [])
                       | None -> []) order)
                     (map (fun x -> Act (n, x)) (init_acts op src others))),
                  w6)
                | _ ->
                  let w6 =
                    set_node w4 n { n_op = op; n_src = src; n_others =
                      others; n_st = st; n_ctl = c }
                  in
                  ((app
                     (flat_map (fun i ->
                       match nth_error ups i with
                       | Some pp ->
                         (match find_ser i entries with
                          | Some o' -> (SubscribePipe ((snd pp), o')) :: []
                          | None -> [])
                       | None -> []) order)
                     (map (fun x -> Act (n, x)) (init_acts op src others))),
                  w6))
             | OConcat ->
               let c = w.n_ctls in
               let n = w.n_nodes in
               let (ups, order) = plan op src others in
               let w1 = w_n_ctls (S c) (w_n_nodes (S n) w) in
               let w2 = set_obs w1 o (set_td (w1.obs o) (Some (TdFin c))) in
               let (entries, w3) =
                 fold_left (fun acc pp ->
                   let (es, wa) = acc in
                   let ser = length es in
                   let (o', wb) = alloc_obs wa (THandler (n, (fst pp), ser))
                   in
                   ((app es ((ser, o') :: [])), wb)) ups ([], w2)
               in
               let w4 =
                 set_ctl w3 c { c_sub = o; c_uns = entries; c_serial =
                   (length entries) }
               in
               let st = init_state op others in
               (match op with
                | OWindow _ ->
                  let (h, wt) = alloc_subj w4 KSubject None in
                  let st1 = st_set_subj st h in
                  let w6 =
                    set_node wt n { n_op = op; n_src = src; n_others =
                      others; n_st = st1; n_ctl = c }
                  in
                  ((app
                     (flat_map (fun i ->
                       match nth_error ups i with
                       | Some pp ->
                         (match find_ser i entries with
                          | Some o' -> (SubscribePipe ((snd pp), o')) :: []
                          | None -> [])
                       | None -> []) order)
                     (map (fun x -> Act (n, x)) (init_acts op src others))),
                  w6)
                | OTap t ->
                  let (ot, wt) = alloc_obs w4 (TTapLog t) in
                  let st1 = st_set_aux st ot in
                  let w6 =
                    set_node wt n { n_op = op; n_src = src; n_others =
                      others; n_st = st1; n_ctl = c }
                  in
                  ((app
                     (flat_map (fun i ->
                       match nth_error ups i with
                       | Some pp ->
                         (match find_ser i entries with
                          | Some o' -> (SubscribePipe ((snd pp), o')) :: []
                          | None -> [])
                       | None -> []) order)
                     (map (fun x -> Act (n, x)) (init_acts op src others))),
                  w6)
                | _ ->
                  let w6 =
                    set_node w4 n { n_op = op; n_src = src; n_others =
                      others; n_st = st; n_ctl = c }
                  in
                  ((app
                     (flat_map (fun i ->
                       match nth_error ups i with
                       | Some pp ->
                         (match find_ser i entries with
                          | Some o' -> (SubscribePipe ((snd pp), o')) :: []
                          | None -> [])
                       | None -> []) order)
                     (map (fun x -> Act (n, x)) (init_acts op src others))),
                  w6))
             | OZip ->
               let c = w.n_ctls in
               let n = w.n_nodes in
               let (ups, order) = plan op src others in
               let w1 = w_n_ctls (S c) (w_n_nodes (S n) w) in
               let w2 = set_obs w1 o (set_td (w1.obs o) (Some (TdFin c))) in
               let (entries, w3) =
                 fold_left (fun acc pp ->
                   let (es, wa) = acc in
                   let ser = length es in
                   let (o', wb) = alloc_obs wa (THandler (n, (fst pp), ser))
                   in
                   ((app es ((ser, o') :: [])), wb)) ups ([], w2)
               in
               let w4 =
                 set_ctl w3 c { c_sub = o; c_uns = entries; c_serial =
                   (length entries) }
               in
               let st = init_state op others in
               (match op with
                | OWindow _ ->
                  let (h, wt) = alloc_subj w4 KSubject None in
                  let st1 = st_set_subj st h in
                  let w6 =
                    set_node wt n { n_op = op; n_src = src; n_others =
                      others; n_st = st1; n_ctl = c }
                  in
                  ((app
                     (flat_map (fun i ->
                       match nth_error ups i with
                       | Some pp ->
                         (match find_ser i entries with
                          | Some o' -> (SubscribePipe ((snd pp), o')) :: []
                          | None -> [])
                       | None -> []) order)
                     (map (fun x -> Act (n, x)) (init_acts op src others))),
                  w6)
                | OTap t ->
                  let (ot, wt) = alloc_obs w4 (TTapLog t) in
                  let st1 = st_set_aux st ot in
                  let w6 =
                    set_node wt n { n_op = op; n_src = src; n_others =
                      others; n_st = st1; n_ctl = c }
                  in
                  ((app
                     (flat_map (fun i ->
                       match nth_error ups i with
                       | Some pp ->
                         (match find_ser i entries with
                          | Some o' -> (SubscribePipe ((snd pp), o')) :: []
                          | None -> [])
                       | None -> []) order)
                     (map (fun x -> Act (n, x)) (init_acts op src others))),
                  w6)
                | _ ->
                  let w6 =
                    set_node w4 n { n_op = op; n_src = src; n_others =
                      others; n_st = st; n_ctl = c }
                  in
                  ((app
                     (flat_map (fun i ->
                       match nth_error ups i with
                       | Some pp ->
                         (match find_ser i entries with
                          | Some o' -> (SubscribePipe ((snd pp), o')) :: []
                          | None -> [])
                       | None -> []) order)
                     (map (fun x -> Act (n, x)) (init_acts op src others))),
                  w6))
             | OCombineLatest _ ->
               let c = w.n_ctls in
               let n = w.n_nodes in
               let (ups, order) = plan op src others in
               let w1 = w_n_ctls (S c) (w_n_nodes (S n) w) in
               let w2 = set_obs w1 o (set_td (w1.obs o) (Some (TdFin c))) in
               let (entries, w3) =
                 fold_left (fun acc pp ->
                   let (es, wa) = acc in
                   let ser = length es in
                   let (o', wb) = alloc_obs wa (THandler (n, (fst pp), ser))
                   in
                   ((app es ((ser, o') :: [])), wb)) ups ([], w2)
               in
               let w4 =
                 set_ctl w3 c { c_sub = o; c_uns = entries; c_serial =
                   (length entries) }
               in
               let st = init_state op others in
               (match op with
                | OWindow _ ->
                  let (h, wt) = alloc_subj w4 KSubject None in
                  let st1 = st_set_subj st h in
                  let w6 =
                    set_node wt n { n_op = op; n_src = src; n_others =
                      others; n_st = st1; n_ctl = c }
                  in
                  ((app
                     (flat_map (fun i ->
                       match nth_error ups i with
                       | Some pp ->
                         (match find_ser i entries with
                          | Some o' -> (SubscribePipe ((snd pp), o')) :: []
                          | None -> [])
                       | None -> []) order)
                     (map (fun x -> Act (n, x)) (init_acts op src others))),
                  w6)
                | OTap t ->
                  let (ot, wt) = alloc_obs w4 (TTapLog t) in
                  let st1 = st_set_aux st ot in
                  let w6 =
                    set_node wt n { n_op = op; n_src = src; n_others =
                      others; n_st = st1; n_ctl = c }
                  in
                  ((app
                     (flat_map (fun i ->
                       match nth_error ups i with
                       | Some pp ->
                         (match find_ser i entries with
                          | Some o' -> (SubscribePipe ((snd pp), o')) :: []
                          | None -> [])
                       | None -> []) order)
                     (map (fun x -> Act (n, x)) (init_acts op src others))),
                  w6)
                | _ ->
                  let w6 =
                    set_node w4 n { n_op = op; n_src = src; n_others =
                      others; n_st = st; n_ctl = c }
                  in
                  ((app
                     (flat_map (fun i ->
                       match nth_error ups i with
                       | Some pp ->
                         (match find_ser i entries with
                          | Some o' -> (SubscribePipe ((snd pp), o')) :: []
                          | None -> [])
                       | None -> []) order)
                     (map (fun x -> Act (n, x)) (init_acts op src others))),
                  w6))
             | OAmb ->
               let c = w.n_ctls in
               let n = w.n_nodes in
               let (ups, order) = plan op src others in
               let w1 = w_n_ctls (S c) (w_n_nodes (S n) w) in
               let w2 = set_obs w1 o (set_td (w1.obs o) (Some (TdFin c))) in
               let (entries, w3) =
                 fold_left (fun acc pp ->
                   let (es, wa) = acc in
                   let ser = length es in
                   let (o', wb) = alloc_obs wa (THandler (n, (fst pp), ser))
                   in
                   ((app es ((ser, o') :: [])), wb)) ups ([], w2)
               in
               let w4 =
                 set_ctl w3 c { c_sub = o; c_uns = entries; c_serial =
                   (length entries) }
               in
               let st = init_state op others in
               (match op with
                | OWindow _ ->
                  let (h, wt) = alloc_subj w4 KSubject None in
                  let st1 = st_set_subj st h in
                  let w6 =
                    set_node wt n { n_op = op; n_src = src; n_others =
                      others; n_st = st1; n_ctl = c }
                  in
                  ((app
                     (flat_map (fun i ->
                       match nth_error ups i with
                       | Some pp ->
                         (match find_ser i entries with
                          | Some o' -> (SubscribePipe ((snd pp), o')) :: []
                          | None -> [])
                       | None -> []) order)
                     (map (fun x -> Act (n, x)) (init_acts op src others))),
                  w6)
                | OTap t ->
                  let (ot, wt) = alloc_obs w4 (TTapLog t) in
                  let st1 = st_set_aux st ot in
                  let w6 =
                    set_node wt n { n_op = op; n_src = src; n_others =
                      others; n_st = st1; n_ctl = c }
                  in
                  ((app
                     (flat_map (fun i ->
                       match nth_error ups i with
                       | Some pp ->
                         (match find_ser i entries with
                          | Some o' -> (SubscribePipe ((snd pp), o')) :: []
                          | None -> [])
                       | None -> []) order)
                     (map (fun x -> Act (n, x)) (init_acts op src others))),
                  w6)
                | _ ->
                  let w6 =
                    set_node w4 n { n_op = op; n_src = src; n_others =
                      others; n_st = st; n_ctl = c }
                  in
                  ((app
                     (flat_map (fun i ->
                       match nth_error ups i with
                       | Some pp ->
                         (match find_ser i entries with
                          | Some o' -> (SubscribePipe ((snd pp), o')) :: []
                          | None -> [])
                       | None -> []) order)
                     (map (fun x -> Act (n, x)) (init_acts op src others))),
                  w6))
             | OTakeUntil ->
               let c = w.n_ctls in
               let n = w.n_nodes in
               let (ups, order) = plan op src others in
               let w1 = w_n_ctls (S c) (w_n_nodes (S n) w) in
               let w2 = set_obs w1 o (set_td (w1.obs o) (Some (TdFin c))) in
               let (entries, w3) =
                 fold_left (fun acc pp ->
                   let (es, wa) = acc in
                   let ser = length es in
                   let (o', wb) = alloc_obs wa (THandler (n, (fst pp), ser))
                   in
                   ((app es ((ser, o') :: [])), wb)) ups ([], w2)
               in
               let w4 =
                 set_ctl w3 c { c_sub = o; c_uns = entries; c_serial =
                   (length entries) }
               in
               let st = init_state op others in
               (match op with
                | OWindow _ ->
                  let (h, wt) = alloc_subj w4 KSubject None in
                  let st1 = st_set_subj st h in
                  let w6 =
                    set_node wt n { n_op = op; n_src = src; n_others =
                      others; n_st = st1; n_ctl = c }
                  in
                  ((app
                     (flat_map (fun i ->
                       match nth_error ups i with
                       | Some pp ->
                         (match find_ser i entries with
                          | Some o' -> (SubscribePipe ((snd pp), o')) :: []
                          | None -> [])
                       | None -> []) order)
                     (map (fun x -> Act (n, x)) (init_acts op src others))),
                  w6)
                | OTap t ->
                  let (ot, wt) = alloc_obs w4 (TTapLog t) in
                  let st1 = st_set_aux st ot in
                  let w6 =
                    set_node wt n { n_op = op; n_src = src; n_others =
                      others; n_st = st1; n_ctl = c }
                  in
                  ((app
                     (flat_map (fun i ->
                       match nth_error ups i with
                       | Some pp ->
                         (match find_ser i entries with
                          | Some o' -> (SubscribePipe ((snd pp), o')) :: []
                          | None -> [])
                       | None -> []) order)
                     (map (fun x -> Act (n, x)) (init_acts op src others))),
                  w6)
                | _ ->
                  let w6 =
                    set_node w4 n { n_op = op; n_src = src; n_others =
                      others; n_st = st; n_ctl = c }
                  in
                  ((app
                     (flat_map (fun i ->
                       match nth_error ups i with
                       | Some pp ->
                         (match find_ser i entries with
                          | Some o' -> (SubscribePipe ((snd pp), o')) :: []
                          | None -> [])
                       | None -> []) order)
                     (map (fun x -> Act (n, x)) (init_acts op src others))),
                  w6))
             | OSkipUntil ->
               let c = w.n_ctls in
               let n = w.n_nodes in
               let (ups, order) = plan op src others in
               let w1 = w_n_ctls (S c) (w_n_nodes (S n) w) in
               let w2 = set_obs w1 o (set_td (w1.obs o) (Some (TdFin c))) in
               let (entries, w3) =
                 fold_left (fun acc pp ->
                   let (es, wa) = acc in
                   let ser = length es in
                   let (o', wb) = alloc_obs wa (THandler (n, (fst pp), ser))
                   in
                   ((app es ((ser, o') :: [])), wb)) ups ([], w2)
               in
               let w4 =
                 set_ctl w3 c { c_sub = o; c_uns = entries; c_serial =
                   (length entries) }
               in
               let st = init_state op others in
               (match op with
                | OWindow _ ->
                  let (h, wt) = alloc_subj w4 KSubject None in
                  let st1 = st_set_subj st h in
                  let w6 =
                    set_node wt n { n_op = op; n_src = src; n_others =
                      others; n_st = st1; n_ctl = c }
                  in
                  ((app
                     (flat_map (fun i ->
                       match nth_error ups i with
                       | Some pp ->
                         (match find_ser i entries with
                          | Some o' -> (SubscribePipe ((snd pp), o')) :: []
                          | None -> [])
                       | None -> []) order)
                     (map (fun x -> Act (n, x)) (init_acts op src others))),
                  w6)
                | OTap t ->
                  let (ot, wt) = alloc_obs w4 (TTapLog t) in
                  let st1 = st_set_aux st ot in
                  let w6 =
                    set_node wt n { n_op = op; n_src = src; n_others =
                      others; n_st = st1; n_ctl = c }
                  in
                  ((app
                     (flat_map (fun i ->
                       match nth_error ups i with
                       | Some pp ->
                         (match find_ser i entries with
                          | Some o' -> (SubscribePipe ((snd pp), o')) :: []
                          | None -> [])
                       | None -> []) order)
                     (map (fun x -> Act (n, x)) (init_acts op src others))),
                  w6)
                | _ ->
                  let w6 =
                    set_node w4 n { n_op = op; n_src = src; n_others =
                      others; n_st = st; n_ctl = c }
                  in
                  ((app
                     (flat_map (fun i ->
                       match nth_error ups i with
                       | Some pp ->
                         (match find_ser i entries with
                          | Some o' -> (SubscribePipe ((snd pp), o')) :: []
                          | None -> [])
                       | None -> []) order)
                     (map (fun x -> Act (n, x)) (init_acts op src others))),
                  w6))
             | OSample ->
               let c = w.n_ctls in
               let n = w.n_nodes in
               let (ups, order) = plan op src others in
               let w1 = w_n_ctls (S c) (w_n_nodes (S n) w) in
               let w2 = set_obs w1 o (set_td (w1.obs o) (Some (TdFin c))) in
               let (entries, w3) =
                 fold_left (fun acc pp ->
                   let (es, wa) = acc in
                   let ser = length es in
                   let (o', wb) = alloc_obs wa (THandler (n, (fst pp), ser))
                   in
                   ((app es ((ser, o') :: [])), wb)) ups ([], w2)
               in
               let w4 =
                 set_ctl w3 c { c_sub = o; c_uns = entries; c_serial =
                   (length entries) }
               in
               let st = init_state op others in
               (match op with
                | OWindow _ ->
                  let (h, wt) = alloc_subj w4 KSubject None in
                  let st1 = st_set_subj st h in
                  let w6 =
                    set_node wt n { n_op = op; n_src = src; n_others =
                      others; n_st = st1; n_ctl = c }
                  in
                  ((app
                     (flat_map (fun i ->
                       match nth_error ups i with
                       | Some pp ->
                         (match find_ser i entries with
                          | Some o' -> (SubscribePipe ((snd pp), o')) :: []
                          | None -> [])
                       | None -> []) order)
                     (map (fun x -> Act (n, x)) (init_acts op src others))),
                  w6)
                | OTap t ->
                  let (ot, wt) = alloc_obs w4 (TTapLog t) in
                  let st1 = st_set_aux st ot in
                  let w6 =
                    set_node wt n { n_op = op; n_src = src; n_others =
                      others; n_st = st1; n_ctl = c }
                  in
                  ((app
                     (flat_map (fun i ->
                       match nth_error ups i with
                       | Some pp ->
                         (match find_ser i entries with
                          | Some o' -> (SubscribePipe ((snd pp), o')) :: []
                          | None -> [])
                       | None -> []) order)
                     (map (fun x -> Act (n, x)) (init_acts op src others))),
                  w6)
                | _ ->
                  let w6 =
                    set_node w4 n { n_op = op; n_src = src; n_others =
                      others; n_st = st; n_ctl = c }
                  in
                  ((app
                     (flat_map (fun i ->
                       match nth_error ups i with
                       | Some pp ->
                         (match find_ser i entries with
                          | Some o' -> (SubscribePipe ((snd pp), o')) :: []
                          | None -> [])
                       | None -> []) order)
                     (map (fun x -> Act (n, x)) (init_acts op src others))),
                  w6))
             | OSwitchOnNext ->
               let c = w.n_ctls in
               let n = w.n_nodes in
               let (ups, order) = plan op src others in
               let w1 = w_n_ctls (S c) (w_n_nodes (S n) w) in
               let w2 = set_obs w1 o (set_td (w1.obs o) (Some (TdFin c))) in
               let (entries, w3) =
                 fold_left (fun acc pp ->
                   let (es, wa) = acc in
                   let ser = length es in
                   let (o', wb) = alloc_obs wa (THandler (n, (fst pp), ser))
                   in
                   ((app es ((ser, o') :: [])), wb)) ups ([], w2)
               in
               let w4 =
                 set_ctl w3 c { c_sub = o; c_uns = entries; c_serial =
                   (length entries) }
               in
               let st = init_state op others in
               (match op with
                | OWindow _ ->
                  let (h, wt) = alloc_subj w4 KSubject None in
                  let st1 = st_set_subj st h in
                  let w6 =
                    set_node wt n { n_op = op; n_src = src; n_others =
                      others; n_st = st1; n_ctl = c }
                  in
                  ((app
                     (flat_map (fun i ->
                       match nth_error ups i with
                       | Some pp ->
                         (match find_ser i entries with
                          | Some o' -> (SubscribePipe ((snd pp), o')) :: []
                          | None -> [])
                       | None -> []) order)
                     (map (fun x -> Act (n, x)) (init_acts op src others))),
                  w6)
                | OTap t ->
                  let (ot, wt) = alloc_obs w4 (TTapLog t) in
                  let st1 = st_set_aux st ot in
                  let w6 =
                    set_node wt n { n_op = op; n_src = src; n_others =
                      others; n_st = st1; n_ctl = c }
                  in
                  ((app
                     (flat_map (fun i ->
                       match nth_error ups i with
                       | Some pp ->
                         (match find_ser i entries with
                          | Some o' -> (SubscribePipe ((snd pp), o')) :: []
                          | None -> [])
                       | None -> []) order)
                     (map (fun x -> Act (n, x)) (init_acts op src others))),
                  w6)
                | _ ->
                  let w6 =
                    set_node w4 n { n_op = op; n_src = src; n_others =
                      others; n_st = st; n_ctl = c }
                  in
                  ((app
                     (flat_map (fun i ->
                       match nth_error ups i with
                       | Some pp ->
                         (match find_ser i entries with
                          | Some o' -> (SubscribePipe ((snd pp), o')) :: []
                          | None -> [])
                       | None -> []) order)
                     (map (fun x -> Act (n, x)) (init_acts op src others))),
                  w6))
             | OSequenceEqual ->
               let c = w.n_ctls in
               let n = w.n_nodes in
               let (ups, order) = plan op src others in
               let w1 = w_n_ctls (S c) (w_n_nodes (S n) w) in
               let w2 = set_obs w1 o (set_td (w1.obs o) (Some (TdFin c))) in
               let (entries, w3) =
                 fold_left (fun acc pp ->
                   let (es, wa) = acc in
                   let ser = length es in
                   let (o', wb) = alloc_obs wa (THandler (n, (fst pp), ser))
                   in
                   ((app es ((ser, o') :: [])), wb)) ups ([], w2)
               in
               let w4 =
                 set_ctl w3 c { c_sub = o; c_uns = entries; c_serial =
                   (length entries) }
               in
               let st = init_state op others in
               (match op with
                | OWindow _ ->
                  let (h, wt) = alloc_subj w4 KSubject None in
                  let st1 = st_set_subj st h in
                  let w6 =
                    set_node wt n { n_op = op; n_src = src; n_others =
                      others; n_st = st1; n_ctl = c }
                  in
                  ((app
                     (flat_map (fun i ->
                       match nth_error ups i with
                       | Some pp ->
                         (match find_ser i entries with
                          | Some o' -> (SubscribePipe ((snd pp), o')) :: []
                          | None -> [])
                       | None -> []) order)
                     (map (fun x -> Act (n, x)) (init_acts op src others))),
                  w6)
                | OTap t ->
                  let (ot, wt) = alloc_obs w4 (TTapLog t) in
                  let st1 = st_set_aux st ot in
                  let w6 =
                    set_node wt n { n_op = op; n_src = src; n_others =
                      others; n_st = st1; n_ctl = c }
                  in
                  ((app
                     (flat_map (fun i ->
                       match nth_error ups i with
                       | Some pp ->
                         (match find_ser i entries with
                          | Some o' -> (SubscribePipe ((snd pp), o')) :: []
                          | None -> [])
                       | None -> []) order)
                     (map (fun x -> Act (n, x)) (init_acts op src others))),
                  w6)
                | _ ->
                  let w6 =
                    set_node w4 n { n_op = op; n_src = src; n_others =
                      others; n_st = st; n_ctl = c }
                  in
                  ((app
                     (flat_map (fun i ->
                       match nth_error ups i with
                       | Some pp ->
                         (match find_ser i entries with
                          | Some o' -> (SubscribePipe ((snd pp), o')) :: []
                          | None -> [])
                       | None -> []) order)
                     (map (fun x -> Act (n, x)) (init_acts op src others))),
                  w6))
             | ORetry _ ->
               let c = w.n_ctls in
               let n = w.n_nodes in
               let (ups, order) = plan op src others in
               let w1 = w_n_ctls (S c) (w_n_nodes (S n) w) in
               let w2 = set_obs w1 o (set_td (w1.obs o) (Some (TdFin c))) in
               let (entries, w3) =
                 fold_left (fun acc pp ->
                   let (es, wa) = acc in
                   let ser = length es in
                   let (o', wb) = alloc_obs wa (THandler (n, (fst pp), ser))
                   in
                   ((app es ((ser, o') :: [])), wb)) ups ([], w2)
               in
               let w4 =
                 set_ctl w3 c { c_sub = o; c_uns = entries; c_serial =
                   (length entries) }
               in
               let st = init_state op others in
               (match op with
                | OWindow _ ->
                  let (h, wt) = alloc_subj w4 KSubject None in
                  let st1 = st_set_subj st h in
                  let w6 =
                    set_node wt n { n_op = op; n_src = src; n_others =
                      others; n_st = st1; n_ctl = c }
                  in
                  ((app
                     (flat_map (fun i ->
                       match nth_error ups i with
                       | Some pp ->
                         (match find_ser i entries with
                          | Some o' -> (SubscribePipe ((snd pp), o')) :: []
                          | None -> [])
                       | None -> []) order)
                     (map (fun x -> Act (n, x)) (init_acts op src others))),
                  w6)
                | OTap t ->
                  let (ot, wt) = alloc_obs w4 (TTapLog t) in
                  let st1 = st_set_aux st ot in
                  let w6 =
                    set_node wt n { n_op = op; n_src = src; n_others =
                      others; n_st = st1; n_ctl = c }
                  in
                  ((app
                     (flat_map (fun i ->
                       match nth_error ups i with
                       | Some pp ->
                         (match find_ser i entries with
                          | Some o' -> (SubscribePipe ((snd pp), o')) :: []
                          | None -> [])
                       | None -> []) order)
                     (map (fun x -> Act (n, x)) (init_acts op src others))),
                  w6)
                | _ ->
                  let w6 =
                    set_node w4 n { n_op = op; n_src = src; n_others =
                      others; n_st = st; n_ctl = c }
                  in
                  ((app
                     (flat_map (fun i ->
                       match nth_error ups i with
                       | Some pp ->
                         (match find_ser i entries with
                          | Some o' -> (SubscribePipe ((snd pp), o')) :: []
                          | None -> [])
                       | None -> []) order)
                     (map (fun x -> Act (n, x)) (init_acts op src others))),
                  w6))
             | ORetryWhen _ ->
               let c = w.n_ctls in
               let n = w.n_nodes in
               let (ups, order) = plan op src others in
               let w1 = w_n_ctls (S c) (w_n_nodes (S n) w) in
               let w2 = set_obs w1 o (set_td (w1.obs o) (Some (TdFin c))) in
               let (entries, w3) =
                 fold_left (fun acc pp ->
                   let (es, wa) = acc in
                   let ser = length es in
                   let (o', wb) = alloc_obs wa (THandler (n, (fst pp), ser))
                   in
                   ((app es ((ser, o') :: [])), wb)) ups ([], w2)
               in
               let w4 =
                 set_ctl w3 c { c_sub = o; c_uns = entries; c_serial =
                   (length entries) }
               in
               let st = init_state op others in
               (match op with
                | OWindow _ ->
                  let (h, wt) = alloc_subj w4 KSubject None in
                  let st1 = st_set_subj st h in
                  let w6 =
                    set_node wt n { n_op = op; n_src = src; n_others =
                      others; n_st = st1; n_ctl = c }
                  in
                  ((app
                     (flat_map (fun i ->
                       match nth_error ups i with
                       | Some pp ->
                         (match find_ser i entries with
                          | Some o' -> (SubscribePipe ((snd pp), o')) :: []
                          | None -> [])
                       | None -> []) order)
                     (map (fun x -> Act (n, x)) (init_acts op src others))),
                  w6)
                | OTap t ->
                  let (ot, wt) = alloc_obs w4 (TTapLog t) in
                  let st1 = st_set_aux st ot in
                  let w6 =
                    set_node wt n { n_op = op; n_src = src; n_others =
                      others; n_st = st1; n_ctl = c }
                  in
                  ((app
                     (flat_map (fun i ->
                       match nth_error ups i with
                       | Some pp ->
                         (match find_ser i entries with
                          | Some o' -> (SubscribePipe ((snd pp), o')) :: []
                          | None -> [])
                       | None -> []) order)
                     (map (fun x -> Act (n, x)) (init_acts op src others))),
                  w6)
                | _ ->
                  let w6 =
                    set_node w4 n { n_op = op; n_src = src; n_others =
                      others; n_st = st; n_ctl = c }
                  in
                  ((app
                     (flat_map (fun i ->
                       match nth_error ups i with
                       | Some pp ->
                         (match find_ser i entries with
                          | Some o' -> (SubscribePipe ((snd pp), o')) :: []
                          | None -> [])
                       | None -> []) order)
                     (map (fun x -> Act (n, x)) (init_acts op src others))),
                  w6))
             | OResume ->
               let c = w.n_ctls in
               let n = w.n_nodes in
               let (ups, order) = plan op src others in
               let w1 = w_n_ctls (S c) (w_n_nodes (S n) w) in
               let w2 = set_obs w1 o (set_td (w1.obs o) (Some (TdFin c))) in
               let (entries, w3) =
                 fold_left (fun acc pp ->
                   let (es, wa) = acc in
                   let ser = length es in
                   let (o', wb) = alloc_obs wa (THandler (n, (fst pp), ser))
                   in
                   ((app es ((ser, o') :: [])), wb)) ups ([], w2)
               in
               let w4 =
                 set_ctl w3 c { c_sub = o; c_uns = entries; c_serial =
                   (length entries) }
               in
               let st = init_state op others in
               (match op with
                | OWindow _ ->
                  let (h, wt) = alloc_subj w4 KSubject None in
                  let st1 = st_set_subj st h in
                  let w6 =
                    set_node wt n { n_op = op; n_src = src; n_others =
                      others; n_st = st1; n_ctl = c }
                  in
                  ((app
                     (flat_map (fun i ->
                       match nth_error ups i with
                       | Some pp ->
                         (match find_ser i entries with
                          | Some o' -> (SubscribePipe ((snd pp), o')) :: []
                          | None -> [])
                       | None -> []) order)
                     (map (fun x -> Act (n, x)) (init_acts op src others))),
                  w6)
                | OTap t ->
                  let (ot, wt) = alloc_obs w4 (TTapLog t) in
                  let st1 = st_set_aux st ot in
                  let w6 =
                    set_node wt n { n_op = op; n_src = src; n_others =
                      others; n_st = st1; n_ctl = c }
                  in
                  ((app
                     (flat_map (fun i ->
                       match nth_error ups i with
                       | Some pp ->
                         (match find_ser i entries with
                          | Some o' -> (SubscribePipe ((snd pp), o')) :: []
                          | None -> [])
                       | None -> []) order)
                     (map (fun x -> Act (n, x)) (init_acts op src others))),
                  w6)
                | _ ->
                  let w6 =
                    set_node w4 n { n_op = op; n_src = src; n_others =
                      others; n_st = st; n_ctl = c }
                  in
                  ((app
                     (flat_map (fun i ->
                       match nth_error ups i with
                       | Some pp ->
                         (match find_ser i entries with
                          | Some o' -> (SubscribePipe ((snd pp), o')) :: []
                          | None -> [])
                       | None -> []) order)
                     (map (fun x -> Act (n, x)) (init_acts op src others))),
                  w6))
             | OFwd ->
               let c = w.n_ctls in
               let n = w.n_nodes in
               let (ups, order) = plan op src others in
               let w1 = w_n_ctls (S c) (w_n_nodes (S n) w) in
               let w2 = set_obs w1 o (set_td (w1.obs o) (Some (TdFin c))) in
               let (entries, w3) =
                 fold_left (fun acc pp ->
                   let (es, wa) = acc in
                   let ser = length es in
                   let (o', wb) = alloc_obs wa (THandler (n, (fst pp), ser))
                   in
                   ((app es ((ser, o') :: [])), wb)) ups ([], w2)
               in
               let w4 =
                 set_ctl w3 c { c_sub = o; c_uns = entries; c_serial =
                   (length entries) }
               in
               let st = init_state op others in
               (match op with
                | OWindow _ ->
                  let (h, wt) = alloc_subj w4 KSubject None in
                  let st1 = st_set_subj st h in
                  let w6 =
                    set_node wt n { n_op = op; n_src = src; n_others =
                      others; n_st = st1; n_ctl = c }
                  in
                  ((app
                     (flat_map (fun i ->
                       match nth_error ups i with
                       | Some pp ->
                         (match find_ser i entries with
                          | Some o' -> (SubscribePipe ((snd pp), o')) :: []
                          | None -> [])
                       | None -> []) order)
                     (map (fun x -> Act (n, x)) (init_acts op src others))),
                  w6)
                | OTap t ->
                  let (ot, wt) = alloc_obs w4 (TTapLog t) in
                  let st1 = st_set_aux st ot in
                  let w6 =
                    set_node wt n { n_op = op; n_src = src; n_others =
                      others; n_st = st1; n_ctl = c }
                  in
                  ((app
                     (flat_map (fun i ->
                       match nth_error ups i with
                       | Some pp ->
                         (match find_ser i entries with
                          | Some o' -> (SubscribePipe ((snd pp), o')) :: []
                          | None -> [])
                       | None -> []) order)
                     (map (fun x -> Act (n, x)) (init_acts op src others))),
                  w6)
                | _ ->
                  let w6 =
                    set_node w4 n { n_op = op; n_src = src; n_others =
                      others; n_st = st; n_ctl = c }
                  in
                  ((app
                     (flat_map (fun i ->
                       match nth_error ups i with
                       | Some pp ->
                         (match find_ser i entries with
                          | Some o' -> (SubscribePipe ((snd pp), o')) :: []
                          | None -> [])
                       | None -> []) order)
                     (map (fun x -> Act (n, x)) (init_acts op src others))),
                  w6))))
  | SubjCall (h, e) ->
    let sj = w.subjs h in
    let sj' =
      match sj.sj_kind with
      | KBehavior ->
        (match e with
         | Nx v -> sj_set_last sj (Some v)
         | Er x -> sj_set_err sj (Some x)
         | Co -> sj_set_last sj None)
      | KReplay ->
        (match e with
         | Nx v -> sj_set_items sj (app sj.sj_items (v :: []))
         | Er x -> sj_set_err sj (Some x)
         | Co -> sj_set_done sj true)
      | _ -> sj
    in
    (((Broadcast (h, e)) :: []), (set_subj w h sj'))
  | Broadcast (h, e) ->
    let sj = w.subjs h in
    ((map (fun p -> Deliver ((snd p), e)) sj.sj_obs),
    (match e with
     | Nx _ -> w
     | _ -> set_subj w h (sj_set_obs sj [])))
  | SubjJoin (h, o) ->
    let sj = w.subjs h in
    let ser = S sj.sj_serial in
    let l = app sj.sj_obs ((ser, o) :: []) in
    let w1 = set_obs w o (set_td (w.obs o) (Some (TdSubjRemove (h, ser)))) in
    (((AcqL ((LHookSub h), MR)) :: ((HookSub (h, (length l))) :: ((RelL
    ((LHookSub h), MR)) :: []))),
    (set_subj w1 h (sj_set_obs (sj_set_serial sj ser) l)))
  | Replay (h, o) -> ((hist_replay (w.subjs h) o), w)
  | SetTdCell (o, x) ->
    ([], (set_obs w o (set_td (w.obs o) (Some (TdCell x)))))
  | HookSub (h, len) ->
    (match (w.subjs h).sj_hook with
     | Some k ->
       if Nat.eqb len (S O)
       then (((AcqL ((LSlot k), MW)) :: ((Connect k) :: ((RelL ((LSlot k),
              MW)) :: []))), w)
       else ([], w)
     | None -> ([], w))
  | HookUnsub (h, len) ->
    (match (w.subjs h).sj_hook with
     | Some k ->
       if Nat.eqb len O
       then (((AcqL ((LSlot k), MR)) :: ((SlotUnsub k) :: ((RelL ((LSlot k),
              MR)) :: []))), w)
       else ([], w)
     | None -> ([], w))
  | Connect k ->
    let cn = w.conns k in
    (match cn.k_slot with
     | Some _ -> ([], w)
     | None ->
       let (o', w1) = alloc_obs w (TFeed cn.k_subj) in
       (((SubscribePipe (cn.k_src, o')) :: ((MkSub (o', (DSlot k))) :: [])),
       w1))
  | SlotUnsub k ->
    ((match (w.conns k).k_slot with
      | Some s -> (SubUnsub s) :: []
      | None -> []), w)
  | MkSub (o, d) ->
    let s = w.n_subs in
    let w1 =
      w_n_subs (S s) (w_subs (upd w.subs s { sb_obs = o; sb_live = true }) w)
    in
    ([],
    (match d with
     | DNone -> w1
     | DHandle k -> w_handles (upd w1.handles k (Some (o, (Some s)))) w1
     | DCell x -> w_cells (upd w1.cells x (Some s)) w1
     | DSlot k ->
       let cn = w1.conns k in
       w_conns
         (upd w1.conns k { k_kind = cn.k_kind; k_src = cn.k_src; k_subj =
           cn.k_subj; k_slot = (Some s) }) w1
     | DConn x -> w_chandles (upd w1.chandles x (Some s)) w1))
  | SubUnsub s ->
    let sb = w.subs s in
    if sb.sb_live
    then (((Unsub sb.sb_obs) :: []),
           (w_subs (upd w.subs s { sb_obs = sb.sb_obs; sb_live = false }) w))
    else ([], w)
  | CellUnsub x ->
    ((match w.cells x with
      | Some s -> (SubUnsub s) :: []
      | None -> []), w)
  | AcqL (l, m) ->
    if conflicts w.held l m
    then ([], (w_out (SelfDeadlock l) w))
    else ([], (w_held ((l, m) :: w.held) w))
  | RelL (l, m) -> ([], (w_held (release w.held l m) w))
  | React (k, i) ->
    ((flat_map (fun ir ->
       if Nat.eqb (fst ir) i
       then (match snd ir with
             | RUnsubSelf -> handle_sub w k
             | RUnsub k' -> handle_sub w k'
             | REmit (h, e) -> (SubjCall (h, e)) :: []
             | RSub (k', p) -> (DoSub (k', p, [])) :: [])
       else []) (w.reacts k)), w)
  | DoSub (k, p, rs) ->
    (match w.handles k with
     | Some _ -> ([], w)
     | None ->
       let (o, w1) = alloc_obs w (TUser (uenc (UTop k))) in
       (((SubscribePipe (p, o)) :: ((MkSub (o, (DHandle k))) :: [])),
       (w_reacts (upd w1.reacts k rs)
         (w_handles (upd w1.handles k (Some (o, None))) w1))))
  | Snap ->
    ([],
      (w_snaps
        (app w.snaps (((w.cur,
          (map (fun k ->
            match w.handles k with
            | Some p -> let (o, _) = p in is_sub (w.obs o)
            | None -> false) (seq O w.n_handles))),
          (map (fun h -> length (w.subjs h).sj_obs) (seq O w.n_hot))) :: []))
        w))
  | Drv a ->
    let w1 = w_cur (S w.cur) w in
    (match a with
     | DSub (k, p, rs) -> (((DoSub (k, p, rs)) :: (Snap :: [])), w1)
     | DUnsub k -> ((app (handle_sub w1 k) (Snap :: [])), w1)
     | DEmit (h, e) -> (((SubjCall (h, e)) :: (Snap :: [])), w1)
     | DConnect (k, x) ->
       let cn = w1.conns k in
       let (o', w2) = alloc_obs w1 (TFeed cn.k_subj) in
       (((SubscribePipe (cn.k_src, o')) :: ((MkSub (o', (DConn
       x))) :: (Snap :: []))), w2)
     | DDisconnect x ->
       ((app
          (match w1.chandles x with
           | Some s -> (SubUnsub s) :: []
           | None -> []) (Snap :: [])), w1))

(** val run : nat -> req list -> world -> req list * world **)

let rec run fuel stk w =
  match fuel with
  | O -> (stk, w)
  | S f ->
    (match w.out with
     | Running ->
       (match stk with
        | [] -> ([], w)
        | r :: rs -> let (new0, w') = step r w in run f (app new0 rs) w')
     | SelfDeadlock _ -> (stk, w))

type scenario = { sc_scripts : (ev list list * bool) list;
                  sc_subjects : (skind * val0 option) list;
                  sc_conns : (ckind * pipe) list; sc_handles : nat;
                  sc_script : action list }

(** val dflt_node : node **)

let dflt_node =
  { n_op = OFwd; n_src = PNever; n_others = []; n_st = st0; n_ctl = O }

(** val dflt_conn : conn **)

let dflt_conn =
  { k_kind = CPublish; k_src = PNever; k_subj = O; k_slot = None }

(** val init_world : scenario -> world **)

let init_world sc =
  let nh = length sc.sc_subjects in
  let subj_tab =
    app (map (fun ki -> mk_subj (fst ki) (snd ki)) sc.sc_subjects)
      (map (fun ik ->
        let (i, p) = ik in
        let (k, _) = p in
        sj_set_hook
          (mk_subj (match k with
                    | CReplay -> KReplay
                    | _ -> KSubject) None)
          (match k with
           | CPublish -> None
           | _ -> Some i)) (combine (seq O (length sc.sc_conns)) sc.sc_conns))
  in
  let conn_tab =
    map (fun ik ->
      let (i, p0) = ik in
      let (k, p) = p0 in
      { k_kind = k; k_src = p; k_subj = (add nh i); k_slot = None })
      (combine (seq O (length sc.sc_conns)) sc.sc_conns)
  in
  { obs = (fun _ -> dead_obs); n_obs = O; ctls = (fun _ -> { c_sub = O;
  c_uns = []; c_serial = O }); n_ctls = O; nodes = (fun _ -> dflt_node);
  n_nodes = O; subjs = (fun h -> nth h subj_tab (mk_subj KSubject None));
  n_subjs = (length subj_tab); subs = (fun _ -> { sb_obs = O; sb_live =
  false }); n_subs = O; cells = (fun _ -> None); n_cells = O; conns =
  (fun k -> nth k conn_tab dflt_conn); scripts = (fun s ->
  nth s sc.sc_scripts ([], false)); attempts = (fun _ -> O); counters =
  (fun _ -> O); handles = (fun _ -> None); chandles = (fun _ -> None);
  reacts = (fun _ -> []); ncalls = (fun _ -> O); n_child = O; n_handles =
  sc.sc_handles; n_hot = nh; log = []; taplog = []; probes = []; snaps = [];
  held = []; cur = O; out = Running }

(** val run_scenario : nat -> scenario -> req list * world **)

let run_scenario fuel sc =
  run fuel (map (fun x -> Drv x) sc.sc_script) (init_world sc)

type ending =
| Completes
| Fails of err
| Silent

type sout = val0 list * ending

(** val events : sout -> ev list **)

let events o =
  app (map (fun x -> Nx x) (fst o))
    (match snd o with
     | Completes -> Co :: []
     | Fails e -> (Er e) :: []
     | Silent -> [])

(** val parse_script : ev list -> sout option **)

let rec parse_script = function
| [] -> Some ([], Silent)
| e0 :: r ->
  (match e0 with
   | Nx v ->
     (match parse_script r with
      | Some s -> let (xs, en) = s in Some ((v :: xs), en)
      | None -> None)
   | Er e -> (match r with
              | [] -> Some ([], (Fails e))
              | _ :: _ -> None)
   | Co -> (match r with
            | [] -> Some ([], Completes)
            | _ :: _ -> None))

(** val takewhile : ('a1 -> bool) -> 'a1 list -> 'a1 list **)

let rec takewhile p = function
| [] -> []
| x :: r -> if p x then x :: (takewhile p r) else []

(** val dropwhile : ('a1 -> bool) -> 'a1 list -> 'a1 list **)

let rec dropwhile p = function
| [] -> []
| x :: r -> if p x then dropwhile p r else x :: r

(** val lastn : nat -> 'a1 list -> 'a1 list **)

let lastn n l =
  skipn (sub (length l) n) l

(** val dedup : val0 option -> val0 list -> val0 list **)

let rec dedup prev = function
| [] -> []
| x :: r ->
  (match prev with
   | Some p -> if val_eqb p x then dedup prev r else x :: (dedup (Some x) r)
   | None -> x :: (dedup (Some x) r))

(** val scanl :
    (val0 -> val0 -> val0) -> val0 option -> val0 list -> val0 list **)

let rec scanl f acc = function
| [] -> []
| x :: r ->
  let a = match acc with
          | Some a -> f a x
          | None -> x in
  a :: (scanl f (Some a) r)

(** val fold1 : (val0 -> val0 -> val0) -> val0 list -> val0 option **)

let fold1 f = function
| [] -> None
| x :: r -> Some (fold_left f r x)

(** val chunks : nat -> nat -> val0 list -> val0 list list **)

let rec chunks fuel n l =
  match fuel with
  | O -> []
  | S k ->
    (match l with
     | [] -> []
     | _ :: _ -> (firstn n l) :: (chunks k n (skipn n l)))

(** val when_complete : ending -> val0 list -> sout **)

let when_complete en ys =
  match en with
  | Completes -> (ys, Completes)
  | _ -> ([], en)

(** val opt_list : val0 option -> val0 list **)

let opt_list = function
| Some v -> v :: []
| None -> []

(** val min_f : val0 -> val0 -> val0 **)

let min_f a x =
  if val_ltb x a then x else a

(** val max_f : val0 -> val0 -> val0 **)

let max_f a x =
  if val_ltb a x then x else a

(** val demat : val0 list -> ending -> sout **)

let rec demat l en =
  match l with
  | [] -> ([], en)
  | x :: r ->
    (match x with
     | VMatN x0 -> let (ys, e') = demat r en in ((x0 :: ys), e')
     | VMatE e -> ([], (Fails e))
     | VMatC -> ([], Completes)
     | _ -> let (ys, e') = demat r en in ((x :: ys), e'))

(** val keys_of : z -> z list -> val0 list -> z list **)

let rec keys_of k seen = function
| [] -> []
| x :: r ->
  let key = key_of k x in
  if existsb (Z.eqb key) seen
  then keys_of k seen r
  else key :: (keys_of k (key :: seen) r)

(** val spec_op : opk -> sout -> sout **)

let spec_op op = function
| (xs, en) ->
  (match op with
   | OMap f -> ((map (app1 f) xs), en)
   | OFilter p -> ((filter (appp p) xs), en)
   | OTake n ->
     ((firstn n xs),
       (if Nat.leb (Nat.max n (S O)) (length xs) then Completes else en))
   | OTakeWhile p ->
     ((takewhile (appp p) xs),
       (if forallb (appp p) xs then en else Completes))
   | OTakeLast n -> when_complete en (lastn n xs)
   | OSkip n -> ((skipn n xs), en)
   | OSkipLast n -> ((firstn (sub (length xs) n) xs), en)
   | OSkipWhile p -> ((dropwhile (appp p) xs), en)
   | OFirst ->
     ((firstn (S O) xs),
       (if Nat.leb (S O) (length xs) then Completes else en))
   | OLast -> when_complete en (lastn (S O) xs)
   | OElementAt n ->
     ((match n with
       | O -> []
       | S m -> (match nth_error xs m with
                 | Some v -> v :: []
                 | None -> [])),
       (if Nat.leb (Nat.max n (S O)) (length xs) then Completes else en))
   | ODistinct -> ((dedup None xs), en)
   | OScan f -> ((scanl (app2 f) None xs), en)
   | OReduce f -> when_complete en (opt_list (fold1 (app2 f) xs))
   | OCount -> when_complete en ((VInt (Z.of_nat (length xs))) :: [])
   | OSum -> when_complete en (opt_list (fold1 val_add xs))
   | OSumAndCount ->
     when_complete en
       (match fold1 val_add xs with
        | Some s -> (VList (s :: ((VInt (Z.of_nat (length xs))) :: []))) :: []
        | None -> [])
   | OMin -> when_complete en (opt_list (fold1 min_f xs))
   | OMax -> when_complete en (opt_list (fold1 max_f xs))
   | OAll p ->
     if forallb (appp p) xs
     then when_complete en ((VBool true) :: [])
     else (((VBool false) :: []), Completes)
   | OContains t ->
     if existsb (fun x -> val_eqb x t) xs
     then (((VBool true) :: []), Completes)
     else (match en with
           | Silent -> ([], Silent)
           | _ -> (((VBool false) :: []), Completes))
   | ODefaultIfEmpty d ->
     (match xs with
      | [] ->
        (match en with
         | Completes -> ((d :: []), Completes)
         | _ -> (xs, en))
      | _ :: _ -> (xs, en))
   | OIgnore -> ([], en)
   | OStartWith ys -> ((app ys xs), en)
   | OBuffer n ->
     let cs = chunks (S (length xs)) n xs in
     ((map (fun x -> VList x)
        (match en with
         | Completes -> cs
         | _ -> filter (fun c -> Nat.eqb (length c) n) cs)), en)
   | OWindow n -> ((map (fun _ -> VObs O) (chunks (S (length xs)) n xs)), en)
   | OGroupBy k -> ((map (fun _ -> VObs O) (keys_of k [] xs)), en)
   | OMaterialize ->
     (match en with
      | Completes ->
        ((app (map (fun x -> VMatN x) xs) (VMatC :: [])), Completes)
      | Fails e ->
        ((app (map (fun x -> VMatN x) xs) ((VMatE e) :: [])), Completes)
      | Silent -> ((map (fun x -> VMatN x) xs), Silent))
   | ODematerialize -> demat xs en
   | _ -> (xs, en))

(** val spec_children : opk -> sout -> sout list **)

let spec_children op = function
| (xs, en) ->
  (match op with
   | OWindow n ->
     let cs = chunks (S (length xs)) n xs in
     map (fun c -> (c, (if Nat.eqb (length c) n then Completes else en))) cs
   | OGroupBy k ->
     map (fun key -> ((filter (fun x -> Z.eqb (key_of k x) key) xs), en))
       (keys_of k [] xs)
   | _ -> [])

(** val in_c02 : opk -> bool **)

let in_c02 = function
| OBuffer n -> (match n with
                | O -> false
                | S _ -> true)
| OWindow n -> (match n with
                | O -> false
                | S _ -> true)
| OMerge -> false
| OFlatMap _ -> false
| OConcat -> false
| OZip -> false
| OCombineLatest _ -> false
| OAmb -> false
| OTakeUntil -> false
| OSkipUntil -> false
| OSample -> false
| OSwitchOnNext -> false
| OSequenceEqual -> false
| ORetry _ -> false
| ORetryWhen _ -> false
| OResume -> false
| _ -> true

(** val repeat_bound : nat **)

let repeat_bound =
  S (S (S (S (S (S (S (S (S (S (S (S (S (S (S (S (S (S (S (S (S (S (S (S (S
    (S (S (S (S (S (S (S (S (S (S (S (S (S (S (S
    O)))))))))))))))))))))))))))))))))))))))

(** val spec_pipe : (nat -> ev list list) -> pipe -> sout option **)

let rec spec_pipe scripts0 = function
| PCold s ->
  (match scripts0 s with
   | [] -> Some ([], Silent)
   | l :: _ -> parse_script l)
| PJust v -> Some ((v :: []), Completes)
| PFromIter l -> Some (l, Completes)
| PRange (a, n) ->
  Some ((map (fun x -> VInt x) (seqZ a (Z.to_nat n))), Completes)
| PEmpty -> Some ([], Completes)
| PNever -> Some ([], Silent)
| PError e -> Some ([], (Fails e))
| PRepeat v -> Some ((repeat v repeat_bound), Silent)
| PDefer q -> spec_pipe scripts0 q
| PStart _ -> Some (((VInt Z0) :: []), Completes)
| PFromResult r ->
  (match r with
   | Inl v -> Some ((v :: []), Completes)
   | Inr e -> Some ([], (Fails e)))
| POp (op, src, others) ->
  (match others with
   | [] ->
     if in_c02 op
     then (match spec_pipe scripts0 src with
           | Some i -> Some (spec_op op i)
           | None -> None)
     else None
   | _ :: _ -> None)
| _ -> None

(** val spec_pipe_children : (nat -> ev list list) -> pipe -> sout list **)

let spec_pipe_children scripts0 = function
| POp (op, src, others) ->
  (match others with
   | [] ->
     (match spec_pipe scripts0 src with
      | Some i -> spec_children op i
      | None -> [])
   | _ :: _ -> [])
| _ -> []

(** val has_repeat : pipe -> bool **)

let rec has_repeat = function
| PRepeat _ -> true
| PDefer q -> has_repeat q
| POp (_, src, _) -> has_repeat src
| _ -> false

type lst = { l_st : ostate; l_done : bool; l_up : bool }

(** val lst0 : opk -> lst **)

let lst0 op =
  { l_st = (init_state op []); l_done = false; l_up = true }

(** val l_set_st : lst -> ostate -> lst **)

let l_set_st s v =
  { l_st = v; l_done = s.l_done; l_up = s.l_up }

(** val l_end : lst -> lst **)

let l_end s =
  { l_st = s.l_st; l_done = true; l_up = false }

(** val l_abort : lst -> lst **)

let l_abort s =
  { l_st = s.l_st; l_done = s.l_done; l_up = false }

(** val loc_act : act -> lst -> lst * ev list **)

let rec loc_act a s =
  match a with
  | SinkNext v -> if s.l_done then (s, []) else (s, ((Nx v) :: []))
  | SinkError e ->
    if s.l_done then ((l_abort s), []) else ((l_end s), ((Er e) :: []))
  | SinkComplete _ ->
    if s.l_done then ((l_abort s), []) else ((l_end s), (Co :: []))
  | SinkCompleteForce ->
    if s.l_done then ((l_abort s), []) else ((l_end s), (Co :: []))
  | UpAbort _ -> ((l_abort s), [])
  | Finalize -> ((l_end s), [])
  | IfSub (yes, no) ->
    let rec go l s0 =
      match l with
      | [] -> (s0, [])
      | a0 :: r ->
        let (s1, o1) = loc_act a0 s0 in
        let (s2, o2) = go r s1 in (s2, (app o1 o2))
    in go (if s.l_done then no else yes) s
  | AFlush l -> if s.l_done then (s, []) else (s, (map (fun x -> Nx x) l))
  | AWith (_, body) ->
    let rec go l s0 =
      match l with
      | [] -> (s0, [])
      | a0 :: r ->
        let (s1, o1) = loc_act a0 s0 in
        let (s2, o2) = go r s1 in (s2, (app o1 o2))
    in go body s
  | ASetFlag b -> ((l_set_st s (st_set_flag s.l_st b)), [])
  | _ -> (s, [])

(** val loc_acts : act list -> lst -> lst * ev list **)

let rec loc_acts l s =
  match l with
  | [] -> (s, [])
  | a :: r ->
    let (s1, o1) = loc_act a s in
    let (s2, o2) = loc_acts r s1 in (s2, (app o1 o2))

(** val loc_step : opk -> lst -> ev -> lst * ev list **)

let loc_step op s e =
  if s.l_up
  then let (st', acts) = handler op PNever [] s.l_st O O O e in
       let s1 = l_set_st s st' in
       let s2 = if is_term e then l_abort s1 else s1 in loc_acts acts s2
  else (s, [])

(** val loc_feed : opk -> lst -> ev list -> lst * ev list **)

let rec loc_feed op s = function
| [] -> (s, [])
| e :: r ->
  let (s1, o1) = loc_step op s e in
  let (s2, o2) = loc_feed op s1 r in (s2, (app o1 o2))

(** val loc_run : opk -> ev list -> ev list **)

let loc_run op l =
  snd (loc_feed op (lst0 op) l)

(** val expand : opk -> opk list **)

let expand op = match op with
| OFirst -> (OTake (S O)) :: (OFwd :: [])
| OLast -> (OTakeLast (S O)) :: (OFwd :: [])
| OElementAt n -> (OTake n) :: ((OSkip (sub n (S O))) :: (OFwd :: []))
| OAll p -> (OFilter (neg_pred p)) :: ((OTake (S O)) :: ((OAll p) :: []))
| OStartWith _ -> OFwd :: []
| _ -> op :: []

(** val prefix_of : opk -> ev list **)

let prefix_of = function
| OStartWith l -> map (fun x -> Nx x) l
| _ -> []

(** val loc_op : opk -> ev list -> ev list **)

let loc_op op l =
  app (prefix_of op) (fold_left (fun acc o -> loc_run o acc) (expand op) l)

(** val loc_chain : opk list -> ev list -> ev list **)

let loc_chain ops l =
  fold_left (fun acc o -> loc_op o acc) ops l

(** val loc_node_op : opk -> bool **)

let loc_node_op = function
| OFirst -> false
| OLast -> false
| OElementAt _ -> false
| OAll _ -> false
| OStartWith _ -> false
| OBuffer n -> (match n with
                | O -> false
                | S _ -> true)
| OWindow n -> (match n with
                | O -> false
                | S _ -> true)
| OMerge -> false
| OFlatMap _ -> false
| OConcat -> false
| OZip -> false
| OCombineLatest _ -> false
| OAmb -> false
| OTakeUntil -> false
| OSkipUntil -> false
| OSample -> false
| OSwitchOnNext -> false
| OSequenceEqual -> false
| ORetry _ -> false
| ORetryWhen _ -> false
| OResume -> false
| _ -> true

(** val loc_derived_op : opk -> bool **)

let loc_derived_op = function
| OFirst -> true
| OLast -> true
| OElementAt _ -> true
| OAll _ -> true
| OStartWith _ -> true
| _ -> false

type observation = { ob_out : nat; ob_log : ((nat * nat) * ev) list;
                     ob_tap : (nat * ev) list;
                     ob_probes : (((((nat * nat) * nat) * bool) * nat) * nat)
                                 list;
                     ob_snaps : ((nat * bool list) * nat list) list }

(** val obs_of_run : (req list * world) -> observation **)

let obs_of_run = function
| (stk, w) ->
  { ob_out =
    (match w.out with
     | Running -> (match stk with
                   | [] -> O
                   | _ :: _ -> S O)
     | SelfDeadlock _ -> S O); ob_log = w.log; ob_tap = w.taplog; ob_probes =
    w.probes; ob_snaps = w.snaps }

(** val ulog : nat -> ((nat * nat) * ev) list -> ev list **)

let ulog u l =
  map snd (filter (fun p -> Nat.eqb (fst (fst p)) u) l)

(** val users : ((nat * nat) * ev) list -> nat list **)

let users l =
  nodup Nat.eq_dec (map (fun p -> fst (fst p)) l)

(** val contract_ok : ev list -> bool **)

let rec contract_ok = function
| [] -> true
| e :: r ->
  if is_term e
  then (match r with
        | [] -> true
        | _ :: _ -> false)
  else contract_ok r

(** val c01_oracle : observation -> bool **)

let c01_oracle o =
  forallb (fun u -> contract_ok (ulog u o.ob_log)) (users o.ob_log)

(** val val_sim : val0 -> val0 -> bool **)

let rec val_sim a b =
  match a with
  | VList l1 ->
    (match b with
     | VList l2 ->
       let rec go l3 l4 =
         match l3 with
         | [] -> (match l4 with
                  | [] -> true
                  | _ :: _ -> false)
         | x :: r ->
           (match l4 with
            | [] -> false
            | y :: s -> (&&) (val_sim x y) (go r s))
       in go l1 l2
     | _ -> val_eqb a b)
  | VMatN x -> (match b with
                | VMatN y -> val_sim x y
                | _ -> val_eqb a b)
  | VObs _ -> (match b with
               | VObs _ -> true
               | _ -> val_eqb a b)
  | _ -> val_eqb a b

(** val ev_sim : ev -> ev -> bool **)

let ev_sim a b =
  match a with
  | Nx x -> (match b with
             | Nx y -> val_sim x y
             | _ -> false)
  | Er x -> (match b with
             | Er y -> Nat.eqb x y
             | _ -> false)
  | Co -> (match b with
           | Co -> true
           | _ -> false)

(** val evs_sim : ev list -> ev list -> bool **)

let rec evs_sim a b =
  match a with
  | [] -> (match b with
           | [] -> true
           | _ :: _ -> false)
  | x :: r ->
    (match b with
     | [] -> false
     | y :: s -> (&&) (ev_sim x y) (evs_sim r s))

(** val scripts_of : scenario -> nat -> ev list list **)

let scripts_of sc s =
  fst (nth s sc.sc_scripts ([], false))

(** val is_windowing : opk -> bool **)

let is_windowing = function
| OWindow _ -> true
| OGroupBy _ -> true
| _ -> false

(** val inner_windowing : pipe -> bool **)

let rec inner_windowing = function
| PDefer q -> inner_windowing q
| POp (_, src, _) ->
  let rec below = function
  | PDefer s -> below s
  | POp (o, s, _) -> (||) (is_windowing o) (below s)
  | _ -> false
  in below src
| _ -> false

(** val c02_oracle : scenario -> observation -> bool option **)

let c02_oracle sc o =
  match sc.sc_script with
  | [] -> None
  | a :: l ->
    (match a with
     | DSub (k, p, rs) ->
       (match k with
        | O ->
          (match rs with
           | [] ->
             (match l with
              | [] ->
                if inner_windowing p
                then None
                else (match spec_pipe (scripts_of sc) p with
                      | Some exp ->
                        if (&&) (has_repeat p)
                             (negb
                               (match snd exp with
                                | Completes -> true
                                | _ -> false))
                        then None
                        else let kids = spec_pipe_children (scripts_of sc) p
                             in
                             Some
                             ((&&)
                               ((&&)
                                 ((&&) (Nat.eqb o.ob_out O)
                                   (evs_sim (ulog (uenc (UTop O)) o.ob_log)
                                     (events exp)))
                                 (forallb (fun ik ->
                                   evs_sim
                                     (ulog (uenc (UChild (fst ik))) o.ob_log)
                                     (events (snd ik)))
                                   (combine (seq O (length kids)) kids)))
                               (forallb (fun u ->
                                 match udec u with
                                 | UTop k0 -> Nat.eqb k0 O
                                 | UChild j -> Nat.ltb j (length kids))
                                 (users o.ob_log)))
                      | None -> None)
              | _ :: _ -> None)
           | _ :: _ -> None)
        | S _ -> None)
     | _ -> None)

(** val chain_of : pipe -> (pipe * opk list) option **)

let rec chain_of p = match p with
| PHot _ -> None
| PInner _ -> None
| PConn _ -> None
| POp (op, src, others) ->
  (match others with
   | [] ->
     (match chain_of src with
      | Some p0 -> let (s, ops) = p0 in Some (s, (app ops (op :: [])))
      | None -> None)
   | _ :: _ -> None)
| _ -> Some (p, [])

(** val loc_supported : opk -> bool **)

let loc_supported op =
  (||) (loc_node_op op) (loc_derived_op op)

(** val source_events : scenario -> pipe -> ev list option **)

let source_events sc p = match p with
| PCold s -> (match scripts_of sc s with
              | [] -> Some []
              | l :: _ -> Some l)
| _ ->
  (match spec_pipe (scripts_of sc) p with
   | Some i -> Some (events i)
   | None -> None)

(** val c02_loc_oracle : scenario -> observation -> bool option **)

let c02_loc_oracle sc o =
  match sc.sc_script with
  | [] -> None
  | a :: l ->
    (match a with
     | DSub (k, p, rs) ->
       (match k with
        | O ->
          (match rs with
           | [] ->
             (match l with
              | [] ->
                (match chain_of p with
                 | Some p0 ->
                   let (s, ops) = p0 in
                   if forallb loc_supported ops
                   then (match source_events sc s with
                         | Some evs ->
                           let out0 = loc_chain ops evs in
                           if (&&) (has_repeat p)
                                (negb (existsb is_term out0))
                           then None
                           else Some
                                  ((&&) (Nat.eqb o.ob_out O)
                                    (evs_sim (ulog (uenc (UTop O)) o.ob_log)
                                      out0))
                         | None -> None)
                   else None
                 | None -> None)
              | _ :: _ -> None)
           | _ :: _ -> None)
        | S _ -> None)
     | _ -> None)

(** val index_from : nat -> 'a1 list -> (nat * 'a1) list **)

let rec index_from i = function
| [] -> []
| x :: r -> (i, x) :: (index_from (S i) r)

(** val actions : scenario -> (nat * action) list **)

let actions sc =
  index_from (S O) sc.sc_script

(** val first_some : 'a1 option list -> 'a1 option **)

let first_some l =
  fold_right (fun o acc -> match o with
                           | Some x -> Some x
                           | None -> acc) None l

(** val sub_at : scenario -> nat -> nat option **)

let sub_at sc k =
  first_some
    (map (fun ia ->
      match snd ia with
      | DSub (k', _, _) -> if Nat.eqb k k' then Some (fst ia) else None
      | _ -> None) (actions sc))

(** val unsub_at : scenario -> nat -> nat option **)

let unsub_at sc k =
  match sub_at sc k with
  | Some s ->
    first_some
      (map (fun ia ->
        match snd ia with
        | DUnsub k' ->
          if (&&) (Nat.eqb k k') (Nat.ltb s (fst ia))
          then Some (fst ia)
          else None
        | _ -> None) (actions sc))
  | None -> None

(** val reactions_of : scenario -> nat -> (nat * reaction) list **)

let reactions_of sc k =
  flat_map (fun a ->
    match a with
    | DSub (k', _, rs) -> if Nat.eqb k k' then rs else []
    | _ -> []) sc.sc_script

(** val pipe_of : scenario -> nat -> pipe option **)

let pipe_of sc k =
  first_some
    (map (fun a ->
      match a with
      | DSub (k', p, _) -> if Nat.eqb k k' then Some p else None
      | _ -> None) sc.sc_script)

(** val simple_reactions : scenario -> bool **)

let simple_reactions sc =
  forallb (fun a ->
    match a with
    | DSub (_, _, rs) ->
      forallb (fun ir ->
        match snd ir with
        | RUnsubSelf -> true
        | REmit (_, _) -> true
        | _ -> false) rs
    | _ -> true) sc.sc_script

(** val uentries :
    nat -> ((nat * nat) * ev) list -> ((nat * nat) * ev) list **)

let uentries u l =
  flat_map (fun pe ->
    let (pos, p) = pe in
    let (p0, e) = p in
    let (u', c) = p0 in if Nat.eqb u' u then ((pos, c), e) :: [] else [])
    (index_from O l)

(** val term_entry : ((nat * nat) * ev) list -> (nat * nat) option **)

let term_entry es =
  first_some
    (map (fun pce ->
      let (p0, e) = pce in if is_term e then Some p0 else None) es)

(** val self_unsub_entry :
    scenario -> nat -> ((nat * nat) * ev) list -> (nat * nat) option **)

let self_unsub_entry sc k es =
  match sub_at sc k with
  | Some s ->
    first_some
      (map (fun ir ->
        match snd ir with
        | RUnsubSelf ->
          (match nth_error es (fst ir) with
           | Some p0 ->
             let (p1, _) = p0 in
             let (p, c) = p1 in if Nat.ltb s c then Some (p, c) else None
           | None -> None)
        | _ -> None) (reactions_of sc k))
  | None -> None

(** val c05_handle : scenario -> observation -> nat -> bool **)

let c05_handle sc o k =
  let es = uentries (uenc (UTop k)) o.ob_log in
  let ua = unsub_at sc k in
  let su = self_unsub_entry sc k es in
  let te = term_entry es in
  (&&)
    ((&&)
      (match ua with
       | Some a -> forallb (fun pce -> Nat.ltb (snd (fst pce)) a) es
       | None -> true)
      (match su with
       | Some p0 ->
         let (p, _) = p0 in forallb (fun pce -> Nat.leb (fst (fst pce)) p) es
       | None -> true))
    (forallb (fun snap ->
      let (p, _) = snap in
      let (j, flags) = p in
      let expected =
        match sub_at sc k with
        | Some s ->
          (&&)
            ((&&)
              ((&&) (Nat.leb s j)
                (negb (match ua with
                       | Some a -> Nat.leb a j
                       | None -> false)))
              (negb
                (match su with
                 | Some p0 -> let (_, c) = p0 in Nat.leb c j
                 | None -> false)))
            (negb
              (match te with
               | Some p0 -> let (_, c) = p0 in Nat.leb c j
               | None -> false))
        | None -> false
      in
      eqb (nth k flags false) expected) o.ob_snaps)

(** val c05_oracle : scenario -> observation -> bool option **)

let c05_oracle sc o =
  if negb (Nat.eqb o.ob_out O)
  then None
  else if negb (simple_reactions sc)
       then None
       else Some (forallb (c05_handle sc o) (seq O sc.sc_handles))

(** val colds_in : pipe -> bool **)

let rec colds_in = function
| PCold _ -> true
| PDefer q -> colds_in q
| POp (_, src, others) ->
  (||) (colds_in src)
    (let rec any = function
     | [] -> false
     | q :: r -> (||) (colds_in q) (any r)
     in any others)
| _ -> false

(** val end_marks :
    scenario -> observation -> nat -> nat option * nat option **)

let end_marks sc o k =
  let es = uentries (uenc (UTop k)) o.ob_log in
  let by_term =
    match term_entry es with
    | Some p0 -> let (p, _) = p0 in Some p
    | None -> None
  in
  let by_self =
    match self_unsub_entry sc k es with
    | Some p0 -> let (p, _) = p0 in Some p
    | None -> None
  in
  ((match by_term with
    | Some a ->
      (match by_self with
       | Some b -> Some (Nat.min a b)
       | None -> Some a)
    | None -> by_self), (unsub_at sc k))

(** val c06_oracle : scenario -> observation -> bool option **)

let c06_oracle sc o =
  if negb (Nat.eqb o.ob_out O)
  then None
  else if negb (simple_reactions sc)
       then None
       else let others_cold =
              existsb (fun k ->
                match pipe_of sc k with
                | Some p -> colds_in p
                | None -> false) (seq (S O) (sub sc.sc_handles (S O)))
            in
            let conns_cold = existsb (fun kp -> colds_in (snd kp)) sc.sc_conns
            in
            if (||) others_cold conns_cold
            then None
            else let (pos_end, act_end) = end_marks sc o O in
                 let probes_ok =
                   forallb (fun pr ->
                     let (p, c) = pr in
                     let (p0, loglen) = p in
                     let (_, alive) = p0 in
                     let after_pos =
                       match pos_end with
                       | Some p1 -> Nat.ltb p1 loglen
                       | None -> false
                     in
                     let after_act =
                       match act_end with
                       | Some a -> Nat.leb a c
                       | None -> false
                     in
                     if (||) after_pos after_act then negb alive else true)
                     o.ob_probes
                 in
                 let all_ended = fun flags -> forallb negb flags in
                 let counts_ok =
                   match rev o.ob_snaps with
                   | [] -> true
                   | p :: _ ->
                     let (p0, counts) = p in
                     let (_, flags) = p0 in
                     if (&&) (all_ended flags)
                          (forallb (fun _ -> true) (seq O sc.sc_handles))
                     then forallb (fun n -> Nat.eqb n O) counts
                     else true
                 in
                 Some ((&&) probes_ok counts_ok)

type sref = { r_reg : nat list; r_items : val0 list; r_term : ev option;
              r_logs : (nat -> ev list); r_joined_at : (nat -> nat) }

(** val r_add_log : sref -> nat -> ev list -> sref **)

let r_add_log r k es =
  { r_reg = r.r_reg; r_items = r.r_items; r_term = r.r_term; r_logs =
    (fun x -> if Nat.eqb x k then app (r.r_logs x) es else r.r_logs x);
    r_joined_at = r.r_joined_at }

(** val r_deliver : sref -> ev list -> sref **)

let r_deliver r es =
  fold_left (fun acc k -> r_add_log acc k es) r.r_reg r

(** val r_set_reg : sref -> nat list -> sref **)

let r_set_reg r l =
  { r_reg = l; r_items = r.r_items; r_term = r.r_term; r_logs = r.r_logs;
    r_joined_at = r.r_joined_at }

(** val r_push : sref -> val0 -> sref **)

let r_push r v =
  { r_reg = r.r_reg; r_items = (app r.r_items (v :: [])); r_term = r.r_term;
    r_logs = r.r_logs; r_joined_at = r.r_joined_at }

(** val r_set_term : sref -> ev -> sref **)

let r_set_term r t =
  { r_reg = r.r_reg; r_items = r.r_items; r_term = (Some t); r_logs =
    r.r_logs; r_joined_at = r.r_joined_at }

(** val r_join : sref -> nat -> sref **)

let r_join r k =
  { r_reg = (app r.r_reg (k :: [])); r_items = r.r_items; r_term = r.r_term;
    r_logs = r.r_logs; r_joined_at = (fun x ->
    if Nat.eqb x k then length r.r_items else r.r_joined_at x) }

(** val sref0 : val0 option -> sref **)

let sref0 init =
  { r_reg = []; r_items = (match init with
                           | Some v -> v :: []
                           | None -> []); r_term = None; r_logs = (fun _ ->
    []); r_joined_at = (fun _ -> O) }

(** val sref_step : skind -> sref -> action -> sref **)

let sref_step kind r = function
| DSub (k, _, _) ->
  (match kind with
   | KBehavior ->
     (match r.r_term with
      | Some t -> r_add_log r k (t :: [])
      | None ->
        r_join
          (r_add_log r k
            (match last (map (fun x -> Some x) r.r_items) None with
             | Some v -> (Nx v) :: []
             | None -> [])) k)
   | KReplay ->
     let r1 = r_add_log r k (map (fun x -> Nx x) r.r_items) in
     (match r.r_term with
      | Some t -> r_add_log r1 k (t :: [])
      | None -> r_join r1 k)
   | _ -> r_join r k)
| DUnsub k -> r_set_reg r (filter (fun x -> negb (Nat.eqb x k)) r.r_reg)
| DEmit (_, e0) ->
  (match e0 with
   | Nx v ->
     (match kind with
      | KAsync -> r_push r v
      | _ -> r_deliver (r_push r v) ((Nx v) :: []))
   | Er e -> r_set_reg (r_deliver (r_set_term r (Er e)) ((Er e) :: [])) []
   | Co ->
     (match kind with
      | KAsync ->
        let r1 =
          fold_left (fun acc k ->
            r_add_log acc k
              (match last
                       (map (fun x -> Some x)
                         (skipn (r.r_joined_at k) r.r_items)) None with
               | Some v -> (Nx v) :: (Co :: [])
               | None -> Co :: [])) r.r_reg r
        in
        r_set_reg (r_set_term r1 Co) []
      | _ -> r_set_reg (r_deliver (r_set_term r Co) (Co :: [])) []))
| _ -> r

(** val emits_after_terminal : bool -> action list -> bool **)

let rec emits_after_terminal seen = function
| [] -> false
| a :: r ->
  (match a with
   | DEmit (_, e) -> if seen then true else emits_after_terminal (is_term e) r
   | _ -> emits_after_terminal seen r)

(** val direct_or_id : pipe -> bool **)

let direct_or_id = function
| PHot h -> (match h with
             | O -> true
             | S _ -> false)
| POp (o, src, others) ->
  (match o with
   | OMap f ->
     (match f with
      | FId ->
        (match src with
         | PHot h ->
           (match h with
            | O -> (match others with
                    | [] -> true
                    | _ :: _ -> false)
            | S _ -> false)
         | _ -> false)
      | _ -> false)
   | OFilter p0 ->
     (match p0 with
      | PTrue ->
        (match src with
         | PHot h ->
           (match h with
            | O -> (match others with
                    | [] -> true
                    | _ :: _ -> false)
            | S _ -> false)
         | _ -> false)
      | _ -> false)
   | OMapToAny ->
     (match src with
      | PHot h ->
        (match h with
         | O -> (match others with
                 | [] -> true
                 | _ :: _ -> false)
         | S _ -> false)
      | _ -> false)
   | _ -> false)
| _ -> false

(** val c10_oracle : scenario -> observation -> bool option **)

let c10_oracle sc o =
  match sc.sc_subjects with
  | [] -> None
  | p :: l ->
    let (kind, init) = p in
    (match l with
     | [] ->
       (match sc.sc_conns with
        | [] ->
          if negb (Nat.eqb o.ob_out O)
          then None
          else if negb
                    (forallb (fun a ->
                      match a with
                      | DSub (_, p0, rs) ->
                        (match rs with
                         | [] -> direct_or_id p0
                         | _ :: _ -> false)
                      | DUnsub _ -> true
                      | DEmit (h, _) -> Nat.eqb h O
                      | _ -> false) sc.sc_script)
               then None
               else if (&&) (match kind with
                             | KSubject -> false
                             | _ -> true)
                         (emits_after_terminal false sc.sc_script)
                    then None
                    else let r =
                           fold_left (sref_step kind) sc.sc_script
                             (sref0
                               (match kind with
                                | KBehavior -> init
                                | _ -> None))
                         in
                         Some
                         ((&&)
                           (forallb (fun k ->
                             evs_sim (ulog (uenc (UTop k)) o.ob_log)
                               (r.r_logs k)) (seq O sc.sc_handles))
                           (match kind with
                            | KSubject ->
                              let states =
                                fold_left (fun acc a ->
                                  app acc
                                    ((sref_step kind (last acc (sref0 None))
                                       a) :: [])) sc.sc_script
                                  ((sref0 None) :: [])
                              in
                              forallb (fun js ->
                                match nth_error o.ob_snaps (fst js) with
                                | Some p0 ->
                                  let (_, counts) = p0 in
                                  Nat.eqb (nth O counts O)
                                    (length (snd js).r_reg)
                                | None -> true)
                                (combine (seq O (length sc.sc_script))
                                  (tl states))
                            | _ -> true))
        | _ :: _ -> None)
     | _ :: _ -> None)

type cref = { q_reg : nat list; q_conn : bool; q_items : val0 list;
              q_term : ev option; q_logs : (nat -> ev list);
              q_attempts : nat; q_dbl : bool }

(** val q_add_log : cref -> nat -> ev list -> cref **)

let q_add_log r k es =
  { q_reg = r.q_reg; q_conn = r.q_conn; q_items = r.q_items; q_term =
    r.q_term; q_logs = (fun x ->
    if Nat.eqb x k then app (r.q_logs x) es else r.q_logs x); q_attempts =
    r.q_attempts; q_dbl = r.q_dbl }

(** val q_upd : cref -> nat list -> bool -> cref **)

let q_upd r reg conn0 =
  { q_reg = reg; q_conn = conn0; q_items = r.q_items; q_term = r.q_term;
    q_logs = r.q_logs; q_attempts = r.q_attempts; q_dbl = r.q_dbl }

(** val q_deliver : cref -> ev list -> cref **)

let q_deliver r es =
  fold_left (fun acc k -> q_add_log acc k es) r.q_reg r

(** val q_source_ev : ckind -> cref -> ev -> cref **)

let q_source_ev _ r e =
  if r.q_conn
  then (match e with
        | Nx v ->
          let r1 = q_deliver r ((Nx v) :: []) in
          { q_reg = r1.q_reg; q_conn = true; q_items =
          (app r1.q_items (v :: [])); q_term = r1.q_term; q_logs = r1.q_logs;
          q_attempts = r1.q_attempts; q_dbl = r1.q_dbl }
        | _ ->
          let r1 = q_deliver r (e :: []) in
          { q_reg = []; q_conn = false; q_items = r1.q_items; q_term = (Some
          e); q_logs = r1.q_logs; q_attempts = r1.q_attempts; q_dbl =
          r1.q_dbl })
  else r

(** val q_connect : ckind -> ev list option -> cref -> cref **)

let q_connect kind cold r =
  let r1 = { q_reg = r.q_reg; q_conn = true; q_items = r.q_items; q_term =
    r.q_term; q_logs = r.q_logs; q_attempts = (S r.q_attempts); q_dbl =
    ((||) r.q_dbl r.q_conn) }
  in
  (match cold with
   | Some script -> fold_left (q_source_ev kind) script r1
   | None -> r1)

(** val cref_step : ckind -> ev list option -> cref -> action -> cref **)

let cref_step kind cold r = function
| DSub (k, _, _) ->
  (match kind with
   | CPublish -> q_upd r (app r.q_reg (k :: [])) r.q_conn
   | CRefCount ->
     let r1 = q_upd r (app r.q_reg (k :: [])) r.q_conn in
     if r.q_conn then r1 else q_connect kind cold r1
   | CReplay ->
     let r0 = q_add_log r k (map (fun x -> Nx x) r.q_items) in
     (match r.q_term with
      | Some t -> q_add_log r0 k (t :: [])
      | None ->
        let r1 = q_upd r0 (app r0.q_reg (k :: [])) r0.q_conn in
        if r.q_conn then r1 else q_connect kind cold r1))
| DUnsub k ->
  let reg = filter (fun x -> negb (Nat.eqb x k)) r.q_reg in
  (match kind with
   | CPublish -> q_upd r reg r.q_conn
   | _ -> q_upd r reg (match reg with
                       | [] -> false
                       | _ :: _ -> r.q_conn))
| DEmit (_, e) -> q_source_ev kind r e
| DConnect (_, _) ->
  (match kind with
   | CPublish -> q_connect kind cold r
   | _ -> r)
| DDisconnect _ ->
  (match kind with
   | CPublish -> q_upd r r.q_reg false
   | _ -> r)

(** val cref0 : cref **)

let cref0 =
  { q_reg = []; q_conn = false; q_items = []; q_term = None; q_logs =
    (fun _ -> []); q_attempts = O; q_dbl = false }

(** val c13_oracle : scenario -> observation -> bool option **)

let c13_oracle sc o =
  match sc.sc_conns with
  | [] -> None
  | p :: l ->
    let (kind, srcp) = p in
    (match l with
     | [] ->
       let cold =
         match srcp with
         | PCold s ->
           (match s with
            | O ->
              (match scripts_of sc O with
               | [] -> None
               | l0 :: _ ->
                 (match parse_script l0 with
                  | Some i -> Some (Some (events i))
                  | None -> None))
            | S _ -> None)
         | PHot h ->
           (match h with
            | O ->
              (match sc.sc_subjects with
               | [] -> None
               | p0 :: l0 ->
                 let (s, _) = p0 in
                 (match s with
                  | KSubject ->
                    (match l0 with
                     | [] -> Some None
                     | _ :: _ -> None)
                  | _ -> None))
            | S _ -> None)
         | _ -> None
       in
       (match cold with
        | Some cold0 ->
          if negb (Nat.eqb o.ob_out O)
          then None
          else if negb
                    (forallb (fun a ->
                      match a with
                      | DSub (_, p0, rs) ->
                        (match p0 with
                         | PConn k0 ->
                           (match k0 with
                            | O ->
                              (match rs with
                               | [] -> true
                               | _ :: _ -> false)
                            | S _ -> false)
                         | _ -> false)
                      | DEmit (h, _) ->
                        (&&) (Nat.eqb h O)
                          (match cold0 with
                           | Some _ -> false
                           | None -> true)
                      | _ -> true) sc.sc_script)
               then None
               else let states =
                      fold_left (fun acc a ->
                        app acc
                          ((cref_step kind cold0 (last acc cref0) a) :: []))
                        sc.sc_script (cref0 :: [])
                    in
                    let r = last states cref0 in
                    if r.q_dbl
                    then None
                    else Some
                           ((&&)
                             (forallb (fun k ->
                               evs_sim (ulog (uenc (UTop k)) o.ob_log)
                                 (r.q_logs k)) (seq O sc.sc_handles))
                             (match cold0 with
                              | Some _ ->
                                Nat.eqb
                                  (length
                                    (nodup Nat.eq_dec
                                      (map (fun pr ->
                                        let (p0, _) = pr in
                                        let (p1, _) = p0 in
                                        let (p2, _) = p1 in
                                        let (p3, _) = p2 in
                                        let (_, att) = p3 in att) o.ob_probes)))
                                  r.q_attempts
                              | None ->
                                forallb (fun js ->
                                  match nth_error o.ob_snaps (fst js) with
                                  | Some p0 ->
                                    let (_, counts) = p0 in
                                    Nat.eqb (nth O counts O)
                                      (if (snd js).q_conn then S O else O)
                                  | None -> true)
                                  (combine (seq O (length sc.sc_script))
                                    (tl states))))
        | None -> None)
     | _ :: _ -> None)
