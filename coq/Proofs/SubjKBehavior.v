(* C10, BehaviorSubject: the automaton of subjects/behavior_subject.rs (Model/SubjK.v: history cells, forwarding observer
   registered in the inner Subject, sbsc cell) refines the reference machine of the definition (Oracle2.sref_step) for EVERY
   call history in which the subject is not used after its own terminal: a new subscriber is handed the latest value (the
   initial one if nothing was pushed) or the stored terminal; after the hand-over it hears what a Subject's observer hears. *)
From Coq Require Import List ZArith Bool Arith Lia.
From RX Require Import Val Syntax Step Oracle Oracle2 SubjK.
From RXP Require Import SubjKRef SubjKReplay.
Import ListNotations.

Lemma fwd_fold_b e : forall (l : list nat) (s : sk) (r : sref),
  NoDup l -> (forall k, In k l -> sk_ualive s k = true /\ sk_falive s k = true) ->
  (forall k, sk_logs s k = r_logs r k) ->
  let s' := fold_left (fun acc k => f_deliver KBehavior acc k e) l s in
  let r' := fold_left (fun acc k => r_add_log acc k [e]) l r in
  (forall k, sk_logs s' k = r_logs r' k) /\
  (sk_obs s', sk_serial s', sk_last s', sk_err s', sk_items s', sk_done s', sk_used s', sk_ready s', sk_ser s', sk_td s', sk_unsub s') =
  (sk_obs s, sk_serial s, sk_last s, sk_err s, sk_items s, sk_done s, sk_used s, sk_ready s, sk_ser s, sk_td s, sk_unsub s) /\
  (forall k, sk_ualive s' k = if is_term e && existsb (Nat.eqb k) l then false else sk_ualive s k) /\
  (forall k, sk_falive s' k = if is_term e && existsb (Nat.eqb k) l then false else sk_falive s k) /\
  r_reg r' = r_reg r /\ r_items r' = r_items r /\ r_term r' = r_term r.
Proof.
  induction l as [|k l IH]; intros s r ND AL LG; cbn [fold_left].
  - cbn. repeat split; auto; intro k; now rewrite andb_false_r.
  - inversion ND as [|? ? NI ND']; subst.
    destruct (AL k (or_introl eq_refl)) as (A & F).
    set (s1 := f_deliver KBehavior s k e). set (r1 := r_add_log r k [e]).
    assert (E1 : s1 = u_deliver (if is_term e then s_falive s (updf (sk_falive s) k false) else s) k e).
    { subst s1. unfold f_deliver. rewrite F. reflexivity. }
    set (s0 := if is_term e then s_falive s (updf (sk_falive s) k false) else s) in *.
    assert (A0 : sk_ualive s0 k = true) by (subst s0; destruct (is_term e); exact A).
    assert (L1 : forall x, sk_logs s1 x = r_logs r1 x).
    { intro x. rewrite E1, u_deliver_logs, A0. cbn [andb]. subst r1. rewrite r_add_log_logs.
      assert (X : sk_logs s0 x = sk_logs s x) by (subst s0; destruct (is_term e); reflexivity). rewrite X, LG. reflexivity. }
    assert (AL1 : forall x, In x l -> sk_ualive s1 x = true /\ sk_falive s1 x = true).
    { intros x Hx. assert (NE : Nat.eqb x k = false) by (apply Nat.eqb_neq; intro; subst; contradiction).
      destruct (AL x (or_intror Hx)) as (A' & F').
      rewrite E1. rewrite u_deliver_ualive. rewrite NE, andb_false_r.
      pose proof (u_deliver_rest s0 k e) as RS. unfold rest in RS. injection RS as _ _ _ _ _ _ _ RF _ _ _ _ _. rewrite RF.
      subst s0. destruct (is_term e); cbn; unfold updf; rewrite ?NE; auto. }
    destruct (IH s1 r1 ND' AL1 L1) as (H1 & H2 & H3 & H4 & H5 & H6 & H7). cbn zeta in *.
    pose proof (u_deliver_rest s0 k e) as RS. unfold rest in RS. rewrite <- E1 in RS.
    injection RS as Q1 Q2 Q3 Q4 Q5 Q6 Q7 Q8 Q9 Q10 Q11 Q12 Q13.
    assert (S0 : (sk_obs s0, sk_serial s0, sk_last s0, sk_err s0, sk_items s0, sk_done s0, sk_used s0, sk_ready s0, sk_ser s0, sk_td s0, sk_unsub s0) =
                 (sk_obs s, sk_serial s, sk_last s, sk_err s, sk_items s, sk_done s, sk_used s, sk_ready s, sk_ser s, sk_td s, sk_unsub s))
      by (subst s0; destruct (is_term e); reflexivity).
    split; [exact H1|]. split; [rewrite H2, Q1, Q2, Q3, Q4, Q5, Q6, Q7, Q9, Q10, Q11, Q12; exact S0|].
    split; [|split].
    + intro x. rewrite H3. cbn [existsb]. rewrite E1, u_deliver_ualive, A0. cbn [andb].
      assert (X : sk_ualive s0 x = sk_ualive s x) by (subst s0; destruct (is_term e); reflexivity). rewrite X.
      destruct (is_term e); cbn [andb]; [|reflexivity]. destruct (Nat.eqb x k); cbn [orb]; [now destruct (existsb (Nat.eqb x) l) | reflexivity].
    + intro x. rewrite H4. cbn [existsb]. rewrite Q8.
      subst s0. destruct (is_term e); cbn [andb]; [|reflexivity]. cbn. unfold updf.
      destruct (Nat.eqb x k); cbn [orb]; [now destruct (existsb (Nat.eqb x) l) | reflexivity].
    + repeat split; [rewrite H5 | rewrite H6 | rewrite H7]; reflexivity.
Qed.

(* ------------------------------------------------------------------ the simulation relation *)
Definition stored_term_b (s : sk) : option ev :=
  match sk_err s with Some x => Some (Er x) | None => match sk_last s with None => Some Co | Some _ => None end end.

Record RelB (s : sk) (r : sref) : Prop := {
  B_reg : map snd (sk_obs s) = r_reg r;
  B_logs : forall k, sk_logs s k = r_logs r k;
  B_last : r_term r = None -> sk_last s = last (map Some (r_items r)) None /\ sk_last s <> None;
  B_term : r_term r = stored_term_b s;
  B_entry : forall ser k, In (ser, k) (sk_obs s) ->
              sk_ser s k = Some ser /\ sk_ualive s k = true /\ sk_falive s k = true /\
              sk_td s k = true /\ sk_unsub s k = true /\ sk_used s k = true;
  B_fresh : forall k ser, sk_ser s k = Some ser -> ser <= sk_serial s;
  B_own : forall k ser k', sk_ser s k = Some ser -> In (ser, k') (sk_obs s) -> k' = k;
  B_nd1 : NoDup (map fst (sk_obs s));
  B_nd2 : NoDup (map snd (sk_obs s));
  B_unused : forall k, sk_used s k = false -> sk_unsub s k = false /\ sk_ser s k = None;
  B_gone : forall k, ~ In k (map snd (sk_obs s)) -> sk_falive s k = false;
  B_ended : r_term r <> None -> sk_obs s = [] }.

Definition bs0 (s : sk) (k : nat) : sk :=
  s_unsub (s_td (s_ualive (s_used s (updf (sk_used s) k true)) (updf (sk_ualive s) k true)) (updf (sk_td s) k false)) (updf (sk_unsub s) k true).
Lemma step_sub_behavior s k p rs : sk_used s k = false ->
  sk_step KBehavior s (DSub k p rs) =
  match sk_err s, sk_last s with
  | Some x, _ => u_deliver (bs0 s k) k (Er x)
  | None, None => u_deliver (bs0 s k) k Co
  | None, Some v =>
      let s1 := u_deliver (bs0 s k) k (Nx v) in
      if sk_ualive s1 k then inner_join (s_falive (s_td s1 (updf (sk_td s1) k true)) (updf (sk_falive s1) k true)) k else s1
  end.
Proof. intro H. unfold sk_step. rewrite H. reflexivity. Qed.

Lemma last_some_app (l : list val) v : last (map Some (l ++ [v])) None = Some v.
Proof. rewrite map_app. cbn. induction (map Some l) as [|x t IH]; cbn; auto. destruct (t ++ [Some v]) eqn:E; [destruct t; discriminate | exact IH]. Qed.

Lemma relb_step s r a :
  RelB s r ->
  (match a with
   | DSub k (PHot 0) [] => sk_used s k = false
   | DEmit h _ => h = 0 /\ r_term r = None
   | DUnsub _ => True
   | _ => False
   end) ->
  RelB (sk_step KBehavior s a) (sref_step KBehavior r a).
Proof.
  intros [Rg Lg La Tm En Fr Ow N1 N2 Un Gn Ed] Ha.
  destruct a as [k p rs | k | h e | | |]; try contradiction.
  - (* subscribe *)
    destruct p; try contradiction. destruct h; try contradiction. destruct rs; try contradiction.
    rewrite (step_sub_behavior s k (PHot 0) [] Ha). cbn [sref_step].
    destruct (Un k Ha) as [U1 U2].
    assert (NI : ~ In k (map snd (sk_obs s))).
    { intro X. apply in_map_iff in X. destruct X as [[ser k'] [E I]]. cbn in E; subst. destruct (En _ _ I) as (_ & _ & _ & _ & _ & X). congruence. }
    assert (NS : ~ In (S (sk_serial s)) (map fst (sk_obs s))).
    { intro X. apply in_map_iff in X. destruct X as [[ser k'] [E I]]. cbn in E; subst. destruct (En _ _ I) as (X & _). apply Fr in X. lia. }
    assert (A0 : sk_ualive (bs0 s k) k = true) by (unfold bs0; cbn; unfold updf; now rewrite Nat.eqb_refl).
    unfold stored_term_b in Tm.
    destruct (sk_err s) as [x|] eqn:SE; [| destruct (sk_last s) as [v|] eqn:SL].
    + (* stored error *)
      rewrite Tm.
      assert (OB : sk_obs s = []) by (apply Ed; rewrite Tm; discriminate).
      set (s4 := u_deliver (bs0 s k) k (Er x)).
      pose proof (u_deliver_rest (bs0 s k) k (Er x)) as R4. fold s4 in R4. unfold rest, bs0 in R4. cbn in R4.
      injection R4 as T1 T2 T3 T4 T5 T6 T7 T8 T9 T10 T11 T12 T13.
      assert (L4 : forall j, sk_logs s4 j = if Nat.eqb j k then r_logs r j ++ [Er x] else r_logs r j).
      { intro j. subst s4. rewrite u_deliver_logs, A0. cbn [andb]. unfold bs0. cbn. rewrite Lg. reflexivity. }
      assert (A4 : forall j, sk_ualive s4 j = if Nat.eqb j k then false else sk_ualive s j).
      { intro j. subst s4. rewrite u_deliver_ualive, A0. cbn [andb is_term]. unfold bs0. cbn. unfold updf. destruct (Nat.eqb j k); reflexivity. }
      clearbody s4.
      constructor; cbn; normv s4.
      * exact Rg.
      * intro j. rewrite L4. destruct (Nat.eqb j k); reflexivity.
      * intro X. congruence.
      * unfold stored_term_b. normv s4. rewrite SE. exact Tm.
      * rewrite OB. intros ? ? [].
      * intros k' ser. unfold updf. apply Fr.
      * rewrite OB. intros ? ? ? _ [].
      * exact N1.
      * exact N2.
      * intros k'. unfold updf. destruct (Nat.eqb k' k); [discriminate | apply Un].
      * exact Gn.
      * intros _. exact OB.
    + (* a value to hand over: the subscriber joins *)
      cbv zeta.
      set (s1 := u_deliver (bs0 s k) k (Nx v)).
      assert (A1 : sk_ualive s1 k = true) by (subst s1; rewrite u_deliver_ualive; cbn; rewrite andb_false_r; exact A0).
      rewrite A1.
      pose proof (u_deliver_rest (bs0 s k) k (Nx v)) as R4. fold s1 in R4. unfold rest, bs0 in R4. cbn in R4.
      injection R4 as T1 T2 T3 T4 T5 T6 T7 T8 T9 T10 T11 T12 T13.
      assert (L4 : forall j, sk_logs s1 j = if Nat.eqb j k then r_logs r j ++ [Nx v] else r_logs r j).
      { intro j. subst s1. rewrite u_deliver_logs, A0. cbn [andb]. unfold bs0. cbn. rewrite Lg. reflexivity. }
      assert (U1' : sk_ualive s1 = updf (sk_ualive s) k true).
      { subst s1. unfold u_deliver. rewrite A0. reflexivity. }
      clearbody s1.
      assert (TN : r_term r = None) by exact Tm.
      destruct (La TN) as [LA _]. rewrite TN.
      assert (LV : last (map Some (r_items r)) None = Some v) by (rewrite <- LA; reflexivity).
      rewrite LV.
      unfold inner_join. constructor; cbn; normv s1.
      * rewrite map_app. cbn. now rewrite Rg.
      * intro j. rewrite L4. destruct (Nat.eqb j k); reflexivity.
      * intros _. rewrite LV, ?SL. split; [reflexivity | discriminate].
      * unfold stored_term_b. cbn. normv s1. rewrite SE, ?SL. exact Tm.
      * intros ser k' HI. unfold updf.
        apply in_app_or in HI. destruct HI as [HI | [HI | []]].
        -- destruct (En _ _ HI) as (A & B & C & D & E & F).
           assert (k' <> k) by (intro; subst; apply NI; eapply in_snd; eauto).
           destruct (Nat.eqb k' k) eqn:Q; [apply Nat.eqb_eq in Q; contradiction|]. auto 10.
        -- inversion HI; subst. rewrite Nat.eqb_refl. auto 10.
      * intros k' ser. unfold updf. destruct (Nat.eqb k' k).
        -- intros [= <-]. lia.
        -- intro X. apply Fr in X. lia.
      * intros k1 ser k2. unfold updf. destruct (Nat.eqb k1 k) eqn:Q.
        -- apply Nat.eqb_eq in Q; subst. intros [= <-] HI. apply in_app_or in HI. destruct HI as [HI | [HI | []]].
           ++ exfalso. apply NS. eapply in_fst; eauto.
           ++ now inversion HI.
        -- intros X HI. apply in_app_or in HI. destruct HI as [HI | [HI | []]].
           ++ eapply Ow; eauto.
           ++ inversion HI; subst. apply Fr in X. lia.
      * rewrite map_app. cbn. apply NoDup_app_comm_single; assumption.
      * rewrite map_app. cbn. apply NoDup_app_comm_single; assumption.
      * intros k'. unfold updf. destruct (Nat.eqb k' k); [discriminate | apply Un].
      * intros k' NK. unfold updf. rewrite map_app in NK. cbn in NK.
        destruct (Nat.eqb k' k) eqn:Q.
        -- apply Nat.eqb_eq in Q; subst. exfalso. apply NK. apply in_or_app. right. now left.
        -- apply Gn. intro X. apply NK. apply in_or_app. now left.
      * intro X. congruence.
    + (* stored completion *)
      rewrite Tm.
      assert (OB : sk_obs s = []) by (apply Ed; rewrite Tm; discriminate).
      set (s4 := u_deliver (bs0 s k) k Co).
      pose proof (u_deliver_rest (bs0 s k) k Co) as R4. fold s4 in R4. unfold rest, bs0 in R4. cbn in R4.
      injection R4 as T1 T2 T3 T4 T5 T6 T7 T8 T9 T10 T11 T12 T13.
      assert (L4 : forall j, sk_logs s4 j = if Nat.eqb j k then r_logs r j ++ [Co] else r_logs r j).
      { intro j. subst s4. rewrite u_deliver_logs, A0. cbn [andb]. unfold bs0. cbn. rewrite Lg. reflexivity. }
      clearbody s4.
      constructor; cbn; normv s4.
      * exact Rg.
      * intro j. rewrite L4. destruct (Nat.eqb j k); reflexivity.
      * intro X. congruence.
      * unfold stored_term_b. normv s4. rewrite SE, SL. exact Tm.
      * rewrite OB. intros ? ? [].
      * intros k' ser. unfold updf. apply Fr.
      * rewrite OB. intros ? ? ? _ [].
      * exact N1.
      * exact N2.
      * intros k'. unfold updf. destruct (Nat.eqb k' k); [discriminate | apply Un].
      * exact Gn.
      * intros _. exact OB.
  - (* unsubscribe *)
    cbn [sk_step sref_step].
    destruct (sk_unsub s k) eqn:UK.
    + unfold u_unsubscribe. cbn [s_ualive s_unsub sk_td sk_falive].
      destruct (sk_td s k) eqn:TD.
      * destruct (sk_falive s k) eqn:FK.
        -- assert (IK : In k (map snd (sk_obs s))).
           { destruct (in_dec Nat.eq_dec k (map snd (sk_obs s))) as [I|NI]; auto. rewrite (Gn k NI) in FK. discriminate. }
           apply in_map_iff in IK. destruct IK as [[ser k'] [E I]]. cbn in E; subst k'.
           destruct (En _ _ I) as (SK & _).
           unfold f_unsubscribe, inner_remove. cbn. rewrite SK. cbn.
           constructor; cbn.
           ++ rewrite <- Rg. apply remove_ser_spec; assumption.
           ++ exact Lg.
           ++ exact La.
           ++ exact Tm.
           ++ intros s0 k0 HI. pose proof (remove_ser_subset _ _ _ HI) as HI0. destruct (En _ _ HI0) as (A & B & C & D & E & F).
              assert (k0 <> k).
              { intro; subst k0. rewrite SK in A. injection A as <-.
                assert (X : In k (map snd (remove_ser ser (sk_obs s)))) by (eapply in_snd; eauto).
                rewrite (remove_ser_spec ser k) in X by assumption. apply filter_In in X. rewrite Nat.eqb_refl in X. cbn in X. destruct X; discriminate. }
              unfold updf. destruct (Nat.eqb k0 k) eqn:Q; [apply Nat.eqb_eq in Q; contradiction|]. auto 10.
           ++ intros k0 s0. unfold updf. destruct (Nat.eqb k0 k); [discriminate | apply Fr].
           ++ intros k1 s1 k2. unfold updf. destruct (Nat.eqb k1 k); [discriminate|]. intros X HI. apply remove_ser_subset in HI. eapply Ow; eauto.
           ++ now apply remove_ser_nodup_fst.
           ++ now apply remove_ser_nodup_snd.
           ++ intros k0 X. unfold updf. destruct (Nat.eqb k0 k) eqn:Q.
              ** apply Nat.eqb_eq in Q; subst. destruct (Un _ X). congruence.
              ** apply Un; auto.
           ++ intros k0 NK. unfold updf. destruct (Nat.eqb k0 k) eqn:Q; auto. apply Gn. intro X. apply NK.
              rewrite (remove_ser_spec ser k) by assumption. apply filter_In. split; auto. now rewrite Q.
           ++ intro X. rewrite (Ed X) in I. destruct I.
        -- assert (NK : ~ In k (map snd (sk_obs s))).
           { intro X. apply in_map_iff in X. destruct X as [[s0 k0] [E I]]. cbn in E; subst k0. destruct (En _ _ I) as (_ & _ & C & _). congruence. }
           constructor; cbn; auto.
           ++ rewrite <- Rg. symmetry. now apply filter_id_notin.
           ++ intros s0 k0 HI. destruct (En _ _ HI) as (A & B & C & D & E & F).
              assert (k0 <> k) by (intro; subst; apply NK; eapply in_snd; eauto).
              unfold updf. destruct (Nat.eqb k0 k) eqn:Q; [apply Nat.eqb_eq in Q; contradiction|]. auto 10.
           ++ intros k0 X. unfold updf. destruct (Nat.eqb k0 k) eqn:Q.
              ** apply Nat.eqb_eq in Q; subst. destruct (Un _ X). congruence.
              ** apply Un; auto.
      * assert (NK : ~ In k (map snd (sk_obs s))).
        { intro X. apply in_map_iff in X. destruct X as [[s0 k0] [E I]]. cbn in E; subst k0. destruct (En _ _ I) as (_ & _ & _ & C & _). congruence. }
        constructor; cbn; auto.
        ++ rewrite <- Rg. symmetry. now apply filter_id_notin.
        ++ intros s0 k0 HI. destruct (En _ _ HI) as (A & B & C & D & E & F).
           assert (k0 <> k) by (intro; subst; apply NK; eapply in_snd; eauto).
           unfold updf. destruct (Nat.eqb k0 k) eqn:Q; [apply Nat.eqb_eq in Q; contradiction|]. auto 10.
        ++ intros k0 X. unfold updf. destruct (Nat.eqb k0 k) eqn:Q.
           ** apply Nat.eqb_eq in Q; subst. destruct (Un _ X). congruence.
           ** apply Un; auto.
    + assert (NK : ~ In k (map snd (sk_obs s))).
      { intro X. apply in_map_iff in X. destruct X as [[s0 k0] [E I]]. cbn in E; subst k0. destruct (En _ _ I) as (_ & _ & _ & _ & D & _). congruence. }
      constructor; cbn; auto.
      rewrite <- Rg. symmetry. now apply filter_id_notin.
  - (* emit (never after the subject's own terminal) *)
    destruct Ha as [-> NT]. cbn [sk_step]. unfold inner_broadcast.
    assert (AL : forall k, In k (map snd (sk_obs s)) -> sk_ualive s k = true /\ sk_falive s k = true).
    { intros k X. apply in_map_iff in X. destruct X as [[s0 k0] [E I]]. cbn in E; subst k0. destruct (En _ _ I) as (_ & B & C & _). auto. }
    assert (SE : sk_err s = None).
    { rewrite NT in Tm. unfold stored_term_b in Tm. destruct (sk_err s); [discriminate | reflexivity]. }
    destruct e as [v | x |]; cbn [is_term sref_step]; unfold r_deliver.
    + set (s1 := s_last s (Some v)). set (r0 := r_push r v).
      destruct (fwd_fold_b (Nx v) (map snd (sk_obs s)) s1 r0 N2 AL Lg) as (H1 & H2 & H3 & H4 & H5 & H6 & H7). cbn zeta in *.
      change (sk_obs s1) with (sk_obs s). change (r_reg r0) with (r_reg r). rewrite <- Rg.
      set (s' := fold_left (fun acc k => f_deliver KBehavior acc k (Nx v)) (map snd (sk_obs s)) s1) in *.
      set (r' := fold_left (fun acc k => r_add_log acc k [Nx v]) (map snd (sk_obs s)) r0) in *.
      injection H2 as G1 G2 G3 G4 G5 G6 G7 G8 G9 G10 G11. clearbody s' r'.
      constructor.
      * rewrite G1, H5. exact Rg.
      * exact H1.
      * intros _. rewrite G3, H6. subst s1 r0. cbn. rewrite last_some_app. split; [reflexivity | discriminate].
      * rewrite H7. unfold stored_term_b. rewrite G4, G3. subst s1 r0. cbn. rewrite SE. exact NT.
      * intros ser k HI. rewrite G1 in HI. destruct (En _ _ HI) as (A & B & C & D & E & F).
        rewrite G9, H3, H4, G10, G11, G7. cbn [is_term andb]. subst s1. cbn. auto 10.
      * intros k ser. rewrite G9, G2. apply Fr.
      * intros k ser k'. rewrite G9, G1. apply Ow.
      * rewrite G1. exact N1.
      * rewrite G1. exact N2.
      * intros k. rewrite G7, G11, G9. apply Un.
      * intros k NK. rewrite G1 in NK. rewrite H4. cbn [is_term andb]. apply Gn. exact NK.
      * rewrite H7, G1. exact Ed.
    + set (s1 := s_obs (s_err s (Some x)) []). set (r0 := r_set_term r (Er x)).
      destruct (fwd_fold_b (Er x) (map snd (sk_obs s)) s1 r0 N2 AL Lg) as (H1 & H2 & H3 & H4 & H5 & H6 & H7). cbn zeta in *.
      change (r_reg r0) with (r_reg r). rewrite <- Rg.
      change (sk_obs (s_err s (Some x))) with (sk_obs s).
      set (s' := fold_left (fun acc k => f_deliver KBehavior acc k (Er x)) (map snd (sk_obs s)) s1) in *.
      set (r' := fold_left (fun acc k => r_add_log acc k [Er x]) (map snd (sk_obs s)) r0) in *.
      injection H2 as G1 G2 G3 G4 G5 G6 G7 G8 G9 G10 G11. clearbody s' r'.
      constructor; cbn [r_reg r_logs r_items r_term r_set_reg].
      * rewrite G1. reflexivity.
      * exact H1.
      * rewrite H7. discriminate.
      * rewrite H7. unfold stored_term_b. rewrite G4. reflexivity.
      * rewrite G1. intros ? ? [].
      * intros k ser. rewrite G9, G2. apply Fr.
      * rewrite G1. intros ? ? ? _ [].
      * rewrite G1. constructor.
      * rewrite G1. constructor.
      * intros k. rewrite G7, G11, G9. apply Un.
      * intros k _. rewrite H4. cbn [is_term andb]. destruct (existsb (Nat.eqb k) (map snd (sk_obs s))) eqn:X; auto.
        apply Gn. intro Y. apply existsb_eqb_in in Y. congruence.
      * intros _. rewrite G1. reflexivity.
    + set (s1 := s_obs (s_last s None) []). set (r0 := r_set_term r Co).
      destruct (fwd_fold_b Co (map snd (sk_obs s)) s1 r0 N2 AL Lg) as (H1 & H2 & H3 & H4 & H5 & H6 & H7). cbn zeta in *.
      change (r_reg r0) with (r_reg r). rewrite <- Rg.
      change (sk_obs (s_last s None)) with (sk_obs s).
      set (s' := fold_left (fun acc k => f_deliver KBehavior acc k Co) (map snd (sk_obs s)) s1) in *.
      set (r' := fold_left (fun acc k => r_add_log acc k [Co]) (map snd (sk_obs s)) r0) in *.
      injection H2 as G1 G2 G3 G4 G5 G6 G7 G8 G9 G10 G11. clearbody s' r'.
      constructor; cbn [r_reg r_logs r_items r_term r_set_reg].
      * rewrite G1. reflexivity.
      * exact H1.
      * rewrite H7. discriminate.
      * rewrite H7. unfold stored_term_b. rewrite G4, G3. subst s1. cbn. now rewrite SE.
      * rewrite G1. intros ? ? [].
      * intros k ser. rewrite G9, G2. apply Fr.
      * rewrite G1. intros ? ? ? _ [].
      * rewrite G1. constructor.
      * rewrite G1. constructor.
      * intros k. rewrite G7, G11, G9. apply Un.
      * intros k _. rewrite H4. cbn [is_term andb]. destruct (existsb (Nat.eqb k) (map snd (sk_obs s))) eqn:X; auto.
        apply Gn. intro Y. apply existsb_eqb_in in Y. congruence.
      * intros _. rewrite G1. reflexivity.
Qed.

(* ------------------------------------------------------------------ `used` bookkeeping *)
Lemma fdel_used_b s k e : sk_used (f_deliver KBehavior s k e) = sk_used s.
Proof. unfold f_deliver. destruct (sk_falive s k); auto. rewrite u_deliver_used. destruct (is_term e); reflexivity. Qed.
Lemma fold_fdel_used_b e l : forall s, sk_used (fold_left (fun acc k => f_deliver KBehavior acc k e) l s) = sk_used s.
Proof. induction l as [|k l IH]; intro s; cbn [fold_left]; auto. rewrite IH. apply fdel_used_b. Qed.

Lemma used_step_behavior s a k :
  sk_used (sk_step KBehavior s a) k = sk_used s k || match a with DSub k' _ _ => Nat.eqb k k' | _ => false end.
Proof.
  destruct a as [k' p rs | k' | h e | | |]; try (cbn [sk_step]; now rewrite orb_false_r).
  - destruct (sk_used s k') eqn:U.
    + cbn [sk_step]. rewrite U. destruct (Nat.eqb k k') eqn:E; [apply Nat.eqb_eq in E; subst; rewrite U; reflexivity | now rewrite orb_false_r].
    + rewrite (step_sub_behavior s k' p rs U).
      assert (X : forall e, sk_used (u_deliver (bs0 s k') k' e) = updf (sk_used s) k' true) by (intro e; rewrite u_deliver_used; reflexivity).
      assert (Y : sk_used (match sk_err s, sk_last s with
                           | Some x, _ => u_deliver (bs0 s k') k' (Er x)
                           | None, None => u_deliver (bs0 s k') k' Co
                           | None, Some v =>
                               let s1 := u_deliver (bs0 s k') k' (Nx v) in
                               if sk_ualive s1 k' then inner_join (s_falive (s_td s1 (updf (sk_td s1) k' true)) (updf (sk_falive s1) k' true)) k' else s1
                           end) = updf (sk_used s) k' true).
      { destruct (sk_err s); [apply X|]. destruct (sk_last s); [| apply X]. cbv zeta.
        destruct (sk_ualive (u_deliver (bs0 s k') k' (Nx v)) k'); [unfold inner_join; cbn; apply X | apply X]. }
      rewrite Y. unfold updf. destruct (Nat.eqb k k'); [now rewrite orb_true_r | now rewrite orb_false_r].
  - cbn [sk_step]. rewrite orb_false_r. destruct (sk_unsub s k'); auto. unfold u_unsubscribe. cbn [s_ualive s_unsub sk_td sk_falive].
    destruct (sk_td s k'); cbn; auto. destruct (sk_falive s k'); [rewrite funsub_used|]; reflexivity.
  - cbn [sk_step]. rewrite orb_false_r. unfold inner_broadcast. rewrite fold_fdel_used_b. destruct e; destruct (is_term _); reflexivity.
Qed.

Lemma relb_init init : RelB (sk0 (Some init)) (sref0 (Some init)).
Proof.
  constructor; cbn; auto; try (now constructor); try (intros; contradiction); try discriminate.
Qed.

Lemma relb_run : forall script s r,
  RelB s r -> plain_history script = true -> NoDup (sub_handles script) ->
  (forall k, In k (sub_handles script) -> sk_used s k = false) ->
  emits_after_terminal (has_term_r r) script = false ->
  RelB (fold_left (sk_step KBehavior) script s) (fold_left (sref_step KBehavior) script r).
Proof.
  induction script as [|a script IH]; intros s r HR PH ND UN EA; cbn [fold_left]; auto.
  cbn [plain_history forallb] in PH. apply andb_prop in PH. destruct PH as [Pa PH].
  apply IH; auto.
  - apply relb_step; auto.
    destruct a as [k p rs | k | h e | | |]; try discriminate; auto.
    + destruct p; try discriminate. destruct h; try discriminate. destruct rs; try discriminate.
      apply UN. cbn. now left.
    + split; [now apply Nat.eqb_eq in Pa|]. cbn [emits_after_terminal] in EA. unfold has_term_r in EA.
      destruct (r_term r); [discriminate | reflexivity].
  - destruct a; cbn in ND; auto. now inversion ND.
  - intros k Hk. rewrite used_step_behavior. rewrite UN.
    + destruct a as [k' p rs | | | | |]; auto. cbn.
      destruct (Nat.eqb k k') eqn:E; auto. apply Nat.eqb_eq in E; subst. cbn in ND. inversion ND; contradiction.
    + destruct a; cbn; auto.
  - destruct a as [k p rs | k | h e | | |]; try discriminate; cbn [emits_after_terminal] in EA.
    + replace (has_term_r (sref_step KBehavior r (DSub k p rs))) with (has_term_r r); [exact EA|].
      unfold has_term_r. cbn [sref_step]. destruct (r_term r) eqn:T; cbn; rewrite ?T; reflexivity.
    + exact EA.
    + unfold has_term_r in *. destruct (r_term r) eqn:T; [discriminate|].
      replace (match r_term (sref_step KBehavior r (DEmit h e)) with Some _ => true | None => false end) with (is_term e); [exact EA|].
      destruct e; cbn [sref_step is_term r_set_reg r_term]; rewrite r_deliver_term; cbn; now rewrite ?T.
Qed.

(* C10, BehaviorSubject: for every initial value and every call history that does not use the subject after its own
   terminal, every observer's log is the reference machine's (the latest value or the stored terminal first, then the
   live stream), and the inner Subject holds exactly the reference's registered observers. *)
Theorem behavior_refines_reference init script :
  plain_history script = true -> NoDup (sub_handles script) -> emits_after_terminal false script = false ->
  let s := sk_run KBehavior (Some init) script in
  let r := fold_left (sref_step KBehavior) script (sref0 (Some init)) in
  (forall k, sk_logs s k = r_logs r k) /\ map snd (sk_obs s) = r_reg r /\ r_term r = stored_term_b s.
Proof.
  intros PH ND EA. cbn zeta. unfold sk_run.
  pose proof (relb_run script (sk0 (Some init)) (sref0 (Some init)) (relb_init init) PH ND (fun k _ => eq_refl) EA) as [Rg Lg _ Tm _ _ _ _ _ _ _ _].
  auto.
Qed.
