(* Per-operator theorems, part D: buffer, window, group_by. *)
From Coq Require Import List ZArith Bool Arith Lia.
From RX Require Import Val Syntax Step Spec Loc.
From RXP Require Import LocBase.
Import ListNotations.

(* ---------------------------------------------------------------- chunks *)
Lemma chunks_nil fuel n : chunks fuel n [] = [].
Proof. destruct fuel; reflexivity. Qed.

Lemma chunks_S k n x l : chunks (S k) n (x :: l) = firstn n (x :: l) :: chunks k n (skipn n (x :: l)).
Proof. reflexivity. Qed.

(* the fuel does not matter once it exceeds the length (chunk size >= 1) *)
Lemma chunks_fuel n : forall f1 f2 l, length l < f1 -> length l < f2 ->
  chunks f1 (S n) l = chunks f2 (S n) l.
Proof.
  induction f1 as [|f1 IH]; intros f2 l H1 H2; [lia |].
  destruct f2 as [|f2]; [lia |].
  destruct l as [|x l]; [reflexivity |].
  rewrite !chunks_S. f_equal.
  assert (L : length (skipn (S n) (x :: l)) <= length l).
  { rewrite skipn_length. cbn [length]. lia. }
  cbn [length] in H1, H2. apply IH; lia.
Qed.

(* chunks with the canonical fuel of Spec.spec_op *)
Definition bchunks (n : nat) (l : list val) : list (list val) := chunks (S (length l)) n l.

Lemma bchunks_nil n : bchunks n [] = [].
Proof. reflexivity. Qed.

Lemma bchunks_cons n x l :
  bchunks (S n) (x :: l) = firstn (S n) (x :: l) :: bchunks (S n) (skipn (S n) (x :: l)).
Proof.
  unfold bchunks at 1. rewrite chunks_S. f_equal.
  assert (L : length (skipn (S n) (x :: l)) <= length l).
  { rewrite skipn_length. cbn [length]. lia. }
  unfold bchunks. apply chunks_fuel; cbn [length]; lia.
Qed.

(* a full first chunk *)
Lemma bchunks_app n a r : length a = S n -> bchunks (S n) (a ++ r) = a :: bchunks (S n) r.
Proof.
  intro H. destruct a as [|x a]; [discriminate H |].
  change ((x :: a) ++ r) with (x :: (a ++ r)). rewrite bchunks_cons.
  change (x :: (a ++ r)) with ((x :: a) ++ r).
  rewrite <- H. rewrite firstn_app, skipn_app, Nat.sub_diag, firstn_all, skipn_all.
  cbn [firstn skipn app]. now rewrite app_nil_r.
Qed.

(* a short, non-empty list is its own only chunk *)
Lemma bchunks_short n l : l <> [] -> length l <= S n -> bchunks (S n) l = [l].
Proof.
  intros Hne Hlen. destruct l as [|x l]; [congruence |].
  rewrite bchunks_cons. rewrite firstn_all2 by exact Hlen. rewrite skipn_all2 by exact Hlen.
  reflexivity.
Qed.

(* ---------------------------------------------------------------- buffer *)
Definition bsel (n : nat) (en : ending) (cs : list (list val)) : list (list val) :=
  match en with Completes => cs | _ => filter (fun c => Nat.eqb (length c) n) cs end.

Lemma bsel_cons_full n en c cs : length c = n -> bsel n en (c :: cs) = c :: bsel n en cs.
Proof.
  intro H. destruct en as [|e|]; cbn [bsel filter]; try reflexivity;
    (replace (Nat.eqb (length c) n) with true by (symmetry; apply Nat.eqb_eq; exact H)); reflexivity.
Qed.

Lemma buffer_step n buf x :
  loc_step (OBuffer n) (live (st_set_buf st0 buf)) (Nx x) =
  if Nat.eqb (length (buf ++ [x])) n
  then (live (st_set_buf st0 []), [Nx (VList (buf ++ [x]))])
  else (live (st_set_buf st0 (buf ++ [x])), []).
Proof.
  unfold loc_step, live; cbn [l_up l_st handler st_buf st_set_buf st0].
  destruct (Nat.eqb (length (buf ++ [x])) n); reflexivity.
Qed.

Lemma buffer_end n buf en : length buf < S n ->
  snd (loc_feed (OBuffer (S n)) (live (st_set_buf st0 buf)) (ending_evs en)) =
  map Nx (map VList (bsel (S n) en (bchunks (S n) buf))) ++ ending_evs en.
Proof.
  intro Hlen. destruct buf as [|b buf].
  - rewrite bchunks_nil. destruct en as [|e|]; reflexivity.
  - rewrite bchunks_short by (try discriminate; lia).
    destruct en as [|e|]; cbn [bsel filter].
    + reflexivity.
    + replace (Nat.eqb (length (b :: buf)) (S n)) with false by (symmetry; apply Nat.eqb_neq; lia).
      reflexivity.
    + replace (Nat.eqb (length (b :: buf)) (S n)) with false by (symmetry; apply Nat.eqb_neq; lia).
      reflexivity.
Qed.

Lemma buffer_feed n en : forall xs buf, length buf < S n ->
  snd (loc_feed (OBuffer (S n)) (live (st_set_buf st0 buf)) (map Nx xs ++ ending_evs en)) =
  map Nx (map VList (bsel (S n) en (bchunks (S n) (buf ++ xs)))) ++ ending_evs en.
Proof.
  induction xs as [|x xs IH]; intros buf Hlen.
  - cbn [map app]. rewrite app_nil_r. apply buffer_end. exact Hlen.
  - cbn [map app]. rewrite feed_cons_snd, buffer_step.
    replace (buf ++ x :: xs) with ((buf ++ [x]) ++ xs) by (rewrite <- app_assoc; reflexivity).
    destruct (Nat.eqb (length (buf ++ [x])) (S n)) eqn:E; cbn [fst snd].
    + apply Nat.eqb_eq in E.
      rewrite bchunks_app by exact E. rewrite bsel_cons_full by exact E.
      rewrite (IH []) by (cbn [length]; lia). cbn [app map]. reflexivity.
    + apply Nat.eqb_neq in E.
      assert (L : length (buf ++ [x]) < S n).
      { rewrite app_length in *. cbn [length] in *. lia. }
      rewrite (IH (buf ++ [x])) by exact L. reflexivity.
Qed.

Theorem loc_buffer_correct n i : loc_run (OBuffer (S n)) (events i) = events (spec_op (OBuffer (S n)) i).
Proof.
  destruct i as [xs en]. unfold loc_run. rewrite lst0_live, events_eq. cbn [spec_op init_state].
  rewrite events_eq. change st0 with (st_set_buf st0 []).
  rewrite buffer_feed by (cbn [length]; lia). cbn [app]. reflexivity.
Qed.

(* ---------------------------------------------------------------- window *)
(* with c items already in the open window, the next window opens after this many further items *)
Definition wskip (n c : nat) : nat := if Nat.eqb c 0 then 0 else n - c.
Definition wins (cs : list (list val)) : list val := map (fun _ => VObs 0) cs.

Lemma window_step n c x :
  loc_step (OWindow n) (live (st_set_cnt st0 c)) (Nx x) =
  (live (st_set_cnt st0 (if Nat.eqb (S c) n then 0 else S c)), if Nat.eqb c 0 then [Nx (VObs 0)] else []).
Proof.
  unfold loc_step, live; cbn [l_up l_st handler st_cnt st_subj st_set_cnt st0 is_term].
  destruct (Nat.eqb (S c) n), (Nat.eqb c 0); reflexivity.
Qed.

Lemma window_end n c en :
  snd (loc_feed (OWindow n) (live (st_set_cnt st0 c)) (ending_evs en)) = ending_evs en.
Proof. destruct en as [|e|]; reflexivity. Qed.

Lemma window_feed n en : forall xs c, c < S n ->
  snd (loc_feed (OWindow (S n)) (live (st_set_cnt st0 c)) (map Nx xs ++ ending_evs en)) =
  map Nx (wins (bchunks (S n) (skipn (wskip (S n) c) xs))) ++ ending_evs en.
Proof.
  induction xs as [|x xs IH]; intros c Hc.
  - cbn [map app]. rewrite skipn_nil, bchunks_nil. cbn [wins map app]. apply window_end.
  - cbn [map app]. rewrite feed_cons_snd, window_step. cbn [fst snd].
    unfold wskip at 1.
    destruct (Nat.eqb c 0) eqn:C0.
    + apply Nat.eqb_eq in C0. subst c. cbn [skipn]. rewrite bchunks_cons. cbn [wins map app].
      f_equal. cbn [skipn].
      destruct (Nat.eqb 1 (S n)) eqn:E.
      * apply Nat.eqb_eq in E. rewrite IH by lia. unfold wskip. cbn [Nat.eqb].
        replace n with 0 by lia. reflexivity.
      * apply Nat.eqb_neq in E. rewrite IH by lia. unfold wskip.
        replace (Nat.eqb 1 0) with false by reflexivity.
        replace (S n - 1) with n by lia. reflexivity.
    + apply Nat.eqb_neq in C0. cbn [app].
      destruct (Nat.eqb (S c) (S n)) eqn:E.
      * apply Nat.eqb_eq in E. rewrite IH by lia. unfold wskip.
        replace (Nat.eqb 0 0) with true by reflexivity.
        replace (S n - c) with 1 by lia. reflexivity.
      * apply Nat.eqb_neq in E. rewrite IH by lia. unfold wskip.
        replace (Nat.eqb (S c) 0) with false by reflexivity.
        replace (S n - c) with (S (S n - S c)) by lia. reflexivity.
Qed.

Theorem loc_window_correct n i : loc_run (OWindow (S n)) (events i) = events (spec_op (OWindow (S n)) i).
Proof.
  destruct i as [xs en]. unfold loc_run. rewrite lst0_live, events_eq. cbn [spec_op init_state].
  rewrite events_eq. change st0 with (st_set_cnt st0 0).
  rewrite window_feed by lia. reflexivity.
Qed.

(* ---------------------------------------------------------------- group_by *)
Definition is_some {A} (o : option A) : bool := match o with Some _ => true | None => false end.

(* the keys of the group table are exactly the keys seen so far *)
Definition ginv (g : list (Z * hid)) (seen : list Z) : Prop :=
  forall key, existsb (Z.eqb key) seen = is_some (find_key key g).

Lemma find_key_app key g k0 h :
  find_key key (g ++ [(k0, h)]) =
  match find_key key g with Some h' => Some h' | None => if Z.eqb k0 key then Some h else None end.
Proof.
  induction g as [|[a b] g IH]; cbn [app find_key].
  - reflexivity.
  - destruct (Z.eqb a key); [reflexivity | exact IH].
Qed.

Lemma ginv_nil : ginv [] [].
Proof. intro key. reflexivity. Qed.

Lemma ginv_add g seen k0 h : ginv g seen -> ginv (g ++ [(k0, h)]) (k0 :: seen).
Proof.
  intros H key. rewrite find_key_app. cbn [existsb]. rewrite (H key). rewrite (Z.eqb_sym key k0).
  destruct (find_key key g) as [h'|]; cbn [is_some].
  - apply orb_true_r.
  - rewrite orb_false_r. destruct (Z.eqb k0 key); reflexivity.
Qed.

Lemma loc_acts_subjcalls (f : Z * hid -> ev) rest s : forall g,
  loc_acts (map (fun p => ASubjCall (snd p) (f p)) g ++ rest) s = loc_acts rest s.
Proof.
  induction g as [|p g IH]; cbn [map app loc_acts loc_act].
  - reflexivity.
  - rewrite IH. destruct (loc_acts rest s) as [s2 o2]. reflexivity.
Qed.

Lemma loc_act_with m body s : loc_act (AWith m body) s = loc_acts body s.
Proof.
  cbn [loc_act]. revert s. induction body as [|a r IH]; intro s; cbn [loc_acts]; [reflexivity |].
  destruct (loc_act a s) as [s1 o1]. rewrite IH. reflexivity.
Qed.

Lemma group_step k g x :
  loc_step (OGroupBy k) (live (st_set_groups st0 g)) (Nx x) =
  match find_key (key_of k x) g with
  | Some _ => (live (st_set_groups st0 g), [])
  | None => (live (st_set_groups st0 (g ++ [(key_of k x, 0)])), [Nx (VObs 0)])
  end.
Proof.
  unfold loc_step, live; cbn [l_up l_st handler st_groups st_set_groups st0 is_term].
  destruct (find_key (key_of k x) g); reflexivity.
Qed.

Lemma loc_acts_with_subjcalls m (f : Z * hid -> ev) a s g :
  loc_acts [AWith m (map (fun p => ASubjCall (snd p) (f p)) g); a] s = loc_acts [a] s.
Proof.
  cbn [loc_acts]. rewrite loc_act_with.
  replace (map (fun p => ASubjCall (snd p) (f p)) g) with (map (fun p => ASubjCall (snd p) (f p)) g ++ []) by apply app_nil_r.
  rewrite (loc_acts_subjcalls f [] s g). cbn [loc_acts]. destruct (loc_act a s) as [s1 o1]. reflexivity.
Qed.

Lemma group_end k g en :
  snd (loc_feed (OGroupBy k) (live (st_set_groups st0 g)) (ending_evs en)) = ending_evs en.
Proof.
  destruct en as [|e|]; cbn [ending_evs loc_feed]; [| | reflexivity].
  - unfold loc_step, live; cbn [l_up l_st handler st_groups st_set_groups st0 is_term].
    rewrite (loc_acts_with_subjcalls MR (fun _ => Co)). reflexivity.
  - unfold loc_step, live; cbn [l_up l_st handler st_groups st_set_groups st0 is_term].
    rewrite (loc_acts_with_subjcalls MR (fun _ => Er e)). reflexivity.
Qed.

Lemma group_feed k en : forall xs g seen, ginv g seen ->
  snd (loc_feed (OGroupBy k) (live (st_set_groups st0 g)) (map Nx xs ++ ending_evs en)) =
  map Nx (map (fun _ => VObs 0) (keys_of k seen xs)) ++ ending_evs en.
Proof.
  induction xs as [|x xs IH]; intros g seen Hinv.
  - cbn [map app keys_of]. apply group_end.
  - cbn [map app keys_of]. rewrite feed_cons_snd, group_step.
    rewrite (Hinv (key_of k x)).
    destruct (find_key (key_of k x) g) as [h|] eqn:F; cbn [is_some fst snd].
    + rewrite (IH g seen Hinv). reflexivity.
    + rewrite (IH _ (key_of k x :: seen) (ginv_add _ _ _ _ Hinv)). reflexivity.
Qed.

Theorem loc_group_by_correct k i : loc_run (OGroupBy k) (events i) = events (spec_op (OGroupBy k) i).
Proof.
  destruct i as [xs en]. unfold loc_run. rewrite lst0_live, events_eq. cbn [spec_op init_state].
  rewrite events_eq. change st0 with (st_set_groups st0 []).
  apply group_feed. apply ginv_nil.
Qed.

Print Assumptions loc_buffer_correct.
Print Assumptions loc_window_correct.
Print Assumptions loc_group_by_correct.
