(* C12: a subscriber joining a ReplaySubject / BehaviorSubject while pushes are in progress receives, under every
   interleaving, every item exactly once in push order (Replay) resp. one value and then every later value
   exactly once in push order (Behavior). *)
From Coq Require Import List Bool Arith Lia.
From RX Require Import ConcHist.
Import ListNotations.
Arguments Nat.ltb : simpl never.
Arguments Nat.leb : simpl never.
Arguments Nat.eqb : simpl never.

Definition inflight (c : hcfg) (p : nat) : option nat :=
  match hp_pos (h_prod c p) with HIdle => None | HApp n => Some n | HPend n _ => Some n end.
Definition done (c : hcfg) (p : nat) : list nat :=
  match inflight c p with None => posns p (h_hist c) | Some _ => removelast (posns p (h_hist c)) end.
(* what the hand-over delivers when j saw the history at length k *)
Definition handed (m : hmode) (hist : list (nat * nat)) (k : nat) : list (nat * nat * nat) :=
  match m with HReplay => map (entry hist) (seq 0 k) | HBehavior => [entry hist (k - 1)] end.

(* ------------------------------------------------------------------ lists *)
Lemma posns_in p hist n : In n (posns p hist) -> n < length hist /\ fst (nth n hist (0, 0)) = p.
Proof.
  unfold posns. intro H. apply filter_In in H. destruct H as [H1 H2]. apply in_seq in H1.
  apply Nat.eqb_eq in H2. split; [lia | exact H2].
Qed.

Lemma posns_app p hist q v :
  posns p (hist ++ [(q, v)]) = posns p hist ++ (if Nat.eqb q p then [length hist] else []).
Proof.
  unfold posns. rewrite app_length. cbn [length]. rewrite Nat.add_1_r, seq_S, filter_app. cbn [Nat.add].
  f_equal.
  - apply filter_ext_in. intros n Hn. apply in_seq in Hn. rewrite app_nth1 by lia. reflexivity.
  - cbn [filter]. rewrite app_nth2 by lia. rewrite Nat.sub_diag. cbn [nth fst]. destruct (Nat.eqb q p); reflexivity.
Qed.

Lemma filter_leb_none k l : (forall x, In x l -> x < k) -> filter (Nat.leb k) l = [].
Proof.
  induction l as [|x l IH]; intro H; cbn [filter]; auto.
  destruct (Nat.leb k x) eqn:E.
  - apply Nat.leb_le in E. specialize (H x (or_introl eq_refl)). lia.
  - apply IH. intros y Hy. apply H. now right.
Qed.
Lemma filter_leb_all k l : (forall x, In x l -> k <= x) -> filter (Nat.leb k) l = l.
Proof.
  induction l as [|x l IH]; intro H; cbn [filter]; auto.
  destruct (Nat.leb k x) eqn:E.
  - f_equal. apply IH. intros y Hy. apply H. now right.
  - apply Nat.leb_gt in E. specialize (H x (or_introl eq_refl)). lia.
Qed.

Lemma removelast_in (A : Type) (x : A) l : In x (removelast l) -> In x l.
Proof.
  induction l as [|y l IH]; cbn [removelast]; auto.
  destruct l as [|z l]; [intros []|]. intros [H|H]; [now left | right; apply IH; exact H].
Qed.

Lemma hgot_app p l1 l2 : hgot p (l1 ++ l2) = hgot p l1 ++ hgot p l2.
Proof. unfold hgot. now rewrite filter_app, map_app. Qed.

Lemma hgot_entries p hist l :
  hgot p (map (entry hist) l) = filter (fun n => Nat.eqb (fst (nth n hist (0, 0))) p) l.
Proof.
  induction l as [|n l IH]; auto.
  unfold hgot in *. cbn [map filter]. unfold entry at 1. cbn [fst snd].
  destruct (Nat.eqb (fst (nth n hist (0, 0))) p); cbn [map fst snd]; now rewrite IH.
Qed.

Lemma entry_app hist x n : n < length hist -> entry (hist ++ [x]) n = entry hist n.
Proof. intro H. unfold entry. now rewrite app_nth1 by lia. Qed.

Lemma handed_app m hist x k :
  k <= length hist -> (m = HBehavior -> hist <> []) -> handed m (hist ++ [x]) k = handed m hist k.
Proof.
  intros Hk Hb. destruct m; cbn [handed].
  - apply map_ext_in. intros n Hn. apply in_seq in Hn. apply entry_app. lia.
  - f_equal. apply entry_app. destruct hist; [now specialize (Hb eq_refl) | cbn [length] in *; lia].
Qed.

(* the split of an ascending filter at k *)
Lemma posns_split p hist k :
  k <= length hist ->
  filter (fun n => Nat.eqb (fst (nth n hist (0, 0))) p) (seq 0 k) ++ filter (Nat.leb k) (posns p hist) = posns p hist.
Proof.
  intro Hk. unfold posns.
  replace (length hist) with (k + (length hist - k)) by lia. rewrite seq_app, !filter_app. cbn [Nat.add].
  rewrite (filter_leb_none k), (filter_leb_all k); auto.
  - intros x Hx. apply filter_In in Hx. destruct Hx as [Hx _]. apply in_seq in Hx. lia.
  - intros x Hx. apply filter_In in Hx. destruct Hx as [Hx _]. apply in_seq in Hx. lia.
Qed.

(* ------------------------------------------------------------------ the invariant *)
Record HInv (c : hcfg) : Prop := {
  hi_lock : h_lock c = true -> length (h_hist c) = h_k c;
  hi_thr_le : forall k, h_thr c = Some k -> k <= length (h_hist c);
  hi_thr_in : forall k, h_thr c = Some k -> h_in c = true \/ h_lock c = true;
  hi_none : h_thr c = None -> h_log c = [];
  hi_beh : h_mode c = HBehavior -> h_hist c <> [];
  hi_fl : forall p n, inflight c p = Some n -> exists d, posns p (h_hist c) = d ++ [n];
  hi_app : forall p n k, hp_pos (h_prod c p) = HApp n -> h_thr c = Some k -> k <= n -> h_in c = true;
  hi_pend : forall p n b k, hp_pos (h_prod c p) = HPend n b -> h_thr c = Some k -> k <= n -> b = true;
  hi_log : forall k, h_thr c = Some k ->
           exists L, h_log c = handed (h_mode c) (h_hist c) k ++ L /\ forall p, hgot p L = filter (Nat.leb k) (done c p);
  hi_st : match h_mode c with
          | HReplay => (h_stage c <= 2 -> h_thr c = None) /\ (h_stage c = 2 -> h_lock c = true) /\ (1 <= h_stage c -> h_in c = true)
          | HBehavior => (h_stage c = 0 -> h_thr c = None) /\ (2 <= h_stage c -> h_in c = true)
          end }.

Lemma hupd_same f p x : hupd f p x p = x.
Proof. unfold hupd. now rewrite Nat.eqb_refl. Qed.
Lemma hupd_other f p x q : q <> p -> hupd f p x q = f q.
Proof. unfold hupd. intro H. apply Nat.eqb_neq in H. now rewrite H. Qed.

Lemma inflight_lt c p n : HInv c -> inflight c p = Some n -> n < length (h_hist c) /\ fst (nth n (h_hist c) (0, 0)) = p.
Proof.
  intros I H. destruct (hi_fl c I p n H) as [d Hd]. apply (posns_in p). rewrite Hd. apply in_or_app. right. now left.
Qed.

Lemma done_lt c p x : In x (done c p) -> x < length (h_hist c).
Proof.
  unfold done. destruct (inflight c p); intro H.
  - apply removelast_in in H. now apply posns_in in H.
  - now apply posns_in in H.
Qed.

Ltac hc := cbn [h_mode h_hist h_in h_lock h_k h_thr h_stage h_prod h_log set_prod hp_pos hp_script hp_k].
Ltac hc_in H := cbn [h_mode h_hist h_in h_lock h_k h_thr h_stage h_prod h_log set_prod hp_pos hp_script hp_k] in H.

(* ---- a producer records its item *)
Lemma inv_append c p v :
  HInv c -> hp_pos (h_prod c p) = HIdle -> h_lock c = false ->
  HInv {| h_mode := h_mode c; h_hist := h_hist c ++ [(p, v)];
          h_in := h_in c; h_lock := h_lock c; h_k := h_k c; h_thr := h_thr c; h_stage := h_stage c;
          h_prod := hupd (h_prod c) p {| hp_script := hp_script (h_prod c p); hp_k := S (hp_k (h_prod c p)); hp_pos := HApp (length (h_hist c)) |};
          h_log := h_log c |}.
Proof.
  intros I Hidle Hl.
  assert (INF : forall q, inflight {| h_mode := h_mode c; h_hist := h_hist c ++ [(p, v)];
          h_in := h_in c; h_lock := h_lock c; h_k := h_k c; h_thr := h_thr c; h_stage := h_stage c;
          h_prod := hupd (h_prod c) p {| hp_script := hp_script (h_prod c p); hp_k := S (hp_k (h_prod c p)); hp_pos := HApp (length (h_hist c)) |};
          h_log := h_log c |} q = if Nat.eqb q p then Some (length (h_hist c)) else inflight c q).
  { intro q. unfold inflight. hc. unfold hupd. destruct (Nat.eqb q p); reflexivity. }
  assert (IDLE : inflight c p = None) by (unfold inflight; now rewrite Hidle).
  constructor; hc.
  - intro H. rewrite Hl in H. discriminate.
  - intros k Hk. rewrite app_length. pose proof (hi_thr_le c I k Hk). lia.
  - apply (hi_thr_in c I).
  - apply (hi_none c I).
  - intros _ H. now apply app_cons_not_nil in H || (symmetry in H; now apply app_cons_not_nil in H).
  - intros q n H. rewrite INF in H. rewrite posns_app. destruct (Nat.eqb q p) eqn:E.
    + apply Nat.eqb_eq in E. subst q. injection H as <-. rewrite Nat.eqb_refl. now exists (posns p (h_hist c)).
    + rewrite Nat.eqb_sym in E. rewrite E, app_nil_r. apply (hi_fl c I q n H).
  - intros q n k H Hk Hle. unfold hupd in H. destruct (Nat.eqb q p) eqn:E.
    + destruct (hi_thr_in c I k Hk) as [H1|H1]; [exact H1 | rewrite Hl in H1; discriminate].
    + apply (hi_app c I q n k H Hk Hle).
  - intros q n b k H Hk Hle. unfold hupd in H. destruct (Nat.eqb q p) eqn:E; [hc_in H; discriminate|].
    apply (hi_pend c I q n b k H Hk Hle).
  - intros k Hk. destruct (hi_log c I k Hk) as [L [HL1 HL2]]. exists L. split.
    + rewrite handed_app; [exact HL1 | apply (hi_thr_le c I k Hk) | apply (hi_beh c I)].
    + intro q. rewrite HL2. f_equal. unfold done. rewrite INF. hc. rewrite posns_app. destruct (Nat.eqb q p) eqn:E.
      * apply Nat.eqb_eq in E. subst q. rewrite IDLE, Nat.eqb_refl, removelast_last. reflexivity.
      * rewrite Nat.eqb_sym in E. rewrite E, app_nil_r. reflexivity.
  - apply (hi_st c I).
Qed.

(* ---- a producer takes its snapshot of the observer map *)
Lemma inv_snap c p n :
  HInv c -> hp_pos (h_prod c p) = HApp n ->
  HInv (set_prod c (hupd (h_prod c) p {| hp_script := hp_script (h_prod c p); hp_k := hp_k (h_prod c p); hp_pos := HPend n (h_in c) |})).
Proof.
  intros I Hp.
  assert (INF : forall q, inflight (set_prod c (hupd (h_prod c) p {| hp_script := hp_script (h_prod c p); hp_k := hp_k (h_prod c p); hp_pos := HPend n (h_in c) |})) q
                          = inflight c q).
  { intro q. unfold inflight. hc. unfold hupd. destruct (Nat.eqb q p) eqn:E; [|reflexivity].
    apply Nat.eqb_eq in E. subst q. hc. now rewrite Hp. }
  constructor; hc.
  - apply (hi_lock c I).
  - apply (hi_thr_le c I).
  - apply (hi_thr_in c I).
  - apply (hi_none c I).
  - apply (hi_beh c I).
  - intros q m H. rewrite INF in H. apply (hi_fl c I q m H).
  - intros q m k H Hk Hle. unfold hupd in H. destruct (Nat.eqb q p) eqn:E; [hc_in H; discriminate|].
    apply (hi_app c I q m k H Hk Hle).
  - intros q m b k H Hk Hle. unfold hupd in H. destruct (Nat.eqb q p) eqn:E.
    + hc_in H. injection H as <- <-. apply (hi_app c I p n k Hp Hk Hle).
    + apply (hi_pend c I q m b k H Hk Hle).
  - intros k Hk. destruct (hi_log c I k Hk) as [L [HL1 HL2]]. exists L. split; [exact HL1|].
    intro q. rewrite HL2. unfold done. rewrite INF. reflexivity.
  - apply (hi_st c I).
Qed.

(* ---- j's live callback runs for a producer's item *)
Lemma inv_deliver c p n b :
  HInv c -> hp_pos (h_prod c p) = HPend n b ->
  HInv {| h_mode := h_mode c; h_hist := h_hist c; h_in := h_in c; h_lock := h_lock c; h_k := h_k c; h_thr := h_thr c; h_stage := h_stage c;
          h_prod := hupd (h_prod c) p {| hp_script := hp_script (h_prod c p); hp_k := hp_k (h_prod c p); hp_pos := HIdle |};
          h_log := if b then match h_thr c with
                             | Some k => if Nat.leb k n then h_log c ++ [entry (h_hist c) n] else h_log c
                             | None => h_log c
                             end
                   else h_log c |}.
Proof.
  intros I Hp.
  set (c' := {| h_mode := h_mode c; h_hist := h_hist c; h_in := h_in c; h_lock := h_lock c; h_k := h_k c; h_thr := h_thr c; h_stage := h_stage c;
          h_prod := hupd (h_prod c) p {| hp_script := hp_script (h_prod c p); hp_k := hp_k (h_prod c p); hp_pos := HIdle |};
          h_log := _ |}).
  assert (INF : forall q, inflight c' q = if Nat.eqb q p then None else inflight c q).
  { intro q. unfold inflight, c'. hc. unfold hupd. destruct (Nat.eqb q p); reflexivity. }
  assert (FL : inflight c p = Some n) by (unfold inflight; now rewrite Hp).
  destruct (hi_fl c I p n FL) as [d Hd].
  destruct (inflight_lt c p n I FL) as [Hlt Hown].
  constructor.
  - apply (hi_lock c I).
  - apply (hi_thr_le c I).
  - apply (hi_thr_in c I).
  - unfold c'; hc. intro H. rewrite H. destruct b; apply (hi_none c I H).
  - apply (hi_beh c I).
  - intros q m H. rewrite INF in H. destruct (Nat.eqb q p); [discriminate|]. apply (hi_fl c I q m H).
  - unfold c'; hc. intros q m k H Hk Hle. unfold hupd in H. destruct (Nat.eqb q p) eqn:E; [hc_in H; discriminate|].
    apply (hi_app c I q m k H Hk Hle).
  - unfold c'; hc. intros q m b' k H Hk Hle. unfold hupd in H. destruct (Nat.eqb q p) eqn:E; [hc_in H; discriminate|].
    apply (hi_pend c I q m b' k H Hk Hle).
  - intros k Hk. change (h_thr c') with (h_thr c) in Hk. destruct (hi_log c I k Hk) as [L [HL1 HL2]].
    change (h_mode c') with (h_mode c). change (h_hist c') with (h_hist c).
    change (h_log c') with (if b then match h_thr c with
                             | Some k => if Nat.leb k n then h_log c ++ [entry (h_hist c) n] else h_log c
                             | None => h_log c
                             end
                   else h_log c). rewrite Hk.
    assert (DP : done c p = d) by (unfold done; rewrite FL, Hd; apply removelast_last).
    assert (DQ : forall q, q <> p -> done c' q = done c q).
    { intros q Hq. unfold done. rewrite INF. apply Nat.eqb_neq in Hq. rewrite Hq. reflexivity. }
    assert (DP' : done c' p = d ++ [n]).
    { unfold done. rewrite INF, Nat.eqb_refl. exact Hd. }
    destruct (Nat.leb k n) eqn:E.
    + apply Nat.leb_le in E. assert (b = true) by (apply (hi_pend c I p n b k Hp Hk E)). subst b.
      exists (L ++ [entry (h_hist c) n]). split; [rewrite HL1; now rewrite app_assoc|].
      intro q. rewrite hgot_app, HL2. destruct (Nat.eq_dec q p) as [->|Hq].
      * rewrite DP', DP, filter_app. f_equal. cbn [filter]. apply Nat.leb_le in E. rewrite E.
        unfold hgot, entry. cbn [filter fst snd]. rewrite Hown, Nat.eqb_refl. reflexivity.
      * rewrite (DQ q Hq). unfold hgot, entry. cbn [filter fst snd]. rewrite Hown.
        assert (Nat.eqb p q = false) by (apply Nat.eqb_neq; congruence). rewrite H. cbn [map]. now rewrite app_nil_r.
    + exists L. split; [destruct b; exact HL1|].
      intro q. rewrite HL2. destruct (Nat.eq_dec q p) as [->|Hq].
      * rewrite DP', DP, filter_app. cbn [filter]. rewrite E. now rewrite app_nil_r.
      * now rewrite (DQ q Hq).
  - apply (hi_st c I).
Qed.

(* ---- the subscriber's steps *)
Ltac st_solve :=
  repeat match goal with H : _ /\ _ |- _ => destruct H end; repeat split; intros; try reflexivity; try discriminate; try lia;
  match goal with H : _ -> ?G |- ?G => apply H; lia end.
Ltac flight c I :=
  intros; match goal with E : Some _ = Some _ |- _ => injection E as <- end;
  match goal with Hp : hp_pos (h_prod c ?p) = _ |- _ =>
    let FL := fresh "FL" in
    assert (FL : inflight c p = Some _) by (unfold inflight; rewrite Hp; reflexivity); apply (inflight_lt c _ _ I) in FL; destruct FL
  end.
Ltac jtriv c I := first [exact (hi_lock c I) | exact (hi_thr_le c I) | exact (hi_thr_in c I) | exact (hi_none c I) | exact (hi_beh c I)
                        | exact (hi_fl c I) | exact (hi_app c I) | exact (hi_pend c I) | exact (hi_log c I) ].

Lemma inv_jstep c : HInv c -> HInv (hstep c JStep).
Proof.
  intros I. unfold hstep. pose proof (hi_st c I) as ST.
  destruct (h_mode c) eqn:M; [destruct (h_stage c) as [|[|[|[|s]]]] eqn:S | destruct (h_stage c) as [|[|[|s]]] eqn:S]; try exact I;
    constructor; hc; try jtriv c I;
    try solve [ intros; auto | intros; lia | intro; discriminate | intros; left; reflexivity | intros; right; reflexivity
              | intuition (try lia; try discriminate)
              | intros k Hk; destruct (hi_log c I k Hk) as [L HL]; rewrite M in HL; exists L; exact HL
              | intros k Hk; destruct (hi_thr_in c I k Hk) as [H|H]; [now left | intuition (try lia; try discriminate)]
              | intros _; exact (hi_beh c I M)
              | st_solve
              | intros k E; injection E as <-; lia
              | flight c I; lia ].
  - (* Replay, stage 2: k <= length *)
    intros k E. injection E as <-. rewrite (hi_lock c I); [lia | intuition].
  - flight c I. rewrite <- (hi_lock c I) in *; [lia | intuition].
  - intros k E. injection E as <-. exists []. rewrite app_nil_r. split.
    + rewrite (hi_none c I); [reflexivity | intuition].
    + intro p. symmetry. apply filter_leb_none. intros x Hx. apply done_lt in Hx. hc_in Hx. rewrite (hi_lock c I) in Hx; [lia | intuition].
  - (* Replay, stage 3: unlock *)
    intros k Hk. left. intuition.
  - (* Behavior, stage 0 *)
    intros k E. injection E as <-. exists []. rewrite app_nil_r. split.
    + rewrite (hi_none c I); [reflexivity | intuition].
    + intro p. symmetry. apply filter_leb_none. intros x Hx. apply done_lt in Hx. hc_in Hx. lia.
  - (* Behavior, stage 2: unlock *)
    intros k Hk. left. intuition.
Qed.

(* ------------------------------------------------------------------ every step, every run *)
Lemma hstep_inv c a : HInv c -> HInv (hstep c a).
Proof.
  intro I. destruct a as [p|p|p|]; [| | | now apply inv_jstep]; unfold hstep; cbv zeta;
    destruct (hp_pos (h_prod c p)) eqn:P; try exact I.
  - destruct (h_lock c) eqn:L; [exact I|]. destruct (Nat.ltb _ _); [|exact I].
    pose proof (inv_append c p (nth (hp_k (h_prod c p)) (hp_script (h_prod c p)) 0) I P L) as X. rewrite L in X. exact X.
  - now apply inv_snap.
  - now apply inv_deliver.
Qed.

Lemma hinit_inv m initial scripts : HInv (hinit m initial scripts).
Proof.
  constructor; unfold hinit, inflight; hc; try discriminate; auto.
  - destruct m; discriminate.
  - destruct m; repeat split; intros; auto; lia.
Qed.

Lemma hrun_inv acts : forall c, HInv c -> HInv (hrun acts c).
Proof. induction acts as [|a acts IH]; intros c I; cbn [hrun fold_left]; auto. apply IH. now apply hstep_inv. Qed.

Lemma hstep_mode c a : h_mode (hstep c a) = h_mode c.
Proof.
  destruct a as [p|p|p|]; unfold hstep; cbv zeta.
  - destruct (hp_pos (h_prod c p)); auto. destruct (h_lock c); auto. destruct (Nat.ltb _ _); auto.
  - destruct (hp_pos (h_prod c p)); auto.
  - destruct (hp_pos (h_prod c p)); auto.
  - destruct (h_mode c) eqn:M; [destruct (h_stage c) as [|[|[|[|s]]]] | destruct (h_stage c) as [|[|[|s]]]]; auto.
Qed.
Lemma hrun_mode acts : forall c, h_mode (hrun acts c) = h_mode c.
Proof. induction acts as [|a acts IH]; intro c; cbn [hrun fold_left]; auto. fold (hrun acts (hstep c a)). now rewrite IH, hstep_mode. Qed.

Lemma done_quiet c p : quiet c p = true -> done c p = posns p (h_hist c).
Proof. unfold quiet, done, inflight. destruct (hp_pos (h_prod c p)); try discriminate; auto. Qed.

(* ------------------------------------------------------------------ ReplaySubject *)
(* once j's replay is over it has received the first k positions of the history in push order, followed by live
   items; for a producer that is not in the middle of a push: ALL its items, each exactly once, in push order *)
Theorem replay_late_subscriber scripts acts :
  let c := hrun acts (hinit HReplay 0 scripts) in
  forall k, h_thr c = Some k ->
  (exists L, h_log c = map (entry (h_hist c)) (seq 0 k) ++ L /\ forall p, hgot p L = filter (Nat.leb k) (done c p)) /\
  (forall p, quiet c p = true -> hgot p (h_log c) = posns p (h_hist c)).
Proof.
  intros c k Hk.
  assert (I : HInv c) by (apply hrun_inv, hinit_inv).
  assert (M : h_mode c = HReplay) by (unfold c; now rewrite hrun_mode).
  destruct (hi_log c I k Hk) as [L [HL1 HL2]]. rewrite M in HL1. cbn [handed] in HL1.
  split; [exists L; split; [exact HL1 | exact HL2]|].
  intros p Q. rewrite HL1, hgot_app, hgot_entries, HL2, (done_quiet c p Q).
  apply posns_split. apply (hi_thr_le c I k Hk).
Qed.

(* ------------------------------------------------------------------ BehaviorSubject *)
Definition ThrPos (c : hcfg) : Prop := forall k, h_mode c = HBehavior -> h_thr c = Some k -> 1 <= k.
Lemma thrpos_step c a : HInv c -> ThrPos c -> ThrPos (hstep c a).
Proof.
  intros I T. unfold ThrPos. destruct a as [p|p|p|]; unfold hstep; cbv zeta.
  - destruct (hp_pos (h_prod c p)); try exact T. destruct (h_lock c); try exact T. destruct (Nat.ltb _ _); exact T.
  - destruct (hp_pos (h_prod c p)); exact T.
  - destruct (hp_pos (h_prod c p)); exact T.
  - destruct (h_mode c) eqn:M; [destruct (h_stage c) as [|[|[|[|s]]]] | destruct (h_stage c) as [|[|[|s]]]]; hc;
      try (intros k E; discriminate E); try (intros k _; apply T; now rewrite M); try exact T.
    intros k _ E. injection E as <-. pose proof (hi_beh c I M) as NE. destruct (h_hist c); [congruence | cbn [length]; lia].
Qed.
Lemma thrpos_run acts : forall c, HInv c -> ThrPos c -> ThrPos (hrun acts c).
Proof.
  induction acts as [|a acts IH]; intros c I T; cbn [hrun fold_left]; auto.
  apply IH; [now apply hstep_inv | now apply thrpos_step].
Qed.

(* j receives the value at position k-1 and then, for a producer not in the middle of a push, exactly its items at
   the later positions, each once, in push order *)
Theorem behavior_late_subscriber initial scripts acts :
  let c := hrun acts (hinit HBehavior initial scripts) in
  forall k, h_thr c = Some k ->
  1 <= k <= length (h_hist c) /\
  exists L, h_log c = entry (h_hist c) (k - 1) :: L /\
            (forall p, hgot p L = filter (Nat.leb k) (done c p)) /\
            (forall p, quiet c p = true -> hgot p L = filter (Nat.leb k) (posns p (h_hist c))).
Proof.
  intros c k Hk.
  assert (I : HInv c) by (apply hrun_inv, hinit_inv).
  assert (M : h_mode c = HBehavior) by (unfold c; now rewrite hrun_mode).
  destruct (hi_log c I k Hk) as [L [HL1 HL2]]. rewrite M in HL1. cbn [handed app] in HL1.
  split.
  - split; [|apply (hi_thr_le c I k Hk)].
    (* the threshold is a history length seen under the lock, and the history is never empty *)
    apply (thrpos_run acts (hinit HBehavior initial scripts)); [apply hinit_inv | intros k' _ E; discriminate E | exact M | exact Hk].
  - exists L. split; [exact HL1|]. split; [exact HL2|]. intros p Q. now rewrite HL2, (done_quiet c p Q).
Qed.

(* ------------------------------------------------------------------ the history is what the producers pushed *)
Definition vals (hist : list (nat * nat)) (l : list nat) : list nat := map (fun n => snd (nth n hist (0, 0))) l.
Definition Pushed (c : hcfg) : Prop :=
  forall p, p <> init_tag -> vals (h_hist c) (posns p (h_hist c)) = firstn (hp_k (h_prod c p)) (hp_script (h_prod c p)).

Lemma firstn_S_nth (l : list nat) k : k < length l -> firstn (S k) l = firstn k l ++ [nth k l 0].
Proof.
  revert k. induction l as [|x l IH]; intros k H; cbn [length] in H; [lia|].
  destruct k; cbn [firstn nth app]; auto. f_equal. apply IH. lia.
Qed.

Lemma pushed_step c a : Pushed c -> Pushed (hstep c a).
Proof.
  intros P. destruct a as [p|p|p|]; unfold hstep; cbv zeta.
  - destruct (hp_pos (h_prod c p)) eqn:E; try exact P. destruct (h_lock c); try exact P.
    destruct (Nat.ltb _ _) eqn:LT; try exact P. apply Nat.ltb_lt in LT.
    intros q Hq. hc. rewrite posns_app. unfold hupd. destruct (Nat.eqb q p) eqn:Q.
    + apply Nat.eqb_eq in Q. subst q. rewrite Nat.eqb_refl. hc. rewrite firstn_S_nth by exact LT.
      unfold vals. rewrite map_app. f_equal.
      * rewrite <- (P p Hq). unfold vals. apply map_ext_in. intros n Hn. apply posns_in in Hn. now rewrite app_nth1 by lia.
      * cbn [map]. rewrite app_nth2 by lia. rewrite Nat.sub_diag. reflexivity.
    + rewrite Nat.eqb_sym in Q. rewrite Q, app_nil_r. rewrite <- (P q Hq). unfold vals. apply map_ext_in.
      intros n Hn. apply posns_in in Hn. now rewrite app_nth1 by lia.
  - destruct (hp_pos (h_prod c p)) eqn:E; try exact P. intros q Hq. hc. unfold hupd.
    destruct (Nat.eqb q p) eqn:Q; [apply Nat.eqb_eq in Q; subst q; hc|]; apply (P _ Hq).
  - destruct (hp_pos (h_prod c p)) eqn:E; try exact P. intros q Hq. hc. unfold hupd.
    destruct (Nat.eqb q p) eqn:Q; [apply Nat.eqb_eq in Q; subst q; hc|]; apply (P _ Hq).
  - destruct (h_mode c) eqn:M; [destruct (h_stage c) as [|[|[|[|s]]]] | destruct (h_stage c) as [|[|[|s]]]]; exact P.
Qed.

Lemma pushed_init m initial scripts : Pushed (hinit m initial scripts).
Proof.
  intros p Hp. unfold hinit. hc. destruct m; cbn; auto.
  unfold posns. cbn. unfold init_tag in *. apply Nat.eqb_neq in Hp. rewrite Nat.eqb_sym in Hp. now rewrite Hp.
Qed.

Theorem history_is_pushed m initial scripts acts : Pushed (hrun acts (hinit m initial scripts)).
Proof.
  generalize (pushed_init m initial scripts). generalize (hinit m initial scripts).
  induction acts as [|a acts IH]; intros c P; cbn [hrun fold_left]; auto. apply IH. now apply pushed_step.
Qed.
