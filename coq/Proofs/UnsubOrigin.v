From Coq Require Import List ZArith Bool Arith Lia.
From RX Require Import Val Syntax World Step Oracle.
Import ListNotations.

(* which requests ask for Observer::unsubscribe on o: Subscription::unsubscribe on a subscription of o, and the
   StreamController (upstream_abort_observe / finalize on its registered upstream observers, finalize on its subscriber) *)
Definition unsub_source (r : req) (w : world) (o : oid) : Prop :=
  match r with
  | SubUnsub s => sb_obs (subs w s) = o /\ sb_live (subs w s) = true
  | UnsubEntry c ser => find_ser ser (c_uns (ctls w c)) = Some o
  | Fin c => In o (map snd (c_uns (ctls w c)))
  | FinSub c => c_sub (ctls w c) = o /\ is_sub (obs w o) = true
  | _ => False
  end.

Lemma not_in_map_act n acts o : ~ In (Unsub o) (map (Act n) acts).
Proof. intro H. apply in_map_iff in H. destruct H as [a [E _]]. discriminate. Qed.
Lemma not_in_map_deliver {A} (f : A -> oid) e l o : ~ In (Unsub o) (map (fun p => Deliver (f p) e) l).
Proof. intro H. apply in_map_iff in H. destruct H as [a [E _]]. discriminate. Qed.

Ltac inv_in :=
  repeat match goal with
         | H : In _ [] |- _ => destruct H
         | H : In _ (_ :: _) |- _ => destruct H as [H | H]; [try discriminate H |]
         | H : In _ (_ ++ _) |- _ => apply in_app_or in H; destruct H as [H | H]
         | H : In (Unsub _) (map (Act _) _) |- _ => exfalso; exact (not_in_map_act _ _ _ H)
         end.

Theorem unsub_origin r w o : In (Unsub o) (fst (step r w)) -> unsub_source r w o.
Proof.
  destruct r as [o0 e | o0 | o0 | o0 | n a | c | c | c ser | s att o0 script idx | o0 l | o0 a n | o0 v | o0 l src | p o0 | h e | h e | h o0 | h o0 | o0 x | h len | h len | k | k | h o0 | h o'0 | o0 x | o0 d | s | x | l m | l m | k i | k p rs | | a]; cbn [step unsub_source]; intro H.
  - (* Deliver *)
    destruct (match e with Nx _ => _ | Er _ => _ | Co => _ end); [| destruct H].
    destruct (o_tgt (obs w o0)); cbn [fst] in H; inv_in.
    + destruct e as [[] | |]; cbn [fst] in H; unfold alloc_obs in H; cbn [fst snd] in H; destruct (udec u); cbn [fst app] in H; inv_in.
    + destruct (handler _ _ _ _ _ _ _ _) as [st' acts]. cbn [fst] in H. inv_in.
  - cbn [fst] in H. inv_in.
  - destruct (o_td (obs w o0)) as [[c | h ser | x] |]; cbn [fst] in H; inv_in.
  - destruct H.
  - (* Act *)
    destruct a; cbn [fst] in H;
      repeat match type of H with
             | In _ (fst (if ?b then _ else _)) => destruct b
             | In _ (fst (match ?l with [] => _ | _ :: _ => _ end)) => destruct l
             | In _ (map (Act _) (if ?b then _ else _)) => destruct b
             end; cbn [fst app] in H; inv_in.
    + unfold alloc_obs in H. cbn [fst snd] in H. destruct (is_sub _); cbn [fst] in H; inv_in.
    + unfold alloc_subj in H. cbn [fst] in H. inv_in.
  - (* Fin *)
    cbn [fst] in H. inv_in. apply in_map_iff in H. destruct H as [p [E I]]. injection E as <-. apply in_map. exact I.
  - (* FinSub *)
    destruct (is_sub (obs w (c_sub (ctls w c)))) eqn:Q; cbn [fst] in H; inv_in. injection H as <-. auto.
  - (* UnsubEntry *)
    destruct (find_ser ser (c_uns (ctls w c))); cbn [fst] in H; inv_in. injection H as ->. reflexivity.
  - destruct script; [| destruct (_ && _)]; cbn [fst] in H; inv_in.
  - destruct l; destruct (is_sub _); cbn [fst] in H; inv_in.
  - destruct n; [| destruct (is_sub _)]; cbn [fst] in H; inv_in.
  - destruct (is_sub _); cbn [fst] in H; inv_in.
  - destruct l; destruct (is_sub _); cbn [fst] in H; inv_in.
  - (* SubscribePipe *)
    destruct (negb (is_sub (obs w o0))); [destruct H |].
    destruct p as [s | v | l | a n | | | e | v | q | c | r | h | h | k | s | i | op src others]; cbn [fst] in H; inv_in.
    + destruct r; cbn [fst] in H; inv_in.
    + destruct (sj_kind (subjs w h)); cbn [fst] in H; inv_in.
      * destruct (sj_err (subjs w h)); [| destruct (sj_last (subjs w h))]; cbn [fst] in H; inv_in.
      * unfold alloc_cell, alloc_obs in H; cbn [fst snd] in H. inv_in.
    + assert (G : forall (l : list (nat * pipe)) entries order n acts,
                In (Unsub o) (flat_map (fun i => match nth_error l i, find_ser i entries with
                                                 | Some pp, Some o' => [SubscribePipe (snd pp) o']
                                                 | _, _ => []
                                                 end) order ++ map (Act n) acts) -> False).
      { intros l entries order n acts G. apply in_app_or in G. destruct G as [G | G]; [| exact (not_in_map_act _ _ _ G)].
        apply in_flat_map in G. destruct G as [i [_ G]]. destruct (nth_error l i); [| destruct G]. destruct (find_ser i entries); inv_in. }
      destruct op; cbn [fst] in H; inv_in.
      all: destruct (plan _ src others) as [ups order].
      all: match type of H with
           | context [fold_left ?F ?U ([], ?w2)] => destruct (fold_left F U ([], w2)) as [entries w3]
           end.
      all: try (unfold alloc_obs, alloc_subj in H; cbn [fst snd] in H); cbn [fst] in H; exact (G _ _ _ _ _ H).
  - destruct (match sj_kind (subjs w h) with KBehavior | KReplay => _ | _ => false end); cbn [fst] in H; inv_in.
  - cbn [fst] in H. exfalso. apply in_map_iff in H. destruct H as [a [E _]]. discriminate.
  - cbn [fst] in H. inv_in.
  - (* Replay *) cbn [fst] in H. unfold hist_replay in H. exfalso.
    repeat match type of H with context [match ?x with _ => _ end] => destruct x end; inv_in;
      try (apply in_map_iff in H; destruct H as [a [E _]]; discriminate).
  - destruct H.
  - destruct (sj_hook _); [destruct (Nat.eqb _ _) |]; cbn [fst] in H; inv_in.
  - destruct (sj_hook _); [destruct (Nat.eqb _ _) |]; cbn [fst] in H; inv_in.
  - destruct (k_slot (conns w k)); [destruct H |]. unfold alloc_obs in H; cbn [fst snd] in H. inv_in.
  - destruct (k_slot (conns w k)); cbn [fst] in H; inv_in. destruct (match k_kind (conns w k) with CReplay => _ | _ => false end); cbn [fst] in H; inv_in.
  - destruct (is_sub (obs w o0)); [| destruct H]. unfold alloc_cell, alloc_obs in H; cbn [fst snd] in H. inv_in.
  - destruct (sj_err (subjs w h)); [destruct H |]. destruct (sj_done (subjs w h)); destruct H.
  - destruct (is_sub (obs w o0)); cbn [fst] in H; inv_in.
  - destruct H.
  - (* SubUnsub *) destruct (sb_live (subs w s)) eqn:L; cbn [fst] in H; inv_in. injection H as <-. auto.
  - cbn [fst] in H. destruct (cells w x); inv_in.
  - destruct (conflicts _ _ _); destruct H.
  - destruct H.
  - (* React *) cbn [fst] in H. exfalso. apply in_flat_map in H. destruct H as [ir [_ H]].
    destruct (Nat.eqb (fst ir) i); [| destruct H]. destruct (snd ir); unfold handle_sub in H;
      repeat match type of H with context [match ?x with _ => _ end] => destruct x end; inv_in.
    apply in_map_iff in H. destruct H as [a [E _]]. discriminate.
  - destruct (handles w k); [destruct H |]. unfold alloc_obs in H; cbn [fst snd] in H. inv_in.
  - destruct H.
  - (* Drv *)
    destruct a; cbn [fst] in H; unfold handle_sub, alloc_obs in H; cbn [fst snd] in H;
      repeat match type of H with context [match ?x with _ => _ end] => destruct x end; cbn [app] in H; inv_in.
    apply in_map_iff in H. destruct H as [a [E _]]. discriminate.
Qed.
